#!/usr/bin/env python3
"""tools/gen_appendix_g.py <matrix output> : rewrites the tables of DESIGN.md Appendix G from the output of
tools/seeded_matrix.sh / seeded_matrix_par.sh and the meta.json files of /verif/seeded."""
import json
import os
import re
import sys

HERE = os.path.dirname(os.path.dirname(os.path.abspath(__file__)))
rows = {}
for line in open(sys.argv[1]):
    m = re.match(r'(\S+) (\S+) exit=(\d+) violations=(\d+) bounded_hits=(\d+) undecided=(\d+) proof=(.*)$', line.strip())
    if m:
        rows[m.group(1)] = m.groups()
out = []
n_proof = n_bounded_only = n_missed = 0
for sid in sorted(os.listdir(os.path.join(HERE, 'seeded'))):
    meta = json.load(open(os.path.join(HERE, 'seeded', sid, 'meta.json')))
    r = rows.get(sid)
    summary = meta['summary'].replace('|', '/').replace('\n', ' ')
    if len(summary) > 150:
        summary = summary[:147] + '…'
    if r is None:
        out.append('| %s | %s | (not run) | |' % (sid, summary))
        continue
    _id, prop, code, viol, bnd, und, proof = r
    proof = proof.strip()
    for pre in ('sqlparse.engine.grouping.', 'sqlparse.engine.statement_splitter.', 'sqlparse.engine.filter_stack.',
                'sqlparse.filters.others.', 'sqlparse.filters.', 'sqlparse.lexer.', 'sqlparse.sql.', 'sqlparse.utils.',
                'sqlparse.formatter.', 'sqlparse.'):
        proof = proof.replace(pre, '')
    proof = re.sub(r'^C\d\d/', '', proof)
    if code != '1':
        n_missed += 1
        verdict = '**not refuted** (exit %s)' % code
    elif proof != '-':
        n_proof += 1
        verdict = '`%s`' % proof[:105]
    else:
        n_bounded_only += 1
        verdict = '— (bounded only)'
    out.append('| %s | %s | %s | %s |' % (sid, summary, verdict, 'yes' if int(bnd) else 'no'))
table = ('| id | change (from the sub-agent\'s summary) | first failed proof obligation | bounded stand-in also fails |\n'
         '|---|---|---|---|\n' + '\n'.join(out))
p = os.path.join(HERE, 'DESIGN.md')
s = open(p).read()
a = s.index('<!-- G-TABLE-BEGIN -->')
b = s.index('<!-- G-TABLE-END -->')
s = s[:a] + '<!-- G-TABLE-BEGIN -->\n' + table + '\n\n' + ('Totals of this run: %d changes, %d refuted by a proof obligation, %d only by '
    'the bounded stand-in, %d not refuted.\n' % (len(out), n_proof, n_bounded_only, n_missed)) + s[b:]
open(p, 'w').write(s)
print(len(out), n_proof, n_bounded_only, n_missed)
