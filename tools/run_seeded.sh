#!/bin/sh
# tools/run_seeded.sh [ids...]   apply each seeded change to /repo, run the check(s) of its property, undo it.
# Output: one line per change: <id> <property> exit=<code> detected=<yes|no>
cd /verif
[ $# -gt 0 ] && IDS="$*" || IDS=$(ls seeded)
mkdir -p /tmp/seedlogs
for id in $IDS; do
  prop=$(python3 -c "import json;print(json.load(open('seeded/$id/meta.json'))['property'])")
  [ -f props/$prop.py ] || { echo "$id $prop no-check-yet"; continue; }
  if ! git -C /repo apply /verif/seeded/$id/patch.diff 2>/dev/null; then echo "$id $prop patch-does-not-apply"; continue; fi
  ./check $prop --tier quick > /tmp/seedlogs/$id.log 2>&1; code=$?
  git -C /repo checkout -- . ; git -C /repo clean -fdq sqlparse 2>/dev/null
  v=$(grep -c '^VIOLATION' /tmp/seedlogs/$id.log)
  first=$(grep -A1 '^VIOLATION' /tmp/seedlogs/$id.log | grep obligation | head -1 | cut -c1-150)
  echo "$id $prop exit=$code violations=$v $first"
done
