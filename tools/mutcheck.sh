#!/bin/sh
# tools/mutcheck.sh <file-under-sqlparse> '<python-regex>' '<replacement>' <test-script> : run a test script against a
# scratch copy of /repo with one textual mutation (self-validation of the verifier)
D=$(mktemp -d /tmp/mut.XXXXXX); cp -r /repo/sqlparse $D/
python3 - "$D/sqlparse/$1" "$2" "$3" <<'PY'
import re,sys
p,pat,rep=sys.argv[1:4]
s=open(p).read(); n=len(re.findall(pat,s,flags=re.M))
assert n>=1, 'pattern not found'
open(p,'w').write(re.sub(pat,rep,s,count=1,flags=re.M))
PY
VERIF_REPO=$D /verif/.venv/bin/python $4 2>&1 | grep -v "^discharged" | cut -c1-330
rm -rf $D
