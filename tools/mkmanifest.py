#!/usr/bin/env python3
"""Regenerates /verif/MANIFEST.json from the table below (keeps the manifest valid at all times)."""
import json
import os

HERE = os.path.dirname(os.path.dirname(os.path.abspath(__file__)))

TECH = ('contract-based deductive verification of the real code: sidecar contracts (pre/post, loop invariants, ghost '
        'state) on the functions of /repo/sqlparse, VCs generated from the real AST on every run by the symbolic '
        'executor pyvc and discharged by z3 (cvc5 for unknowns); data obligations decided structurally; ')

P = {
    'C01': dict(
        text='Proof: Lexer.get_tokens (str input) verified against the loop invariant "yielded values concatenate to '
             'text[:k]" for every str and every iteration (no bound), all yields non-empty, fallback yields one Error '
             'character, skip count never negative (consume precondition), is_keyword returns the lexeme unchanged; '
             'per-rule data obligations (compiles, minimum width >= 1, well-typed action). A bounded enumeration '
             '(strings <= 3 over a class alphabet, interleaved streams) runs beside it and is not counted as proof.',
        note='Trusted: CPython re engine through the match contract (DESIGN 4.4), islice/deque/enumerate models, the '
             'pyvc encoding of Python, z3. Bytes/stream inputs are decided under C19.',
        tech=TECH + 'bounded enumeration as a labelled stand-in for regex semantics', ref='5 C01'),
    'C05': dict(
        text='Proof by structural induction over the verification grammar: one Hoare triple per production over the '
             'real loop body of StatementSplitter.process with _change_splitlevel/_reset executed in place (terminals '
             'tokenised by the real lexer, non-terminals by their summaries); value-independence of the transition '
             'for non-keyword, non-punctuation tokens; statement-boundary obligations (terminator condition, trailing '
             'trivia, hand-over of the collected list); rule-order data obligations. Opaque regions being single '
             'tokens is bounded (regex semantics).',
        note='Trusted: re for terminal tokenisation and region lexing (bounded stand-in over generated scripts), the '
             'grammar of DESIGN 4.5 as the induction structure, the composition argument, pyvc, z3.',
        tech=TECH + 'grammar induction lemmas over the splitter transition code; bounded stand-in for lexing', ref='5 C05'),
    'C14': dict(
        text='Proof for the dictionary half: Lexer.is_keyword returns (type from the FIRST dictionary listing '
             'upper(word), else Name; the word unchanged) for any list of dictionaries (loop invariant with a ghost '
             'first-hit index); data obligations on dictionary order, keys, reset, rule order and first characters. '
             'Opacity of literal/comment bodies and one-token lexing of every dictionary word are regex semantics: '
             'bounded stand-in (exhaustive bodies <= 3 over a class alphabet x delimiter contexts; all dictionary '
             'words x 4 casings), labelled bounded.',
        note='Trusted: CPython re (bounded only), dict membership/lookup as uninterpreted functions, pyvc, z3.',
        tech=TECH + 'bounded exhaustive enumeration for the regex half', ref='5 C14'),
    'C17': dict(
        text='Proof by structural induction over the procedural productions (block, IF..END IF, WHILE..DO..END WHILE, '
             'LOOP..END LOOP, CASE expressions, nested blocks, plain statements inside bodies) as Hoare triples over '
             'the real splitter code in the context families BODY / INCASE / PROC0 / DECL; statement-level triple '
             '"CREATE .. BEGIN .. END ;" ends exactly at the final semicolon from the reset state.',
        note='Trusted: re for terminal tokenisation, the grammar as induction structure, pyvc, z3. Open findings are '
             'listed in known_findings.json.',
        tech=TECH + 'grammar induction lemmas over the splitter transition code', ref='5 C17'),
}

P['C20'] = dict(
    text='Proof of the frame, reset and lock-discipline obligations that make call history and schedules irrelevant: '
         'for every function reachable from parse/parsestream/split/format (name-based call graph over the real AST) '
         'no write goes through a closure variable, module global, class name or cls, except cls._default_instance '
         'inside `with cls._lock`; the lexer read path (get_tokens, is_keyword, tokenize) never stores to the shared '
         'lexer; no class-level containers/instances, no mutable defaults, no lazily created token types; monitor '
         'obligations on get_default_instance; default_initialization re-establishes the same configuration from any '
         'state. Thread schedules are not enumerated in this family; a bounded history/thread stand-in runs beside it.',
    note='Trusted: the syntactic write-set analysis (aliasing through parameters not tracked), GIL atomicity of '
         'attribute access, thread safety of compiled re patterns, the scheduler.',
    tech=TECH + 'frame/effects obligations decided structurally over the AST', ref='5 C20')

NA = {
    'C16': 'no contract on a function of /repo can express a bound on the running time of CPython\'s _sre matcher; '
           'deciding exponential ambiguity of a regex is an automata-theoretic analysis and timing pump strings is '
           'testing - both other technique families (DESIGN 7). Only the adjacent fact "every rule has minimum width '
           '>= 1" is proved (under C01).',
}
NOT_YET = 'check not built yet in this session (planned, see DESIGN 5); not claimed until its obligations discharge'


def main():
    ids = [json.loads(l)['id'] for l in open(os.path.join(HERE, 'properties.jsonl'))]
    checks, na = [], []
    for i in ids:
        if i in P and os.path.exists(os.path.join(HERE, 'props', i + '.py')):
            p = P[i]
            checks.append({
                'property_id': i,
                'quick_cmd': './check %s --tier quick' % i,
                'thorough_cmd': './check %s --tier thorough' % i,
                'evidence_file': 'evidence/%s.json' % i,
                'replay_cmd_template': './check %s --replay {path}' % i,
                'engine': 'pyvc',
                'level_claimed': {'category': 'proof', 'text': p['text'], 'design_ref': 'DESIGN.md section ' + p['ref']},
                'level_note': p['note'],
                'technique': p['tech'],
            })
        else:
            na.append({'property_id': i, 'reason': NA.get(i, NOT_YET)})
    m = {
        'version': 1,
        'setup_cmd': './setup.sh',
        'hooks': {'guard': 'SQLPARSE_VERIF', 'enable': 'none needed: contracts are sidecar files under /verif/contracts, '
                  'data is read by importing the real modules from /repo', 'baseline_off_cmd':
                  'cd /repo && /venv/bin/python -m pytest -ra -q -p no:cacheprovider --timeout=900 '
                  '--continue-on-collection-errors', 'source_commits': [], 'add_only': True},
        'engines': [{'name': 'pyvc', 'path': 'pyvc/', 'serves_properties': [c['property_id'] for c in checks],
                     'kind_free_text': 'self-built deductive verifier for a Python subset: ast -> symbolic execution -> '
                     'VCs -> z3/cvc5; sidecar contracts; structural data obligations; bounded stand-ins labelled'}],
        'checks': checks,
        'not_applicable': na,
        'notes': 'Exit codes: 0 held (KNOWN-FINDING lines for entries of known_findings.json), 1 VIOLATION, 3 checker '
                 'fault; undecided obligations print UNDECIDED lines and exit 0 (exit 2 with VERIF_STRICT=1).',
    }
    with open(os.path.join(HERE, 'MANIFEST.json'), 'w') as f:
        json.dump(m, f, indent=1)
    print('MANIFEST.json: %d checks, %d not_applicable' % (len(checks), len(na)))


if __name__ == '__main__':
    main()
