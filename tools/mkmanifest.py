#!/usr/bin/env python3
"""Regenerates /verif/MANIFEST.json from the table below (keeps the manifest valid at all times)."""
import json
import os

HERE = os.path.dirname(os.path.dirname(os.path.abspath(__file__)))

TECH = ('contract-based deductive verification of the real code: sidecar contracts (pre/post, loop invariants, ghost '
        'state) on the functions of /repo/sqlparse, VCs generated from the real AST on every run by the symbolic '
        'executor pyvc and discharged by z3 (cvc5 for unknowns); data obligations decided structurally; ')

P = {
    'C01': dict(
        text='Proof: Lexer.get_tokens (str input) verified against the loop invariant "yielded values concatenate to '
             'text[:k]" for every str and every iteration (no bound), all yields non-empty, fallback yields one Error '
             'character, skip count never negative (consume precondition), is_keyword returns the lexeme unchanged; the scanner keeps no state on the (shared) lexer object (frame obligation), so interleaved streams are independent; monitor obligations on get_default_instance (every caller, also at the process\'s first calls from several threads, gets a completely initialised lexer); '
             'per-rule data obligations (compiles, minimum width >= 1, well-typed action). A bounded enumeration '
             '(strings <= 3 over a class alphabet and over transform-sensitive Unicode symbols, interleaved streams) runs beside it and is not counted as proof.',
        note='Trusted: CPython re engine through the match contract (DESIGN 4.4), islice/deque/enumerate models, the '
             'pyvc encoding of Python, z3. Bytes/stream inputs are decided under C19.',
        tech=TECH + 'bounded enumeration as a labelled stand-in for regex semantics', ref='5 C01'),
    'C05': dict(
        text='Proof by structural induction over the verification grammar: one Hoare triple per production over the '
             'real loop body of StatementSplitter.process with _change_splitlevel/_reset executed in place (terminals '
             'tokenised by the real lexer, non-terminals by their summaries); value-independence of the transition '
             'for non-keyword, non-punctuation tokens; statement-boundary obligations (terminator condition, trailing '
             'trivia, hand-over of the collected list); rule-order data obligations; lexical independence of the grammar terminals (no keyword-phrase rule of the lexer table can fuse a terminal with a token that may follow it: FOLLOW sets of the grammar x finite phrase sets of the rules). Opaque regions being single '
             'tokens is bounded (regex semantics).',
        note='Trusted: re for terminal tokenisation and region lexing (bounded stand-in over generated scripts), the '
             'grammar of DESIGN 4.5 as the induction structure, the composition argument, pyvc, z3.',
        tech=TECH + 'grammar induction lemmas over the splitter transition code; regular-language obligations on the '
             'region rules (z3 regex theory, DESIGN 0.8); bounded stand-in for the rest of lexing', ref='5 C05'),
    'C14': dict(
        text='Proof for the dictionary half: Lexer.is_keyword returns (type from the FIRST dictionary listing '
             'upper(word), else Name; the word unchanged) for any list of dictionaries (loop invariant with a ghost '
             'first-hit index); data obligations on dictionary order, keys, reset, rule order and first characters. '
             'Opacity of literal/comment bodies: the region rules of the real SQL_REGEX translated to regular languages '
             'and three obligations per region kind decided by z3 (regex theory): every well-formed region is in its '
             'rule\'s language, a lazy rule cannot stop before the region ends, a greedy rule cannot run past it; every '
             'counter-model is replayed on the real lexer (not reproduced = undecided).  Which of several matching '
             'prefixes backtracking picks, surrounding contexts, look-around rules, dollar-quoted bodies and one-token '
             'lexing of every dictionary word: bounded stand-in (exhaustive bodies <= 3 over a class alphabet x '
             'delimiter contexts; all dictionary words x 4 casings), labelled bounded.',
        note='Trusted: the translation of re syntax to a regular language (pyvc/regexlang.py), CPython re for match '
             'selection (bounded only), dict membership/lookup as uninterpreted functions, pyvc, z3.',
        tech=TECH + 'regular-language obligations over the lexer table (z3 regex theory) with replay; bounded exhaustive '
             'enumeration for match selection and contexts', ref='5 C14, 0.8'),
    'C17': dict(
        text='Proof by structural induction over the procedural productions (block, IF..END IF, WHILE..DO..END WHILE, '
             'LOOP..END LOOP, CASE expressions, nested blocks, plain statements inside bodies incl. DDL with IF [NOT] EXISTS and the IF() function) as Hoare triples over '
             'the real splitter code in the context families BODY / INCASE / PROC0 / DECL; statement-level triple '
             '"CREATE .. BEGIN .. END ;" ends exactly at the final semicolon from the reset state; lexical independence of the grammar terminals (no lexer rule fuses BEGIN, END, IF ... with the token that follows it in a derivation).',
        note='Trusted: re for terminal tokenisation, the grammar as induction structure, pyvc, z3. Open findings are '
             'listed in known_findings.json.',
        tech=TECH + 'grammar induction lemmas over the splitter transition code', ref='5 C17'),
}

P['C20'] = dict(
    text='Proof of the frame, reset and lock-discipline obligations that make call history and schedules irrelevant: '
         'for every function reachable from parse/parsestream/split/format (name-based call graph over the real AST) '
         'no write goes through a closure variable, module global, class name or cls, except cls._default_instance '
         'inside `with cls._lock`; the lexer read path (get_tokens, is_keyword, tokenize) never stores to the shared '
         'lexer; no class-level containers/instances, no mutable defaults, no lazily created token types, no memoised function (caching decorator) on the reachable path; monitor '
         'obligations on get_default_instance (incl.: no other function reads the shared instance while it is published before its initialisation); default_initialization re-establishes the same configuration from any '
         'state. Thread schedules are not enumerated in this family; a bounded history/thread stand-in runs beside it.',
    note='Trusted: the syntactic write-set analysis (aliasing through parameters not tracked), GIL atomicity of '
         'attribute access, thread safety of compiled re patterns, the scheduler.',
    tech=TECH + 'frame/effects obligations decided structurally over the AST', ref='5 C20')

BND = ' A bounded stand-in (native oracle = executable transcription of the property statement, on an enumerated domain) runs beside the proof and is reported separately; it is never counted as proved.'
P['C02'] = dict(text='Proof: lexer loop invariant (C01); group_tokens preserves the text of the node for every list, slice and class, in both branches (ghost text with concatenation laws, no quantifiers); TokenList.__init__ caches the text of its children; the 25 grouping passes write the tree only through group_tokens (frame obligations over the AST); splitter hand-over obligations over the real loop body of process (every token joins exactly one statement, also when a statement is empty; the yielded list is not written afterwards); _group_matching (six classes), the nine simple passes, and the infix joiner _group (verified once under a generic closure contract, each of its ten instantiating passes checked to satisfy that contract) call group_tokens only within its preconditions.' + BND,
    note='Trusted: re match contract; ownership-based local invariants (a node has one parent) as the methodology that lifts the per-node text invariant to all ancestors; pyvc; z3. flatten/__str__ by shape obligations.', tech=TECH + 'ghost-text heap model with generator-instantiated lemmas', ref='5 C02')
P['C03'] = dict(text='Proof of the tree invariant for the functions that establish and maintain it: Token.__init__ (leaf flags, normalized), TokenList.__init__ (same list object, children re-parented, cached value), group_tokens new-group and extend branches (Inv I1-I6 for the new/extended group and for self, element identity, length bookkeeping); navigation helpers _token_matching forward/reverse (first match via interval summaries), token_next / token_prev (through the call-site contract with the real closure), token_index, get_token_at_offset (the leaf whose character span contains the offset, None outside), within / has_ancestor / is_child_of against the ancestry chain of a token (abstract sequence of ancestors linked by the parent references: within(cls) <=> some ancestor is an instance of cls, has_ancestor(o) <=> o is an ancestor, is_child_of(o) <=> o is the parent); _group_matching for all six bracket/block classes (loop invariant over the stack of open positions: sorted, below the cursor, elements still at their positions) the nine simple passes (every group_tokens call satisfies 0 <= start <= end < len); the infix joiner _group for any class and any closures satisfying a stated closure contract (loop invariant: current list = processed prefix ++ unvisited rest of the snapshot, previous-neighbour index bounded, absorbed tokens skipped) and its ten instantiating passes, whose real closures are run symbolically at the call site and checked against that contract; frame and identity side conditions; no pass of the grouping engine stores to the type or value of a token other than `.ttype = T.Operator`.' + BND,
    note='Not under contract (bounded only): WHICH tokens the joiner passes group (their predicates are only proved total and effect-free); termination of the ancestor walk is not proved; flatten() enters get_token_at_offset as a sequence model (its relation to the tree: shape obligation + I4). Trusted: methodology of local invariants, pyvc, z3.', tech=TECH + 'segment-list heap model, lazily materialised elements, interval summaries', ref='5 C03')
P['C04'] = dict(text='Proof: split and parse consume the same lexer+splitter pass (shape obligations on split, FilterStack.__init__, run), statements keep their text under grouping (C02 obligations), splitter boundary obligations, StripTrailingSemicolonFilter removes only trailing whitespace and semicolons (per-site obligation); the lexer types every str.isspace character as Whitespace (exhaustive over the 29 characters), so the splitter\'s and str.strip\'s notions of blank agree; the scanning path of the lexer stores nothing on the lexer object (separate runs over the same text see the same tokens).' + BND,
    note='Re-splitting a piece (lexing out of context) and the strip/partition arithmetic are bounded only. Trusted: re, str.strip.', tech=TECH + 'shape obligations + bounded stand-in', ref='5 C04')
P['C06'] = dict(text='Proof of the tree-level clause by per-site SMT obligations over the heap model: on every path of the listed layout routines (strip-whitespace family, spaces-around-operators, reindent split/where/parenthesis/values/process, aligned split/parenthesis/statement) every removed element is whitespace, every value store blanks a whitespace token, every inserted element is a fresh whitespace token (also inside insert_before / insert_after executed in place), and no other token field is written; the identifier-list layout and the CASE layout of both indent filters are verified on explicit node shapes (arbitrary item classes, texts and filter settings); the three strip_whitespace routines additionally against functional postconditions on explicit shapes (exactly the whitespace in front of commas / behind ( / in front of ) is removed, every other token is the same object in the same order); option validation proved for every option value; filter order and serializer by shape obligations.' + BND,
    note='Loops are over-approximated (arbitrary element, havoc-ed state, field taint); sibling calls by "may restructure its argument". the two _process_default routines and the _stripws dispatcher are covered by a syntactic inventory + bounded only; shape cases speak about the stated shapes only. Re-lexing the output is regex semantics: bounded only.', tech=TECH + 'per-site obligations over a heap model', ref='5 C06')
P['C07'] = dict(text='Proof of `raises subset {SQLParseError}` for validate_options over ALL option values (None|bool|int|float incl. inf/nan|str|other), for the lexer, consume, the splitter transition, the three stream filters, get_type, get_parent_name, remove_quotes, the read-only accessors (is_wildcard, get_typecast, get_ordering, Comparison.left/right, get_window, get_parameters given a Parenthesis child, get_alias, get_real_name, get_name, has_alias, _get_first_name, get_identifiers, get_token_at_offset), the neighbour-search helpers, group_tokens, _group_matching (six classes), the nine simple grouping passes, the joiner _group with its ten instantiating passes (closures total on every child and on None) and StripWhitespaceFilter.process (also on a statement without children), the generators of OutputPythonFilter and OutputPHPFilter on every token list (every partial operation on every path), AlignedIndentFilter._process_case on CASE shapes (the closing keyword guaranteed by the grouping is found again); every closer lookup of the CASE layout routines and of get_cases accepts every closer that Case.M_CLOSE admits (cooperating sites); validation dominates formatting; RecursionError obligations of C15.' + BND,
    note='the other tree filters: bounded stand-in (exhaustive 2-fragment soups + random soups x option sets, accessor walk, invalid option values).', tech=TECH + 'exceptional postconditions per function', ref='5 C07')
P['C08'] = dict(text='Proof: KeywordCaseFilter, IdentifierCaseFilter, TruncateStringFilter are per-token maps (one output per input, same type, value changed only for the target types, truncation formula) for every stream; StripCommentsFilter per-site obligations (thorough tier): only non-hint comments are removed, only fresh whitespace inserted; its closure _get_insert_token returns a whitespace leaf allocated by the call (both tiers); shape cases of _process (A <comment> B ws <hint> ws <comment>: both comments gone, hint and every other token the same object in order) and of process (a hint behind an ordinary comment inside one Comment group survives: groups are cleaned from the inside out), both tiers.' + BND,
    note='"No two tokens fused or split", idempotence: re-lexing, bounded only. Trusted: str case maps (uninterpreted total), re.', tech=TECH + 'generator contracts with ghost counters', ref='5 C08')
P['C09'] = dict(text='Proof: group_tokens(cls, i, j) creates ONE group owning exactly tokens[i..j] (first child = tokens[i], last = tokens[j]); _group_matching for the six classes against a loop invariant over the stack of open positions (every pop groups [open, close] with open < close, the closer is the current token and matches M_CLOSE, only tokens matching M_OPEN are pushed, the stack stays sorted and below the cursor, groups of other classes are recursed into, enclosing delimiters are skipped); _is_delimiter verified per class against the property\'s notion of a delimiter (first child; every leaf matching the class\'s closing pattern wherever it stands; never a group); _group_matching executed on explicit token lists (nested parentheses, unmatched brackets, CASE, CASE inside a Parenthesis group) must produce exactly the textbook pairs; Token.__init__ (closers are matched on the normalized text); order of the six matching passes and their delimiter tables (data obligations); grouping passes write the tree only through group_tokens.' + BND + ' That the result equals the textbook matcher on the whole token stream (composition over nesting and passes) is decided by the bounded stand-in (independent stack matcher vs parsed tree).',
    note='The later infix passes: _group is proved to group index ranges of the current child list only (whole children, never parts of a bracket group), never a range containing a delimiter of the enclosing group (the any(...) guard read as an interval summary), and to recurse into every group child of another class. the end-to-end equality with the stack matcher is bounded.', tech=TECH + 'loop invariants over an integer-stack summary; bounded stand-in for the end-to-end equality', ref='5 C09')
P['C10'] = dict(text='Proof of per-site obligations for the whitespace-normalising routines (what they may touch) and shape obligations for nl(), the split-word list, BETWEEN..AND skipping; functional normal-form postconditions of _stripws_default (loop invariant over the list order, and an explicit shape), _stripws_identifierlist and _stripws_parenthesis (explicit shapes); Token.match(..., regex=True), by which the reindent filters find their split words, searches the normalized text (re.compile().search as an uninterpreted predicate); StripWhitespaceFilter.process (trailing-token removal, total on empty statements); the serializer joins pieces right-stripped of every str.isspace character (element obligation of the real generator expression); SpacesAroundOperatorsFilter._process and StripWhitespaceFilter.process on explicit shapes (every operator between whitespace tokens; a nested group keeps its trailing whitespace); the CASE group and the identifier list are handed to the generic descent of the reindent filter under every option; option validation.' + BND + ' The normal forms of the whole output and the fixed points need re-lexing and adjacency across groups: bounded.',
    note='Normal forms of SpacesAroundOperators and of the reindent routines: per-site + bounded only.', tech=TECH + 'per-site obligations + bounded normal-form oracles', ref='5 C10')
P['C11'] = dict(text='Proof per inspection site: Token.__init__ computes normalized = upper-cased, whitespace-collapsed value for keywords; the splitter transition ignores the value of non-keyword tokens and, by a two-run (relational) contract, gives the same result and state for any two spellings of a keyword with the same upper-cased whitespace-collapsed form; neighbour search skips whitespace (first-match contracts); the joiner _group never remembers a whitespace token of any kind as the neighbour of an infix token (loop invariant); every multi-word rule of the table the default lexer instance scans with (keywords.SQL_REGEX and anything the configuration code adds) separates words by \\s+ (structural); Token.match regex form searches the normalized text; no comparison of raw token text with a keyword constant (AST scan); matching constants are canonical.' + BND,
    note='Same tree shape for respelled scripts end-to-end: bounded stand-in.', tech=TECH + 'site obligations + structural regex facts', ref='5 C11')
P['C12'] = dict(text='Proof: remove_quotes removes exactly one surrounding pair (against its specification function); get_parent_name returns the unquoted value of the nearest non-whitespace child before the first dot, None without one; _get_first_name (forward from an index / reverse) returns the unquoted value of the first, resp. last, name leaf (loop invariant over the real loop, first-match summaries); and the statement of C12 itself on the six Identifier shapes name | qualifier.name, alone / AS alias / bare alias (name leaves Name or quoted Symbol with arbitrary values, arbitrary non-empty whitespace runs, alias as nested Identifier): get_real_name, get_parent_name, get_alias, has_alias, get_name return the unquoted written name, qualifier, alias, alias presence, alias-or-name (30 shape cases); the passes that build these shapes (group_period, group_identifier, group_as, group_aliased, group_identifier_list) group exactly the written construct on explicit statements SELECT <construct> FROM t, also with several whitespace tokens before an alias and a second item directly behind the comma; group_aliased AS DECORATED (the real utils.recurse applied by the executor) attaches an implicit alias inside a subquery that is itself named with AS; neighbour-search helpers.' + BND + ' (65k cases quick, full product thorough).',
    note='The composition of all passes in every context (JOIN, UPDATE/INSERT target, subquery): bounded.', tech=TECH + 'string VCs + bounded stand-in', ref='5 C12')
P['C13'] = dict(text='Proof: first-match search for the clause-closing keyword, group_tokens span, group_where / group_functions / group_order call sites, coverage and EXTENT of group_where (every WHERE becomes a node; the grouped range starts at a WHERE keyword, contains no closing keyword behind it and is directly followed by a closing keyword of Where.M_CLOSE, the end of the list, or - inside a bracket / block group - the closing delimiter); Where.M_CLOSE lists every multi-word keyword token the lexer can emit that starts with a closing keyword; Function.get_parameters() on f(), f(x), f(a, b), f(a, b, c) and Case.get_cases() on CASE (WHEN c THEN v){1,2} [ELSE e] END return exactly the written parts (explicit shapes, generator executed in place); group_where (3 shapes, and as decorated on a statement with a WHERE inside a subquery and one outside), group_functions (also with whitespace before the parenthesis), group_identifier_list with a keyword-typed item, group_comparison, group_order, group_operator, group_typecasts, group_assignment, group_comments group exactly the written construct on explicit statements; and the joiner _group with its passes for IdentifierList, Comparison, TypedLiteral, Operation (indices within the list, recursion into nested groups, no exit before the children have been looked at - for every value of any integer / boolean parameter added later), IdentifierList.get_identifiers (yields exactly the children that are neither whitespace nor commas, in order), Comparison.left/right (first/last child), data obligations on Where.M_CLOSE and friends, shape obligations on get_identifiers / Comparison.left,right.' + BND,
    note='Which neighbours the joiner passes accept, and that the grouping builds the stated shapes: bounded.', tech=TECH + 'data obligations + bounded stand-in', ref='5 C13')
P['C15'] = dict(text='Proof of the exceptional-postcondition obligations: FilterStack.run is one try whose RecursionError handler raises SQLParseError and every pipeline call is inside it; the entry points make no tree-recursive call outside the consumption of run() (split: statements are flat because grouping is never enabled); no shared state is written and nothing is memoised (frame obligations of C20).' + BND,
    note='Assumed: CPython raises RecursionError rather than overflowing the C stack.', tech=TECH + 'structural obligations over the AST and call graph', ref='5 C15')
P['C18'] = dict(text='Proof: Statement.get_type() returns the normalized text of the first child that is neither whitespace nor comment when it is DML/DDL, UNKNOWN when there is none or it is not DML/DDL/CTE, and for WITH the DML keyword that directly follows the first Identifier/IdentifierList child behind WITH (loop invariant over the CTE walk with ghosts computed by the verified search helpers), for every statement (neighbour-search contracts, first-match uniqueness); no DML/DDL/CTE entry of a keyword dictionary is shadowed by an earlier dictionary; a comment between the CTE definitions and the main keyword is folded into the definitions\' group by align_comments whatever whitespace separates them (shape case), so the walk reaches the DML keyword; get_type() on four explicit CTE statements (leading comment, with / without RECURSIVE, definitions as Identifier or IdentifierList); Token.__init__ makes normalized the upper-cased, whitespace-collapsed value; typing tables.' + BND,
    note='WITH statements whose definitions are not one Identifier/IdentifierList node directly followed by the DML keyword, and lexing of the first word in context: bounded.', tech=TECH + 'accessor contract over the heap model', ref='5 C18')
P['C19'] = dict(text='Proof: Lexer.get_tokens scans exactly the text for str, the decoding with the given codec for bytes+encoding, UTF-8 else Latin-1 for bytes without encoding, the stream content for text streams, and rejects anything else with TypeError (five contract cases over the real code); one decode point; (text, encoding) passed unchanged through the entry points; parse = tuple(parsestream); CLI dataflow incl. read-before-open; every formatting flag the parser defines reaches validate_options and format().' + BND,
    note='Trusted: codecs (uninterpreted partial decode), argparse mapping (bounded).', tech=TECH + 'case contracts + dataflow obligations', ref='5 C19')

NA = {
    'C16': 'no contract on a function of /repo can express a bound on the running time of CPython\'s _sre matcher; '
           'deciding exponential ambiguity of a regex is an automata-theoretic analysis and timing pump strings is '
           'testing - both other technique families (DESIGN 7). Only the adjacent fact "every rule has minimum width '
           '>= 1" is proved (under C01).',
}
NOT_YET = 'check not built yet in this session (planned, see DESIGN 5); not claimed until its obligations discharge'


def main():
    ids = [json.loads(l)['id'] for l in open(os.path.join(HERE, 'properties.jsonl'))]
    checks, na = [], []
    for i in ids:
        if i in P and os.path.exists(os.path.join(HERE, 'props', i + '.py')):
            p = P[i]
            checks.append({
                'property_id': i,
                'quick_cmd': './check %s --tier quick' % i,
                'thorough_cmd': './check %s --tier thorough' % i,
                'evidence_file': 'evidence/%s.json' % i,
                'replay_cmd_template': './check %s --replay {path}' % i,
                'engine': 'pyvc',
                'level_claimed': {'category': 'proof', 'text': p['text'], 'design_ref': 'DESIGN.md section ' + p['ref']},
                'level_note': p['note'],
                'technique': p['tech'],
            })
        else:
            na.append({'property_id': i, 'reason': NA.get(i, NOT_YET)})
    m = {
        'version': 1,
        'setup_cmd': './setup.sh',
        'hooks': {'guard': 'SQLPARSE_VERIF', 'enable': 'none needed: contracts are sidecar files under /verif/contracts, '
                  'data is read by importing the real modules from /repo', 'baseline_off_cmd':
                  'cd /repo && /venv/bin/python -m pytest -ra -q -p no:cacheprovider --timeout=900 '
                  '--continue-on-collection-errors', 'source_commits': [], 'add_only': True},
        'engines': [{'name': 'pyvc', 'path': 'pyvc/', 'serves_properties': [c['property_id'] for c in checks],
                     'kind_free_text': 'self-built deductive verifier for a Python subset: ast -> symbolic execution -> '
                     'VCs -> z3/cvc5; sidecar contracts; structural data obligations; bounded stand-ins labelled'}],
        'checks': checks,
        'not_applicable': na,
        'notes': 'Exit codes: 0 held (KNOWN-FINDING lines for entries of known_findings.json), 1 VIOLATION, 3 checker '
                 'fault; undecided obligations print UNDECIDED lines and exit 0 (exit 2 with VERIF_STRICT=1).',
    }
    with open(os.path.join(HERE, 'MANIFEST.json'), 'w') as f:
        json.dump(m, f, indent=1)
    print('MANIFEST.json: %d checks, %d not_applicable' % (len(checks), len(na)))


if __name__ == '__main__':
    main()
