#!/bin/sh
# tools/benign_matrix_some.sh <lanes> <patch files...> : like tools/benign_matrix.sh, for the given patches only
cd /verif
L=$1; shift
OUT=$(mktemp -d /tmp/benignmat.XXXXXX)
lane() {
  f=$(realpath $1); id=$(basename $f .diff)
  D=$(mktemp -d /tmp/bnrun.XXXXXX)
  git -C /repo archive HEAD sqlparse | tar -x -C $D
  if ! (cd $D && git init -q . 2>/dev/null && git apply $f 2>/dev/null); then echo "$id patch-does-not-apply"; rm -rf $D; return; fi
  for p in C01 C02 C03 C04 C05 C06 C07 C08 C09 C10 C11 C12 C13 C14 C15 C17 C18 C19 C20; do
    VERIF_REPO=$D VERIF_EVIDENCE_DIR=$D/evidence VERIF_REPLAY_DIR=$D/replays VERIF_PROOF_ONLY=1 ./check $p > $D/$p.log 2>&1; code=$?
    v=$(grep -c '^VIOLATION' $D/$p.log); u=$(grep -c '^UNDECIDED' $D/$p.log)
    if [ "$code" != "0" ] || [ "$v" != "0" ]; then
      echo "$id $p FALSE-ALARM exit=$code violations=$v"; grep -A1 '^VIOLATION' $D/$p.log | grep 'obligation:' | head -3
    elif [ "$u" != "0" ]; then echo "$id $p undecided=$u"; fi
  done
  echo "$id done"
  rm -rf $D
}
n=0
for f in "$@"; do
  lane $f > $OUT/$(basename $f).out 2>&1 &
  n=$((n+1)); [ $((n % L)) -eq 0 ] && wait
done
wait
cat $OUT/*.out
rm -rf $OUT
