#!/bin/sh
# tools/verify_seeded.sh <dir containing patch.diff demo.py meta.json>
# Confirms independently: patch applies to a clean worktree of /repo HEAD, the pinned suite still passes with it,
# the demo fails with it and passes without it.  Prints one line; exit 0 iff all confirmed.
D="$1"; ID=$(basename "$D")
W=$(mktemp -d /tmp/seedchk.XXXXXX); rmdir "$W"
git -C /repo worktree add -q --detach "$W" HEAD || { echo "$ID worktree-failed"; exit 2; }
cd "$W"
/venv/bin/python demo_unused 2>/dev/null
cp "$D/demo.py" "$W/demo.py"
R_CLEAN=$( (timeout 300 /venv/bin/python demo.py >/dev/null 2>&1; echo $?) )
if ! git apply "$D/patch.diff" 2>/dev/null; then echo "$ID patch-does-not-apply"; cd /; git -C /repo worktree remove --force "$W"; exit 2; fi
SUITE=$(timeout 900 /venv/bin/python -m pytest -q -p no:cacheprovider -x 2>&1 | tail -1)
R_MUT=$( (timeout 300 /venv/bin/python demo.py >/dev/null 2>&1; echo $?) )
cd /; git -C /repo worktree remove --force "$W"; rm -rf "$W"
OK=1
case "$SUITE" in *"461 passed"*) ;; *) OK=0;; esac
case "$SUITE" in *" failed"*|*" error"*) OK=0;; esac
[ "$R_CLEAN" = "0" ] || OK=0
[ "$R_MUT" != "0" ] || OK=0
echo "$ID clean_demo_exit=$R_CLEAN mutant_demo_exit=$R_MUT suite='$SUITE' confirmed=$OK"
[ $OK = 1 ]
