#!/bin/sh
# tools/seeded_matrix_par.sh [lanes] : tools/seeded_matrix.sh over all seeded changes, several lanes in parallel
# (each lane works on its own scratch copies under /tmp); prints the merged result sorted by id
cd /verif
L=${1:-6}
OUT=$(mktemp -d /tmp/matrixpar.XXXXXX)
ls seeded | awk -v L=$L '{print > ("'$OUT'/lane" (NR % L))}'
for f in $OUT/lane*; do
  (MATRIX_OUT=$OUT/logs tools/seeded_matrix.sh $(cat $f) > $f.out 2>&1 &)
done
while [ "$(cat $OUT/lane*.out 2>/dev/null | wc -l)" -lt "$(ls seeded | wc -l)" ]; do sleep 20; done
cat $OUT/lane*.out | sort
rm -rf $OUT
