#!/usr/bin/env python3
"""tools/bounded_survey.py [props...] : run the bounded stand-ins (quick tier) without classification and print the
failure classes (by failure['what'] / finding key) with counts and the smallest witness.  Maintenance tool."""
import sys, os, collections, time
sys.path.insert(0, os.path.dirname(os.path.dirname(os.path.abspath(__file__))))
from pyvc import core, bounded
core.import_repo()
from pyvc import oracles
props = sys.argv[1:] or sorted(n[7:] for n in dir(oracles) if n.startswith('oracle_'))
tier = os.environ.get('VERIF_TIER', 'quick')
for p in props:
    t = time.time()
    r = bounded.run(p, 'oracle_' + p, getattr(oracles, 'cases_' + p)(tier, 0),
                    classify_name='classify_' + p if os.environ.get('CLASSIFY') else None,
                    budget_s=float(os.environ.get('BUDGET', '120')), chunk=getattr(oracles, 'CHUNK_' + p, 200),
                    max_failures=100000)
    by = collections.defaultdict(list)
    for f in r['failures']:
        by[(f.get('finding_key'), f['failure'].get('what'))].append(f)
    print('== %s: %d cases, %.1fs, exhaustive=%s, failing=%d' % (p, r['evaluations'], time.time() - t, r['exhaustive'], r['n_failing_cases']))
    for (k, w), fl in sorted(by.items(), key=lambda kv: -len(kv[1])):
        fl.sort(key=lambda f: len(repr(f['case'])))
        n = sum(f.get('n_cases_in_class', 1) for f in fl)
        print('   [%s] %s: %d   e.g. %r' % (k, w, n, fl[0]['case']))
        if os.environ.get('VERBOSE'):
            for f in fl[:int(os.environ['VERBOSE'])]:
                print('        ', repr(f['case'])[:300], '=>', repr(f['failure'])[:300])
