#!/usr/bin/env python
"""tools/vf.py <qualname> [case] : verify ONE function under ONE sidecar contract case and print every obligation
(development aid; run with /verif/.venv/bin/python from /verif; VERIF_REPO selects the tree)"""
import json
import sys
import time

sys.path.insert(0, '/verif')
from pyvc import core  # noqa: E402
core.import_repo()
from props import common  # noqa: E402
from pyvc.spec import Verifier  # noqa: E402

common.load_contracts()
q = sys.argv[1]
case = sys.argv[2] if len(sys.argv) > 2 and sys.argv[2] != 'None' else None
t0 = time.time()
obls = Verifier('DEV').verify(q, case)
for o in obls:
    print('%-11s %-10s %s' % (o.status, o.backend, o.id))
    if o.status != core.DISCHARGED:
        d = dict(o.detail or {})
        print('    ', json.dumps(d, default=str)[:1800])
print('%d obligations, %.1fs' % (len(obls), time.time() - t0))
