#!/bin/sh
# tools/seeded_matrix.sh [ids...] : for each seeded change, apply it to a SCRATCH copy of /repo (never to /repo), run the
# quick check of its property against that copy (VERIF_REPO), and report.  Evidence/replays go to the scratch dir.
# Output lines: <id> <property> exit=<code> violations=<n> proof=<first failed proof obligation or -> bounded=<yes|no>
cd /verif
[ $# -gt 0 ] && IDS="$*" || IDS=$(ls seeded)
OUT=${MATRIX_OUT:-/tmp/seeded_matrix}
mkdir -p $OUT
for id in $IDS; do
  prop=$(python3 -c "import json;print(json.load(open('seeded/$id/meta.json'))['property'])")
  D=$(mktemp -d /tmp/seedrun.XXXXXX)
  git -C /repo archive HEAD sqlparse | tar -x -C $D
  if ! (cd $D && git init -q . 2>/dev/null && git apply /verif/seeded/$id/patch.diff 2>/dev/null); then echo "$id $prop patch-does-not-apply"; rm -rf $D; continue; fi
  VERIF_REPO=$D VERIF_EVIDENCE_DIR=$D/evidence VERIF_REPLAY_DIR=$D/replays ./check $prop --tier ${TIER:-quick} > $OUT/$id.log 2>&1; code=$?
  v=$(grep -c '^VIOLATION' $OUT/$id.log)
  proof=$(grep -A1 '^VIOLATION' $OUT/$id.log | grep 'obligation:' | grep -v 'bounded:' | head -1 | sed 's/  obligation: //' | cut -c1-110)
  bnd=$(grep -A1 '^VIOLATION' $OUT/$id.log | grep -c 'obligation: bounded:')
  und=$(grep -c '^UNDECIDED' $OUT/$id.log)
  echo "$id $prop exit=$code violations=$v bounded_hits=$bnd undecided=$und proof=${proof:--}"
  rm -rf $D
done
