#!/bin/sh
# tools/seeded_matrix_ids.sh <lanes> <ids...> : tools/seeded_matrix.sh over the given seeded changes, in parallel lanes
cd /verif
L=$1; shift
OUT=$(mktemp -d /tmp/matrixids.XXXXXX)
i=0
for id in "$@"; do echo $id >> $OUT/lane$((i % L)); i=$((i+1)); done
for f in $OUT/lane*; do
  ( MATRIX_OUT=${MATRIX_OUT:-/tmp/seeded_matrix} tools/seeded_matrix.sh $(cat $f) > $f.out 2>&1 ) &
done
wait
cat $OUT/lane*.out | grep -v WARNING | sort
rm -rf $OUT
