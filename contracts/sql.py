"""Sidecar contracts for sqlparse/sql.py (token tree)."""
import z3

from pyvc.spec import contract, REG
from pyvc.symex import SInt, SStr, SBool, STy, Rec, LRef, Opaque, Func, fresh, fresh_str, fresh_bool, OutsideSubset
from pyvc.heap import HeapExec, SCls, subclass_formula

REG.inline_ok |= {'sqlparse.sql.Token.__init__'}


def make_group(ex, st, name='self', cls=None):
    """a well-formed group node (Inv holds locally): children list = one opaque segment whose elements all have
    parent == the node (I1), non-empty (I3); TXT == text of the children == value (I4/I5)"""
    W = ex.W
    zc = fresh(name + '_cls', W.CLS)
    st.assume(subclass_formula(W, zc, W.sql.TokenList))
    txt = fresh(name + '_txt', z3.StringSort())
    g = ex.new_token(st, {'CLS': zc, 'is_group': True, 'ttype': None, 'TXT': SStr(txt), 'value': SStr(txt),
                          'is_whitespace': False, 'is_keyword': False, 'is_newline': False, 'normalized': SStr(txt),
                          'parent': Opaque('some-parent')})
    n = z3.Int(name + '_n')
    sid = ex.new_seg(st, length=n, txt=txt, uni={'parent': g}, name=name + '_children')
    st.assume(n >= 1)
    st.objs[g.oid]['tokens'] = ex.new_list(st, [('seg', sid)])
    return g


def make_cls(ex, st):
    z = z3.Const('grp_cls', ex.W.CLS)
    st.assume(subclass_formula(ex.W, z, ex.W.sql.TokenList))
    return SCls(z)


# --------------------------------------------------------------------------------- TokenList.__init__

class _TokenListInit:
    """call-site form of the constructor contract (used by group_tokens for grp_cls(subtokens))"""

    @staticmethod
    def construct(ex, cls, args, kw, st):
        toks = args[0] if args else kw.get('tokens')
        if not isinstance(toks, LRef):
            raise OutsideSubset('TokenList(%r)' % (toks,))
        out = []
        for s, nonempty in ex.decide(st, ex.truth(toks, st)):
            lst = toks if nonempty else ex.new_list(s, [])
            txt = ex.list_txt(s, lst)
            g = ex.new_token(s, {'CLS': cls.z if isinstance(cls, SCls) else ex.W.cls_const[cls], 'is_group': True,
                                 'ttype': None, 'TXT': SStr(txt), 'value': SStr(txt), 'is_whitespace': False,
                                 'is_keyword': False, 'is_newline': False, 'normalized': SStr(txt), 'parent': None,
                                 'tokens': lst})
            # effect on the children: parent := the new node
            items = []
            for it in s.lists[lst.lid]:
                if it[0] == 'el':
                    if isinstance(it[1], Rec):
                        s.objs[it[1].oid]['parent'] = g
                else:
                    seg = dict(ex.segs(s)[it[1]])
                    seg['uni'] = dict(seg['uni'], parent=g)
                    ex.segs(s)[it[1]] = seg
            out.append((s, g))
        return out


REG['sqlparse.sql.TokenList.__init__'] = _TokenListInit


def make_uninit(ex, st):
    W = ex.W
    zc = fresh('new_cls', W.CLS)
    st.assume(subclass_formula(W, zc, W.sql.TokenList))
    return ex.new_obj(st, 'Token', {'CLS': zc, 'TXT': None})


def make_child_list(ex, st):
    sid = ex.new_seg(st, name='arg')
    return ex.new_list(st, [('seg', sid)])


@contract('sqlparse.sql.TokenList.__init__', case='body')
class tokenlist_init_body:
    """the real constructor establishes exactly what the call-site form assumes: same list object (when non-empty),
    every child re-parented, cached value = text of the children, group flags"""
    exec_class = HeapExec
    params = {'self': make_uninit, 'tokens': make_child_list}
    requires = ['len(tokens) >= 1']
    ensures = ['self.tokens is tokens', "ALL(self.tokens, 'parent', self)", 'self.value == TXT(self.tokens)',
               'self.is_group == True', 'self.ttype is None', 'self.parent is None', 'self.is_whitespace == False',
               'self.is_keyword == False', 'self.normalized == self.value']
    raises = []
    serves = ['C02', 'C03']


# --------------------------------------------------------------------------------- group_tokens

GT_COMMON_ENS = [
    # C02: the text of the node is unchanged (hence the text of every ancestor)
    'TXT(self.tokens) == old(TXT(self.tokens))',
    # bookkeeping the drivers rely on
    'len(self.tokens) == old(len(self.tokens)) - (old(end) - old(start))',
    # C03: Inv re-established for the group and for self
    'result.is_group == True', 'result.parent is self', "ALL(result.tokens, 'parent', result)",
    'result.value == TXT(result.tokens)', 'len(result.tokens) >= 1', "ALL(self.tokens, 'parent', self)",
    'self.tokens[old(start)] is result',
]


@contract('sqlparse.sql.TokenList.group_tokens', case='new group')
class group_tokens_new:
    """non-extend call: the slice [start, end] (non-empty) is replaced by ONE fresh group that owns exactly the
    old slice"""
    exec_class = HeapExec
    params = {'self': make_group, 'grp_cls': make_cls, 'start': 'int', 'end': 'int',
              'include_end': lambda ex, st: True, 'extend': lambda ex, st: False}
    requires = ['0 <= start', 'start <= end', 'end < len(self.tokens)']
    ensures = GT_COMMON_ENS + ['len(result.tokens) == old(end) - old(start) + 1',
                               'TXT(result.tokens) == old(TXT(self.tokens[start:end + 1]))']
    raises = []
    serves = ['C02', 'C03', 'C09']


@contract('sqlparse.sql.TokenList.group_tokens', case='extend flag')
class group_tokens_extend:
    """extend=True: if the first token already is a group of that class, the rest of the slice is appended to it and
    its cached value is refreshed; otherwise as for a new group"""
    exec_class = HeapExec
    params = {'self': make_group, 'grp_cls': make_cls, 'start': 'int', 'end': 'int',
              'include_end': lambda ex, st: True, 'extend': lambda ex, st: True}
    requires = ['0 <= start', 'start <= end', 'end < len(self.tokens)']
    ensures = GT_COMMON_ENS
    raises = []
    serves = ['C02', 'C03', 'C09']


# --------------------------------------------------------------------------------- navigation helpers

def make_pred(ex, st):
    """an arbitrary pure predicate on tokens (for _token_matching): its value on the element at index i of the
    scanned list is MATCH(funcs, list, i)"""
    from pyvc.heap import MATCHF, snapshot_id, pred_id
    me = st.env['self']
    pid = 1

    def call(ex_, f, args, kw, s):
        tok = args[0]
        o = s.objs[tok.oid]
        if '__pos__' not in o:
            raise OutsideSubset('predicate on a non-positional token')
        snap = z3.IntVal(snapshot_id(s, me))
        return [(s, SBool(MATCHF(z3.IntVal(pid), snap, o['__pos__'])))]
    return Opaque('P', {'call': call, 'pid': pid})


TM_LOOP_FWD = {'inv': ['NOMATCH(funcs, self, start, start + IT0.K)'],
               'lemmas': ['NOMATCH(funcs, self, start, start + IT0.K + 1) == '
                          '(NOMATCH(funcs, self, start, start + IT0.K) and not MATCH(funcs, self, start + IT0.K))']}


@contract('sqlparse.sql.TokenList._token_matching', case='forward, end=None')
class token_matching_fwd:
    """forward scan from `start`: returns (None, None) if no token at an index >= start satisfies the predicate,
    otherwise (i, tokens[i]) for the FIRST such index; never raises"""
    exec_class = HeapExec
    params = {'self': make_group, 'funcs': make_pred, 'start': 'int', 'end': lambda ex, st: None,
              'reverse': lambda ex, st: False}
    requires = ['start >= 0']
    loops = {'0': TM_LOOP_FWD}
    ensures = [
        '(result[1] is None and NOMATCH(funcs, self, start, len(self.tokens))) if result[0] is None else '
        '(start <= result[0] and result[0] < len(self.tokens) and MATCH(funcs, self, result[0]) '
        'and NOMATCH(funcs, self, start, result[0]) and result[1] is self.tokens[result[0]])',
        'TXT(self.tokens) == old(TXT(self.tokens))']
    raises = []
    serves = ['C03', 'C07', 'C13']


@contract('sqlparse.sql.TokenList._token_matching', case='reverse')
class token_matching_rev:
    """reverse scan: candidates are the indices start-2, start-3, ..., 0 (token_prev passes idx+1, i.e. the scan
    starts at idx-1); returns the LAST index below start-1 whose token satisfies the predicate"""
    exec_class = HeapExec
    params = {'self': make_group, 'funcs': make_pred, 'start': 'int', 'end': lambda ex, st: None,
              'reverse': lambda ex, st: True}
    requires = ['start >= 0', 'start - 2 < len(self.tokens)']
    loops = {'0': {'inv': ['NOMATCH(funcs, self, start - 1 - IT0.K, start - 1)'],
                   'lemmas': ['NOMATCH(funcs, self, start - 2 - IT0.K, start - 1) == '
                              '(NOMATCH(funcs, self, start - 1 - IT0.K, start - 1) and '
                              'not MATCH(funcs, self, start - 2 - IT0.K))']}}
    ensures = [
        '(result[1] is None and NOMATCH(funcs, self, 0, start - 1)) if result[0] is None else '
        '(0 <= result[0] and result[0] <= start - 2 and MATCH(funcs, self, result[0]) '
        'and NOMATCH(funcs, self, result[0] + 1, start - 1) and result[1] is self.tokens[result[0]])']
    raises = []
    serves = ['C03', 'C07']
