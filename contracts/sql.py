"""Sidecar contracts for sqlparse/sql.py (token tree)."""
import ast

import z3

from pyvc.spec import contract, REG
from pyvc.symex import SInt, SStr, SBool, STy, Rec, LRef, Opaque, Func, fresh, fresh_str, fresh_bool, OutsideSubset, PyExc
from pyvc.heap import HeapExec, SCls, subclass_formula

REG.inline_ok |= {'sqlparse.sql.Token.__init__'}


def make_group(ex, st, name='self', cls=None):
    """a well-formed group node (Inv holds locally): children list = one opaque segment whose elements all have
    parent == the node (I1), non-empty (I3); TXT == text of the children == value (I4/I5)"""
    W = ex.W
    zc = fresh(name + '_cls', W.CLS)
    st.assume(subclass_formula(W, zc, W.sql.TokenList))
    txt = fresh(name + '_txt', z3.StringSort())
    g = ex.new_token(st, {'CLS': zc, 'is_group': True, 'ttype': None, 'TXT': SStr(txt), 'value': SStr(txt),
                          'is_whitespace': False, 'is_keyword': False, 'is_newline': False, 'normalized': SStr(txt),
                          'parent': Opaque('some-parent')})
    n = z3.Int(name + '_n')
    sid = ex.new_seg(st, length=n, txt=txt, uni={'parent': g}, name=name + '_children')
    st.assume(n >= 1)
    st.objs[g.oid]['tokens'] = ex.new_list(st, [('seg', sid)])
    return g


def make_cls(ex, st):
    z = z3.Const('grp_cls', ex.W.CLS)
    st.assume(subclass_formula(ex.W, z, ex.W.sql.TokenList))
    return SCls(z)


# --------------------------------------------------------------------------------- TokenList.__init__

class _TokenListInit:
    """call-site form of the constructor contract (used by group_tokens for grp_cls(subtokens))"""

    @staticmethod
    def construct(ex, cls, args, kw, st):
        toks = args[0] if args else kw.get('tokens')
        if not isinstance(toks, LRef):
            raise OutsideSubset('TokenList(%r)' % (toks,))
        out = []
        for s, nonempty in ex.decide(st, ex.truth(toks, st)):
            lst = toks if nonempty else ex.new_list(s, [])
            txt = ex.list_txt(s, lst)
            g = ex.new_token(s, {'CLS': cls.z if isinstance(cls, SCls) else ex.W.cls_const[cls], 'is_group': True,
                                 'ttype': None, 'TXT': SStr(txt), 'value': SStr(txt), 'is_whitespace': False,
                                 'is_keyword': False, 'is_newline': False, 'normalized': SStr(txt), 'parent': None,
                                 'tokens': lst})
            # effect on the children: parent := the new node
            items = []
            for it in s.lists[lst.lid]:
                if it[0] == 'el':
                    if isinstance(it[1], Rec):
                        s.objs[it[1].oid]['parent'] = g
                else:
                    seg = dict(ex.segs(s)[it[1]])
                    seg['uni'] = dict(seg['uni'], parent=g)
                    ex.segs(s)[it[1]] = seg
            out.append((s, g))
        return out


REG['sqlparse.sql.TokenList.__init__'] = _TokenListInit


def make_uninit(ex, st):
    W = ex.W
    zc = fresh('new_cls', W.CLS)
    st.assume(subclass_formula(W, zc, W.sql.TokenList))
    return ex.new_obj(st, 'Token', {'CLS': zc, 'TXT': None})


def make_child_list(ex, st):
    sid = ex.new_seg(st, name='arg')
    return ex.new_list(st, [('seg', sid)])


@contract('sqlparse.sql.TokenList.__init__', case='body')
class tokenlist_init_body:
    """the real constructor establishes exactly what the call-site form assumes: same list object (when non-empty),
    every child re-parented, cached value = text of the children, group flags"""
    exec_class = HeapExec
    params = {'self': make_uninit, 'tokens': make_child_list}
    requires = ['len(tokens) >= 1']
    ensures = ['self.tokens is tokens', "ALL(self.tokens, 'parent', self)", 'self.value == TXT(self.tokens)',
               'self.is_group == True', 'self.ttype is None', 'self.parent is None', 'self.is_whitespace == False',
               'self.is_keyword == False', 'self.normalized == self.value']
    raises = []
    serves = ['C02', 'C03']


# --------------------------------------------------------------------------------- group_tokens

GT_COMMON_ENS = [
    # C02: the text of the node is unchanged (hence the text of every ancestor)
    'TXT(self.tokens) == old(TXT(self.tokens))',
    # bookkeeping the drivers rely on
    'len(self.tokens) == old(len(self.tokens)) - (old(end) - old(start))',
    # C03: Inv re-established for the group and for self
    'result.is_group == True', 'result.parent is self', "ALL(result.tokens, 'parent', result)",
    'result.value == TXT(result.tokens)', 'len(result.tokens) >= 1', "ALL(self.tokens, 'parent', self)",
    'self.tokens[old(start)] is result',
]


@contract('sqlparse.sql.TokenList.group_tokens', case='new group')
class group_tokens_new:
    """non-extend call: the slice [start, end] (non-empty) is replaced by ONE fresh group that owns exactly the
    old slice"""
    exec_class = HeapExec
    params = {'self': make_group, 'grp_cls': make_cls, 'start': 'int', 'end': 'int',
              'include_end': lambda ex, st: True, 'extend': lambda ex, st: False}
    requires = ['0 <= start', 'start <= end', 'end < len(self.tokens)']
    ensures = GT_COMMON_ENS + ['len(result.tokens) == old(end) - old(start) + 1',
                               'TXT(result.tokens) == old(TXT(self.tokens[start:end + 1]))']
    raises = []
    serves = ['C02', 'C03', 'C09']


@contract('sqlparse.sql.TokenList.group_tokens', case='extend flag')
class group_tokens_extend:
    """extend=True: if the first token already is a group of that class, the rest of the slice is appended to it and
    its cached value is refreshed; otherwise as for a new group"""
    exec_class = HeapExec
    params = {'self': make_group, 'grp_cls': make_cls, 'start': 'int', 'end': 'int',
              'include_end': lambda ex, st: True, 'extend': lambda ex, st: True}
    requires = ['0 <= start', 'start <= end', 'end < len(self.tokens)']
    ensures = GT_COMMON_ENS
    raises = []
    serves = ['C02', 'C03', 'C09']


# --------------------------------------------------------------------------------- navigation helpers

def make_pred(ex, st):
    """an arbitrary pure predicate on tokens (for _token_matching): its value on the element at index i of the
    scanned list is MATCH(funcs, list, i)"""
    from pyvc.heap import MATCHF, snapshot_id, pred_id
    me = st.env['self']
    pid = 1

    def call(ex_, f, args, kw, s):
        tok = args[0]
        o = s.objs[tok.oid]
        if '__pos__' not in o:
            raise OutsideSubset('predicate on a non-positional token')
        snap = z3.IntVal(snapshot_id(s, me))
        return [(s, SBool(MATCHF(z3.IntVal(pid), snap, o['__pos__'])))]
    return Opaque('P', {'call': call, 'pid': pid})


TM_LOOP_FWD = {'inv': ['NOMATCH(funcs, self, start, start + IT0.K)'],
               'lemmas': ['NOMATCH(funcs, self, start, start + IT0.K + 1) == '
                          '(NOMATCH(funcs, self, start, start + IT0.K) and not MATCH(funcs, self, start + IT0.K))']}


@contract('sqlparse.sql.TokenList._token_matching', case='forward, end=None')
class token_matching_fwd:
    """forward scan from `start`: returns (None, None) if no token at an index >= start satisfies the predicate,
    otherwise (i, tokens[i]) for the FIRST such index; never raises"""
    exec_class = HeapExec
    params = {'self': make_group, 'funcs': make_pred, 'start': 'int', 'end': lambda ex, st: None,
              'reverse': lambda ex, st: False}
    requires = ['start >= 0']
    loops = {'0': TM_LOOP_FWD}
    ensures = [
        '(result[1] is None and NOMATCH(funcs, self, start, len(self.tokens))) if result[0] is None else '
        '(start <= result[0] and result[0] < len(self.tokens) and MATCH(funcs, self, result[0]) '
        'and NOMATCH(funcs, self, start, result[0]) and result[1] is self.tokens[result[0]])',
        'TXT(self.tokens) == old(TXT(self.tokens))']
    raises = []
    serves = ['C03', 'C07', 'C13']


@contract('sqlparse.sql.TokenList._token_matching', case='reverse')
class token_matching_rev:
    """reverse scan: candidates are the indices start-2, start-3, ..., 0 (token_prev passes idx+1, i.e. the scan
    starts at idx-1); returns the LAST index below start-1 whose token satisfies the predicate"""
    exec_class = HeapExec
    params = {'self': make_group, 'funcs': make_pred, 'start': 'int', 'end': lambda ex, st: None,
              'reverse': lambda ex, st: True}
    requires = ['start >= 0', 'start - 2 < len(self.tokens)']
    loops = {'0': {'inv': ['NOMATCH(funcs, self, start - 1 - IT0.K, start - 1)'],
                   'lemmas': ['NOMATCH(funcs, self, start - 2 - IT0.K, start - 1) == '
                              '(NOMATCH(funcs, self, start - 1 - IT0.K, start - 1) and '
                              'not MATCH(funcs, self, start - 2 - IT0.K))']}}
    ensures = [
        '(result[1] is None and NOMATCH(funcs, self, 0, start - 1)) if result[0] is None else '
        '(0 <= result[0] and result[0] <= start - 2 and MATCH(funcs, self, result[0]) '
        'and NOMATCH(funcs, self, result[0] + 1, start - 1) and result[1] is self.tokens[result[0]])']
    raises = []
    serves = ['C03', 'C07']


# --------------------------------------------------------------------------------- call-site form of _token_matching

REG.inline_ok |= {'sqlparse.utils.imt', 'sqlparse.sql.Token.match'}


def _transfer_allws(ex, st, lst, lo, hi, pred):
    """NOMATCH(pred, list, lo, hi) is known.  If every element that does not satisfy `pred` is a whitespace token (decided
    by running the real closure on an arbitrary element), then each pristine segment of list[lo:hi] consists of
    whitespace tokens: recorded in base coordinates (ALLWSF), so that the fact survives modifications of the list."""
    if not getattr(ex.contract, 'uses_allws', False):
        return          # only contracts whose invariants speak about ALLWS need the transfer
    from pyvc.heap import _NeedCase
    try:
        ka = ex.split_at(st, lst, lo)
        kb = ex.split_at(st, lst, hi)
        ka = ex.split_at(st, lst, lo)
    except (OutsideSubset, _NeedCase):
        return
    for it in st.lists[lst.lid][ka:kb]:
        if it[0] != 'seg':
            continue
        sg = ex.segs(st)[it[1]]
        if 'ttype' in sg['uni'] or 'is_whitespace' in sg['uni'] or st.ghost.get('__taint__'):
            continue
        if not smt.feasible(list(st.pc) + [sg['len'] >= 1]):
            continue
        probe = st.fork()
        probe.assume(sg['len'] >= 1)
        marks = len(ex.goals)
        try:
            e = ex.materialise(probe, it[1], tag='probe', off=fresh('probe_off', z3.IntSort()))
            ok = True
            for s3, v3 in ex.call(pred, [e], {}, probe):
                b = ex.truth(v3, s3)
                zb = z3.BoolVal(b) if isinstance(b, bool) else b
                ws = ex.truth(s3.objs[e.oid]['is_whitespace'], s3)
                zw = z3.BoolVal(ws) if isinstance(ws, bool) else ws
                if not smt.entails(list(s3.pc) + [z3.Not(zb)], zw):
                    ok = False
        except (OutsideSubset, PyExc):
            ok = False
        del ex.goals[marks:]
        if ok:
            st.assume(ex.allws_term(st, sg['base'], sg['lo'], sg['hi']))


def _link_known_predicates(ex, st, me, lst, pos, tok, current):
    """purity links for the OTHER predicate closures that interval summaries of this list already speak about: the value
    of MATCH(p, list, pos) is what the closure p returns on the element now materialised at pos"""
    from pyvc.heap import MATCHF, snapshot_id, pred_id, _PIDS
    reg = st.ghost.get('__mfacts__') or {'M': [], 'N': []}
    snap = snapshot_id(st, lst)
    cur = pred_id(current)
    pids = {e[0] for e in reg['M'] if e[1] == snap} | {e[0] for e in reg['N'] if e[1] == snap}
    for pid in sorted(pids):
        if pid == cur:
            continue
        f = [v[1] for v in _PIDS.values() if v[0] == pid]
        if not f or not isinstance(f[0], Func):
            continue
        marks = len(ex.goals)
        try:
            probe = st.fork()
            n0 = len(probe.pc)
            rr = ex.call(f[0], [tok], {}, probe)
            # the closure may branch: its value is the disjunction over its (exhaustive) paths of path-condition & result
            parts = []
            for s_i, v_i in rr:
                b = ex.truth(v_i, s_i)
                zb = z3.BoolVal(b) if isinstance(b, bool) else b
                extra = [c for c in s_i.pc[n0:]]
                parts.append(z3.And(*(extra + [zb])) if extra else zb)
            if parts:
                val = z3.Or(*parts) if len(parts) > 1 else parts[0]
                # (through the spec function, so that the interval laws are instantiated at this position)
                m = ex.spec_fn('MATCH', [f[0], me, SInt(pos)], {}, st)[0][1]
                st.assume(m.z == val)
        except (OutsideSubset, PyExc):
            pass
        del ex.goals[marks:]


def _closure_value(ex, st, f, tok):
    """the boolean value of the pure predicate closure f on the token record tok, as one formula: the disjunction over
    the closure's (exhaustive) paths of path-condition & result; None if the closure leaves the modelled subset"""
    marks = len(ex.goals)
    try:
        probe = st.fork()
        n0 = len(probe.pc)
        parts = []
        for s_i, v_i in ex.call(f, [tok], {}, probe):
            b = ex.truth(v_i, s_i)
            zb = z3.BoolVal(b) if isinstance(b, bool) else b
            extra = list(s_i.pc[n0:])
            parts.append(z3.And(*(extra + [zb])) if extra else zb)
        if not parts:
            return None
        return z3.Or(*parts) if len(parts) > 1 else parts[0]
    except (OutsideSubset, PyExc) as e:
        import os
        if os.environ.get('PYVC_DEBUG'):
            print('closure_value:', type(e).__name__, e)
        return None
    finally:
        del ex.goals[marks:]


class _TokenMatchingCallsite:
    """modular use of the two verified cases above: assert the precondition, create the result, assume exactly the
    `ensures` strings of the verified case, and link MATCH to the concrete predicate passed (a pure closure)"""

    @staticmethod
    def model(ex, self_val, args, kw, st):
        from pyvc.models import bind_params, _const_default, repo_fn_node
        from pyvc.heap import MATCHF, snapshot_id, pred_id
        q = 'sqlparse.sql.TokenList._token_matching'
        node = repo_fn_node(q)
        env = bind_params(ex, node, self_val, args, kw, st, lambda d: _const_default(ex, d, None))
        start, end, reverse, funcs = env['start'], env['end'], env['reverse'], env['funcs']
        if start is None:
            return [(st, None)]
        if end is not None or not isinstance(reverse, bool):
            raise OutsideSubset('_token_matching call with an explicit end / symbolic direction')
        c = token_matching_rev if reverse else token_matching_fwd
        pre = st.fork()
        pre.env = dict(env)
        for j, r in enumerate(c.requires):
            ex.goal('%s/call:TokenList._token_matching.pre#%d' % (ex.fn, j), st, ex.spec(r, pre), {'requires': r})
        me = env['self']
        lst = ex.getattr(me, 'tokens', st)
        n = ex.zlen(st, lst)
        zs = ex.z_int(start)
        # The facts below are exactly the `ensures` of the verified cases (forward: token_matching_fwd, reverse:
        # token_matching_rev), built directly instead of through the spec evaluator (same formulas, far fewer queries).
        out = []
        fs0 = funcs if isinstance(funcs, (tuple, list)) else (funcs,)
        if isinstance(funcs, LRef) and all(it[0] == 'el' for it in st.lists[funcs.lid]):
            fs0 = tuple(it[1] for it in st.lists[funcs.lid])
        single = fs0[0] if len(fs0) == 1 and not isinstance(fs0[0], Opaque) else None
        if single is not None:
            # (i) a predicate that does not look at the token at all (e.g. skip_ws=False, skip_cm=False): MATCH is that
            #     constant for every position
            try:
                marks = len(ex.goals)
                rr = ex.call(single, [Opaque('any-token')], {}, st.fork())
                if len(rr) == 1 and rr[0][1] is True:
                    n0 = n
                    if reverse:
                        cand, ok = zs - 2, z3.And(zs - 2 >= 0, zs - 2 < n0)
                    else:
                        cand, ok = zs, z3.And(zs >= 0, zs < n0)
                    res = []
                    for s_c, found in ex.decide(st, ok):
                        if not found:
                            res.append((s_c, (None, None)))
                        else:
                            for s_d, tok in ex.elem_at(s_c, lst, z3.simplify(cand)):
                                res.append((s_d, (SInt(z3.simplify(cand)), tok)))
                    return res
            except (OutsideSubset, PyExc):
                del ex.goals[marks:]
            # (ii) for elements that are already materialised, MATCH at their position is the closure's value on them
            cum = z3.IntVal(0)
            for it in list(st.lists[lst.lid]):
                if it[0] == 'el' and isinstance(it[1], Rec):
                    val = _closure_value(ex, st, single, it[1])
                    if val is not None:
                        m = ex.spec_fn('MATCH', [funcs, me, SInt(z3.simplify(cum))], {}, st)[0][1]
                        st.assume(m.z == val)
                cum = cum + ex.item_len(st, it)
        s_none = st.fork()
        if reverse:
            nm = ex.spec_fn('NOMATCH', [funcs, me, 0, SInt(zs - 1)], {}, s_none)[0][1]
        else:
            nm = ex.spec_fn('NOMATCH', [funcs, me, start, SInt(n)], {}, s_none)[0][1]
        s_none.assume(nm.z)
        if smt.feasible(s_none.pc):
            out.append((s_none, (None, None)))
        r0 = fresh('tm_idx', z3.IntSort())
        if reverse:
            st.assume(z3.And(r0 >= 0, r0 <= zs - 2, r0 < n))
        else:
            st.assume(z3.And(r0 >= zs, r0 >= 0, r0 < n))
        if not smt.feasible(st.pc):
            return out
        for s2, tok in ex.elem_at(st, lst, r0):
            m = ex.spec_fn('MATCH', [funcs, me, SInt(r0)], {}, s2)[0][1]
            s2.assume(m.z)
            if reverse:
                nm2 = ex.spec_fn('NOMATCH', [funcs, me, SInt(r0 + 1), SInt(zs - 1)], {}, s2)[0][1]
            else:
                nm2 = ex.spec_fn('NOMATCH', [funcs, me, start, SInt(r0)], {}, s2)[0][1]
            s2.assume(nm2.z)
            if not reverse and single is not None:
                _transfer_allws(ex, s2, lst, zs, r0, single)
            if getattr(getattr(ex, 'top_contract', None), 'link_all_predicates', False):
                _link_known_predicates(ex, s2, me, lst, r0, tok, funcs)
            res = (SInt(r0), tok)
            fs = funcs if isinstance(funcs, (tuple, list)) else (funcs,)
            if isinstance(funcs, LRef) and all(it[0] == 'el' for it in s2.lists[funcs.lid]):
                fs = tuple(it[1] for it in s2.lists[funcs.lid])
            if len(fs) == 1 and not isinstance(fs[0], Opaque):
                # purity link: for this concrete closure MATCH(funcs, list, r0) is the value it returns on the token
                try:
                    marks = len(ex.goals)
                    probe = s2.fork()
                    linked = []
                    for s3, v3 in ex.call(fs[0], [tok], {}, probe):
                        b = ex.truth(v3, s3)
                        s3.assume(z3.BoolVal(b) if isinstance(b, bool) else b)
                        if smt.feasible(s3.pc):
                            linked.append((s3, res))
                    out.extend(linked)
                except OutsideSubset:
                    # the predicate uses something outside the modelled subset (e.g. regular expressions): keep it
                    # abstract - only MATCH/NOMATCH of the verified contract are known about the result
                    del ex.goals[marks:]
                    if smt.feasible(s2.pc):
                        out.append((s2, res))
            elif smt.feasible(s2.pc):
                out.append((s2, res))
        return out


from pyvc import smt  # noqa: E402
REG['sqlparse.sql.TokenList._token_matching'] = _TokenMatchingCallsite


def skipped_spec(tok, skip_ws='skip_ws', skip_cm='skip_cm'):
    return ('((%s and %s.is_whitespace) or (%s and (%s.ttype in T.Comment or isinstance(%s, Comment))))'
            % (skip_ws, tok, skip_cm, tok, tok))


@contract('sqlparse.sql.TokenList.token_next', case='forward')
class token_next_fwd:
    """token_next(idx): (None, None), or (i, tokens[i]) with i > idx where tokens[i] is not skipped
    (whitespace if skip_ws, comments if skip_cm).  (That every index strictly between is skipped is the NOMATCH part
    of the _token_matching contract under the same predicate.)"""
    exec_class = HeapExec
    params = {'self': make_group, 'idx': 'int', 'skip_ws': 'bool', 'skip_cm': 'bool',
              '_reverse': lambda ex, st: False}
    requires = ['idx >= -1']
    ensures = ['(result[1] is None) if result[0] is None else '
               '(result[0] > old(idx) and result[0] < len(self.tokens) and result[1] is self.tokens[result[0]] '
               'and not ' + skipped_spec('result[1]') + ')']
    raises = []
    serves = ['C03', 'C07', 'C11']


@contract('sqlparse.sql.TokenList.token_next', case='reverse (token_prev)')
class token_next_rev:
    exec_class = HeapExec
    params = {'self': make_group, 'idx': 'int', 'skip_ws': 'bool', 'skip_cm': 'bool',
              '_reverse': lambda ex, st: True}
    requires = ['idx >= 0', 'idx <= len(self.tokens)']
    ensures = ['(result[1] is None) if result[0] is None else '
               '(result[0] < old(idx) and result[0] >= 0 and result[1] is self.tokens[result[0]] '
               'and not ' + skipped_spec('result[1]') + ')']
    raises = []
    serves = ['C03', 'C07', 'C11']


@contract('sqlparse.sql.TokenList.token_index')
class token_index_c:
    """token_index(token): for a direct child (I1/I2: it occurs exactly once) returns its index"""
    exec_class = HeapExec
    params = {'self': make_group, 'token': lambda ex, st: _pick_child(ex, st), 'start': lambda ex, st: 0}
    requires = []
    ensures = ['0 <= result', 'result < len(self.tokens)', 'self.tokens[result] is token']
    raises = []
    serves = ['C03', 'C07']


def _pick_child(ex, st):
    me = st.env['self']
    lst = ex.getattr(me, 'tokens', st)
    k = z3.Int('child_pos')
    st.assume(z3.And(k >= 0, k < ex.zlen(st, lst)))
    r = ex.elem_at(st, lst, k)
    assert len(r) == 1
    return r[0][1]


# thin wrappers around _token_matching: executed in place at call sites (their bodies are part of the caller's
# verified text); _token_matching itself is always used through its contract
REG.inline_ok |= {'sqlparse.sql.TokenList.token_next', 'sqlparse.sql.TokenList.token_prev',
                  'sqlparse.sql.TokenList.token_first', 'sqlparse.sql.TokenList.token_next_by',
                  'sqlparse.sql.TokenList.token_matching', 'sqlparse.sql.TokenList.token_not_matching',
                  'sqlparse.sql.TokenList._groupable_tokens'}


def _token_index_result(ex, st, env):
    me, tok = env['self'], env['token']
    lst = ex.getattr(me, 'tokens', st)
    r = ex.list_method_ext(lst, 'index', [tok], {}, st)
    return r


token_index_c.make_result = staticmethod(_token_index_result)


# --------------------------------------------------------------------------------- Token.__init__ (leaf invariant)

@contract('sqlparse.sql.Token.__init__', case='body')
class token_init_body:
    """leaf part of Inv: flags follow the type; `normalized` is the upper-cased value with inner whitespace collapsed
    for keywords (what get_type() and every M_CLOSE comparison rely on), the value itself otherwise"""
    exec_class = HeapExec
    params = {'self': lambda ex, st: ex.new_obj(st, 'Token', {'CLS': ex.W.cls_const[ex.W.sql.Token], 'TXT': None}),
              'ttype': 'tt', 'value': 'str'}
    requires = ['ttype is not None']
    ensures = ['self.value == value', 'self.ttype == ttype', 'self.parent is None', 'self.is_group == False',
               'self.is_keyword == (ttype in T.Keyword)', 'self.is_whitespace == (ttype in T.Whitespace)',
               'self.is_newline == (ttype in T.Newline)',
               "self.normalized == (' '.join(value.upper().split()) if ttype in T.Keyword else value)"]
    raises = []
    serves = ['C03', 'C11', 'C18']


# --------------------------------------------------------------------------------- Statement.get_type (C18)

def make_statement(ex, st):
    g = make_group(ex, st, 'self')
    st.assume(st.objs[g.oid]['CLS'] == ex.W.cls_const[ex.W.sql.Statement])
    return g


def make_statement_ax(ex, st):
    g = make_statement(ex, st)
    for it in st.lists[st.objs[g.oid]['tokens'].lid]:
        if it[0] == 'seg':
            ex.segs(st)[it[1]]['uni']['__class_axioms__'] = True
    return g


def _cte_bind(ex, head):
    """ghosts of the CTE walk, computed at every loop head from the (unmodified) list with the verified search helpers:
    J = (index, node) of the first Identifier / IdentifierList child behind the WITH keyword, N1 = the next child
    behind J that is not whitespace"""
    out = []
    old_spec, ex._in_spec = getattr(ex, '_in_spec', False), True
    try:
        for s1, j in ex.eval(ast.parse('self.token_next_by(i=(Identifier, IdentifierList), idx=entry(tidx))', mode='eval').body, head):
            s1.ghost['J'] = j
            if j[0] is None:
                s1.ghost['N1'] = (None, None)
                out.append(s1)
                continue
            for s2, n1 in ex.eval(ast.parse('self.token_next(J[0])', mode='eval').body, s1):
                s2.ghost['N1'] = n1
                out.append(s2)
    finally:
        ex._in_spec = old_spec
    return [s for s in out if smt.feasible(s.pc)]


@contract('sqlparse.sql.Statement.get_type')
class get_type_c:
    """get_type() looks only at the first child that is neither whitespace nor a comment (F): DML/DDL -> its
    normalized text; anything else but WITH (or nothing) -> UNKNOWN; WITH -> if the first Identifier / IdentifierList
    child behind it (the CTE definitions, I1) is directly followed by a DML keyword (N1), that keyword's normalized
    text.  It raises nothing."""
    exec_class = HeapExec
    params = {'self': make_statement_ax}
    requires = []
    link_all_predicates = True
    loops = {'0': {'bind': _cte_bind, 'entry_bind': _cte_bind,
                   'inv': ['tidx is None or (0 <= tidx and tidx < len(self.tokens))',
                           # as long as the walk has not reached the CTE definitions it is still in front of them; once
                           # it reaches them it returns the DML keyword that follows (if one follows)
                           'True if (J[1] is None or N1[1] is None or N1[1].ttype != T.Keyword.DML) else '
                           '(tidx is not None and tidx < J[0])']}}
    post_bind = {'F': 'self.token_first(skip_cm=True)',
                 'I1': 'self.token_next_by(i=(Identifier, IdentifierList), idx=self.token_index(F)) '
                       'if (F is not None and F.ttype == T.Keyword.CTE) else (None, None)',
                 'N1': 'self.token_next(I1[0]) if I1[0] is not None else (None, None)'}
    ensures = [
        "result == 'UNKNOWN' if F is None else True",
        "result == F.normalized if (F is not None and F.ttype in (T.Keyword.DML, T.Keyword.DDL)) else True",
        "result == 'UNKNOWN' if (F is not None and F.ttype not in (T.Keyword.DML, T.Keyword.DDL, T.Keyword.CTE)) "
        "else True",
        "result == N1[1].normalized if (F is not None and F.ttype == T.Keyword.CTE and I1[1] is not None "
        "and N1[1] is not None and N1[1].ttype == T.Keyword.DML) else True",
    ]
    raises = []
    serves = ['C18', 'C07']


def make_cte_statement_shape(recursive, idlist):
    """Statement  [ws comment ws] WITH ws [RECURSIVE ws] <Identifier | IdentifierList> ws <DML keyword> ws rest"""
    def mk(ex, st):
        W = ex.W
        T, sql = W.T, W.sql
        cm = _mk_leaf(ex, st, None, 'lead_comment', (T.Comment.Single, T.Comment.Multiline))
        wth = _mk_leaf(ex, st, None, 'kw_with', (T.Keyword.CTE,), normalized='WITH')
        dml = _mk_leaf(ex, st, None, 'kw_dml', (T.Keyword.DML,))
        rest = _mk_leaf(ex, st, None, 'rest', (T.Name, T.Wildcard))
        name = _mk_leaf(ex, st, None, 'cte_name', (T.Name,), name_leaf=True)
        defs = (lambda g: _mk_node(ex, st, sql.IdentifierList if idlist else sql.Identifier, 'cte_defs', [name], g))
        items = [_ws1(ex, st, 'w0'), cm, _ws1(ex, st, 'w1'), wth, _ws1(ex, st, 'w2')]
        if recursive:
            items += [_mk_leaf(ex, st, None, 'kw_recursive', (T.Keyword,), normalized='RECURSIVE'), _ws1(ex, st, 'w3')]
        items += [defs, _ws1(ex, st, 'w4'), dml, _ws1(ex, st, 'w5'), rest]
        st.ghost['DML'] = dml
        return _mk_node(ex, st, sql.Statement, 'self', items)
    return mk


GET_TYPE_SHAPE_CASES = []
for _rec in (False, True):
    for _il in (False, True):
        _case = 'shape: comment WITH %s%s DML' % ('RECURSIVE ' if _rec else '', 'IdentifierList' if _il else 'Identifier')
        _ns = {'__doc__': 'C18 "a statement that begins with WITH has the type of the DML keyword that follows the CTE definitions, '
                          'leading whitespace and comments ignored": get_type() on an explicit statement, case: ' + _case,
               'exec_class': HeapExec, 'params': {'self': make_cte_statement_shape(_rec, _il)}, 'requires': [],
               'ensures': ['result == DML.normalized'], 'raises': [], 'shape_case': True, 'serves': ['C18']}
        REG.add('sqlparse.sql.Statement.get_type', _case, type('get_type_shape', (), _ns))
        GET_TYPE_SHAPE_CASES.append(('sqlparse.sql.Statement.get_type', _case))


# --------------------------------------------------------------------------------- utils.remove_quotes (C12)

@contract('sqlparse.utils.remove_quotes')
class remove_quotes_c:
    """removes exactly one surrounding pair of identical quote characters (", ', `), nothing else; None stays None.
    Precondition for a str: non-empty (token values are never empty: C01)."""
    params = {'val': 'str'}
    requires = ['len(val) >= 1']
    ensures = ["result == (old(val)[1:len(old(val)) - 1] if ((old(val)[0] == '\"' or old(val)[0] == \"'\" "
               "or old(val)[0] == '`') and old(val)[0] == old(val)[len(old(val)) - 1]) else old(val))"]
    raises = []
    serves = ['C12', 'C07']


def _rq_result(ex, st, env):
    v = env['val']
    if v is None:
        return [(st, None)]
    # a function of the argument: two calls on the same value give the same result
    fn = z3.Function('py_remove_quotes', z3.StringSort(), z3.StringSort())
    return [(st, SStr(fn(ex.z_str(v))))]


remove_quotes_c.make_result = staticmethod(_rq_result)


@contract('sqlparse.utils.remove_quotes', case='None')
class remove_quotes_none:
    params = {'val': 'none'}
    requires = []
    ensures = ['result is None']
    raises = []
    serves = ['C12']


# --------------------------------------------------------------------------------- call-site form of group_tokens

class _GroupTokensCallsite:
    """modular use of the verified group_tokens cases: assert the precondition 0 <= start <= end < len, then perform the
    abstract effect that the `ensures` of the verified cases pin down: the list becomes
    old[:start] ++ [grp] ++ old[end+1:], grp owns exactly old[start..end] (or, in the extend case, old[start] is
    extended by old[start+1..end]); text, parents and cached value as proved."""

    @staticmethod
    def model(ex, self_val, args, kw, st):
        from pyvc.models import bind_params, _const_default, repo_fn_node
        q = 'sqlparse.sql.TokenList.group_tokens'
        env = bind_params(ex, repo_fn_node(q), self_val, args, kw, st, lambda d: _const_default(ex, d, None))
        me, cls, start, end = env['self'], env['grp_cls'], env['start'], env['end']
        if env['include_end'] is not True:
            raise OutsideSubset('group_tokens call with include_end != True')
        extend = env['extend']
        pre = st.fork()
        pre.env = dict(env)
        for j, r in enumerate(group_tokens_new.requires):
            ex.goal('%s/call:TokenList.group_tokens.pre#%d' % (ex.fn, j), st, ex.spec(r, pre), {'requires': r})
        # caller-specific obligations at this call site (declared in the caller's contract, evaluated in its frame)
        for j, a in enumerate((getattr(ex.contract, 'callsite_asserts', None) or {}).get('group_tokens', [])):
            ex.goal('%s/call:TokenList.group_tokens.site#%d' % (ex.fn, j), st, ex.spec(a, st), {'assert': a})
        # continue only with states that satisfy the precondition (its failure is reported by the goal above)
        for r in group_tokens_new.requires:
            t = ex.spec(r, pre)
            st.assume(z3.BoolVal(t) if isinstance(t, bool) else t)
        if not smt.feasible(st.pc):
            return []
        lst = ex.getattr(me, 'tokens', st)
        zs, ze = ex.z_int(start), ex.z_int(end)
        out = []
        prepared = []
        for s0, first in ex.elem_at(st, lst, zs):
            for s0b, _k in ex.split_with_cases(s0, lst, z3.simplify(ze + 1)):
                prepared.append((s0b, first))
        for s1, first in prepared:
            ka = ex.split_at(s1, lst, zs)
            kb = ex.split_at(s1, lst, z3.simplify(ze + 1))
            ka = ex.split_at(s1, lst, zs)
            items = s1.lists[lst.lid]
            sl = items[ka:kb]
            is_ext = False
            if extend is True:
                t = ex.isinstance_ext(first, cls, s1)
                branches = ex.decide(s1, t.z if hasattr(t, 'z') else t)
            else:
                branches = [(s1, False)]
            for s2, ext in branches:
                items = s2.lists[lst.lid]
                if ext:
                    grp = first
                    gl = ex.getattr(grp, 'tokens', s2)
                    s2.lists[gl.lid] = s2.lists[gl.lid] + tuple(sl[1:])
                    txt = ex.list_txt(s2, gl)
                    s2.objs[grp.oid]['value'] = SStr(txt)
                    moved = sl[1:]
                else:
                    sub = ex.new_list(s2, list(sl))
                    r = _TokenListInit.construct(ex, cls, [sub], {}, s2)
                    if len(r) != 1:
                        raise OutsideSubset('constructor forks')
                    grp = r[0][1]
                    s2.objs[grp.oid]['parent'] = me
                    moved = sl
                # re-parent the moved children
                for it in moved:
                    if it[0] == 'el' and isinstance(it[1], Rec):
                        s2.objs[it[1].oid]['parent'] = grp
                    elif it[0] == 'seg':
                        seg = dict(ex.segs(s2)[it[1]])
                        seg['uni'] = dict(seg['uni'], parent=grp)
                        ex.segs(s2)[it[1]] = seg
                from pyvc.heap import bump, snapshot_id
                snap_before = snapshot_id(s2, lst)
                s2.lists[lst.lid] = items[:ka] + (('el', grp),) + items[kb:]
                bump(s2, lst.lid)
                # positions below `start` hold the same elements as before: first-match summaries there stay valid
                ex.transfer_nomatch_prefix(s2, snap_before, snapshot_id(s2, lst), zs)
                # ghost updates declared by the caller's contract for this call site (evaluated in its frame, in the
                # state after the call; ghost code cannot change program state)
                for gname, gexpr in ((getattr(ex.contract, 'callsite_ghost', None) or {}).get('group_tokens', {})).items():
                    s2.ghost[gname] = ex.spec_value(gexpr, s2)
                out.append((s2, grp))
        return out


REG['sqlparse.sql.TokenList.group_tokens'] = _GroupTokensCallsite


# --------------------------------------------------------------------------------- get_parent_name (C12)

def make_identifier(ex, st):
    g = make_group(ex, st, 'self')
    for it in st.lists[st.objs[g.oid]['tokens'].lid]:
        if it[0] == 'seg':
            ex.segs(st)[it[1]]['uni']['__values_nonempty__'] = True
    st.assume(st.objs[g.oid]['CLS'] == ex.W.cls_const[ex.W.sql.Identifier])
    return g


@contract('sqlparse.sql.TokenList.get_parent_name')
class get_parent_name_c:
    """the qualifier is the nearest child before the FIRST dot that is not whitespace (DOT, PREV are the results of the
    verified search helpers, computed once): its value without the surrounding quotes, None if there is no such child"""
    exec_class = HeapExec
    params = {'self': make_identifier}
    requires = []
    post_bind = {'DOT': "self.token_next_by(m=(T.Punctuation, '.'))", 'PREV': 'self.token_prev(DOT[0])'}
    ensures = ['result is None if PREV[1] is None else True',
               'result == remove_quotes(PREV[1].value) if PREV[1] is not None else True']
    raises = []
    serves = ['C12']


get_parent_name_c.make_result = staticmethod(lambda ex, st, env: [(st.fork(), None), (st, fresh_str('parent_name'))])


# --------------------------------------------------------------------------------- get_token_at_offset (C03)

_LEAFVAL = z3.Function('LEAF_value', z3.IntSort(), z3.StringSort())
_PREFIXLEN = z3.Function('PREFIXLEN', z3.IntSort(), z3.IntSort())


def _leaf(ex, st, k):
    """the k-th leaf of the flattened tree: an object identified by its position"""
    return ex.new_obj(st, 'Leaf', {'value': SStr(_LEAFVAL(ex.z_int(k))), 'POS': SInt(z3.simplify(ex.z_int(k)))})


class _FlattenModel:
    """call-site model of TokenList.flatten(): the sequence of leaves LEAF(0..N-1) (its relation to the tree is the
    flatten/__str__ shape obligation and I4); PREFIXLEN(k) is the total length of the values of the first k leaves"""

    @staticmethod
    def model(ex, self_val, args, kw, st):
        n = fresh('n_leaves', z3.IntSort())
        st.assume(n >= 0)
        try:
            # Inv I3: a group with at least one child has at least one leaf (groups are non-empty at every level)
            if isinstance(self_val, Rec) and smt.entails(st.pc, ex.zlen(st, ex.getattr(self_val, 'tokens', st)) >= 1):
                st.assume(n >= 1)
        except (OutsideSubset, PyExc):
            pass
        st.ghost['NLEAVES'] = SInt(n)

        def at(ex_, s, k):
            zk = ex_.z_int(k)
            # definition of PREFIXLEN unfolded at the visited position
            s.assume(_PREFIXLEN(z3.IntVal(0)) == 0)
            s.assume(_PREFIXLEN(zk + 1) == _PREFIXLEN(zk) + z3.Length(_LEAFVAL(zk)))
            return [(s, _leaf(ex_, s, k))]
        return [(st, ex.new_obj(st, 'aseq', {'N': SInt(n), 'AT': at}))]


def _offset_ghost(ex, st):
    st.ghost['PREFIXLEN'] = Func('spec.PREFIXLEN', model=lambda e, s_, a, k, s: [(s, SInt(_PREFIXLEN(e.z_int(a[0]))))])
    st.assume(_PREFIXLEN(z3.IntVal(0)) == 0)


class get_token_at_offset_c:
    """the leaf whose character span [PREFIXLEN(j), PREFIXLEN(j+1)) contains the offset, None if no leaf does (spans are
    consecutive, so there is at most one)"""
    exec_class = HeapExec
    params = {'self': make_group, 'offset': 'int'}
    ghost_init = staticmethod(_offset_ghost)
    loops = {'0': {'inv': ['idx == PREFIXLEN(IT0.K)', 'offset < 0 or offset >= PREFIXLEN(IT0.K)']}}
    requires = []
    ensures = ['(offset < 0 or offset >= PREFIXLEN(NLEAVES)) if result is None else '
               '(PREFIXLEN(result.POS) <= offset and offset < PREFIXLEN(result.POS + 1) '
               'and 0 <= result.POS and result.POS < NLEAVES)']
    raises = []
    serves = ['C03', 'C07']


REG.add('sqlparse.sql.TokenList.get_token_at_offset', 'body', get_token_at_offset_c)
REG['sqlparse.sql.TokenList.flatten'] = _FlattenModel


# --------------------------------------------------------------------------------- read-only accessors: totality (C07)

def _total(q, requires=(), loops=None, extra=None, params=None, case='total'):
    """`raises = []` for a read-only accessor on an arbitrary well-formed node (children non-empty, values non-empty)"""
    ns = {'__doc__': _total.__doc__, 'exec_class': HeapExec, 'params': params or {'self': make_identifier_any},
          'requires': list(requires), 'ensures': [], 'raises': [], 'loops': loops or {}, 'serves': ['C07']}
    ns.update(extra or {})
    REG.add(q, case, type('total_' + q.rsplit('.', 1)[1], (), ns))
    return (q, case)


def make_identifier_any(ex, st):
    g = make_group(ex, st, 'self')
    for it in st.lists[st.objs[g.oid]['tokens'].lid]:
        if it[0] == 'seg':
            ex.segs(st)[it[1]]['uni']['__values_nonempty__'] = True
    return g


def make_function_node(ex, st):
    g = make_identifier_any(ex, st)
    st.assume(st.objs[g.oid]['CLS'] == ex.W.cls_const[ex.W.sql.Function])
    return g


class _StrOrNone:
    """call-site form of the name accessors (verified for totality under the case `total`): no effect, returns a str or
    None"""

    @staticmethod
    def model(ex, self_val, args, kw, st):
        s_none = st.fork()
        return [(s_none, None), (st, fresh_str('name'))]


for _q in ('sqlparse.sql.TokenList._get_first_name', 'sqlparse.sql.NameAliasMixin.get_real_name',
           'sqlparse.sql.TokenList.get_name', 'sqlparse.sql.NameAliasMixin.get_alias'):
    REG[_q] = _StrOrNone


class _OpaqueGenerator:
    """call-site form of a read-only generator method (get_identifiers, get_sublists ...): an opaque iterable"""

    @staticmethod
    def model(ex, self_val, args, kw, st):
        return [(st, Opaque('generator', self_val))]


class _GetIdentifiersCallsite:
    """call-site form of IdentifierList.get_identifiers(): on a receiver whose children list is explicit (the C13 shapes)
    the generator body is executed in place and the yielded values are collected in order (a generator is the function from
    its input sequence to the sequence it yields); on any other receiver an opaque iterable"""

    @staticmethod
    def model(ex, self_val, args, kw, st):
        if not (isinstance(self_val, Rec) and st.objs[self_val.oid].get('__shape__') is True):
            return _OpaqueGenerator.model(ex, self_val, args, kw, st)
        from pyvc.models import call_repo_inline, repo_fn_node
        q = 'sqlparse.sql.IdentifierList.get_identifiers'
        saved = getattr(ex, 'on_yield_hook', None)
        key = '__yields__%d' % len([k for k in st.ghost if str(k).startswith('__yields__')])
        st.ghost[key] = ()
        ex.on_yield_hook = lambda s_, v_: s_.ghost.__setitem__(key, s_.ghost.get(key, ()) + (v_,))
        try:
            res = call_repo_inline(ex, q, repo_fn_node(q), self_val, args, kw, st)
        finally:
            ex.on_yield_hook = saved
        out = []
        for s_, _v in res:
            ys = s_.ghost.pop(key, ())
            out.append((s_, ex.new_list(s_, [('el', y) for y in ys])))
        return out


REG['sqlparse.sql.IdentifierList.get_identifiers'] = _GetIdentifiersCallsite


def _generator_on_shapes(q, fallback):
    """call-site form of a read-only generator method: executed in place on a receiver with explicit children (the yields are
    collected in order), `fallback` otherwise"""
    class _M:
        @staticmethod
        def model(ex, self_val, args, kw, st):
            if not (isinstance(self_val, Rec) and st.objs[self_val.oid].get('__shape__') is True):
                if fallback is None:
                    raise OutsideSubset('call of the generator %s on a node whose children are not known' % q)
                return fallback.model(ex, self_val, args, kw, st)
            from pyvc.models import call_repo_inline, repo_fn_node
            saved = getattr(ex, 'on_yield_hook', None)
            key = '__yields__%d' % len([k for k in st.ghost if str(k).startswith('__yields__')])
            st.ghost[key] = ()
            ex.on_yield_hook = lambda s_, v_: s_.ghost.__setitem__(key, s_.ghost.get(key, ()) + (v_,))
            try:
                res = call_repo_inline(ex, q, repo_fn_node(q), self_val, args, kw, st)
            finally:
                ex.on_yield_hook = saved
            out = []
            for s_, _v in res:
                ys = s_.ghost.pop(key, ())
                out.append((s_, ex.new_list(s_, [('el', y) for y in ys])))
            return out
    return _M


_prev_sublists = REG.get('sqlparse.sql.TokenList.get_sublists')
REG['sqlparse.sql.TokenList.get_sublists'] = _generator_on_shapes('sqlparse.sql.TokenList.get_sublists', _prev_sublists)


def _opt_int(name):
    def mk(ex, st):
        # None or a non-negative index (the callers pass a position returned by token_next_by, or nothing)
        return SInt(z3.Int('in_' + name))
    return mk


ACCESSOR_TOTAL = [
    _total('sqlparse.sql.TokenList._get_first_name', params={
        'self': make_identifier, 'idx': _opt_int('idx'), 'reverse': lambda ex, st: SBool(z3.Bool('in_reverse')),
        'keywords': lambda ex, st: SBool(z3.Bool('in_keywords')), 'real_name': lambda ex, st: SBool(z3.Bool('in_real_name'))},
        loops={'0': {'arbitrary': True}}),
    _total('sqlparse.sql.TokenList._get_first_name', params={
        'self': make_identifier, 'idx': lambda ex, st: None, 'reverse': lambda ex, st: SBool(z3.Bool('in_reverse')),
        'keywords': lambda ex, st: SBool(z3.Bool('in_keywords')), 'real_name': lambda ex, st: SBool(z3.Bool('in_real_name'))},
        loops={'0': {'arbitrary': True}}, case='total, idx=None'),
    _total('sqlparse.sql.Identifier.is_wildcard'),
    _total('sqlparse.sql.Identifier.get_typecast'),
    _total('sqlparse.sql.Identifier.get_ordering'),
    _total('sqlparse.sql.Comparison.left', extra={'ensures': ['result is self.tokens[0]']}),
    _total('sqlparse.sql.Comparison.right', extra={'ensures': ['result is self.tokens[len(self.tokens) - 1]']}),
    _total('sqlparse.sql.Function.get_window'),
    _total('sqlparse.sql.TokenList.has_alias', params={'self': make_identifier},
           extra={'ensures': ['result == True or result == False']}),
    _total('sqlparse.sql.TokenList.get_name', params={'self': make_identifier},
           extra={'ensures': ['result is None or len(result) >= 0']}),
    _total('sqlparse.sql.NameAliasMixin.get_alias', params={'self': make_identifier}),
    _total('sqlparse.sql.NameAliasMixin.get_real_name', params={'self': make_identifier}),
    # get_parameters needs the shape F of a Function node: it has a Parenthesis child (established by group_functions)
    _total('sqlparse.sql.Function.get_parameters', params={'self': make_function_node},
           requires=['self.token_next_by(i=Parenthesis)[1] is not None']),
]


# --------------------------------------------------------------------------------- IdentifierList.get_identifiers (C13)

class get_identifiers_c:
    """the generator visits the children in list order and yields exactly those that are neither whitespace nor a comma
    (per iteration: one yield for such a child, none otherwise; every yielded item is such a child)"""
    exec_class = HeapExec
    params = {'self': make_identifier_any}
    ghost = {'YCOUNT': '0'}
    on_yield = 'YCOUNT = YCOUNT + 1'
    yield_asserts = ['item.is_whitespace == False', "not item.match(T.Punctuation, ',')", 'item is token']
    loops = {'0': {'arbitrary': True,
                   'iter_post': ["YCOUNT == iter_start(YCOUNT) + (0 if (token.is_whitespace or token.match(T.Punctuation, ',')) "
                                 "else 1)"]}}
    requires = []
    ensures = []
    raises = []
    serves = ['C13', 'C07']


REG.add('sqlparse.sql.IdentifierList.get_identifiers', 'body', get_identifiers_c)


# --------------------------------------------------------------------------------- name accessors: functional contracts (C12)

_NAMEP_SRC = ('lambda tk: (tk.ttype == T.Name or tk.ttype == T.Wildcard or tk.ttype == T.String.Symbol '
              'or (keywords and tk.ttype == T.Keyword) or isinstance(tk, (Identifier, Function)))')


class get_first_name_fwd:
    """_get_first_name(idx, keywords=..., real_name=...) scanning forward: the FIRST child at a position >= idx (0 for
    idx None / 0) that is a name leaf (Name, Wildcard, quoted Symbol; also a plain Keyword when keywords=True) or a nested
    Identifier / Function decides the answer (J = that child, found by the verified search helper under the predicate
    NAMEP written from the property text): no such child -> None; a leaf -> its value without the surrounding quotes."""
    exec_class = HeapExec
    params = {'self': make_identifier, 'idx': 'int', 'reverse': lambda ex, st: False, 'keywords': 'bool',
              'real_name': 'bool'}
    requires = ['idx >= 0']
    ghost = {'NAMEP': _NAMEP_SRC}
    loops = {'0': {'cut': True,
                   'inv': ['NOMATCH(NAMEP, self, idx, idx + IT0.K)'],
                   'lemmas': ['(NOMATCH(NAMEP, self, idx, idx + IT0.K + 1) == (NOMATCH(NAMEP, self, idx, idx + IT0.K) '
                              'and not MATCH(NAMEP, self, idx + IT0.K)))',
                              '(MATCH(NAMEP, self, idx + IT0.K) == NAMEP(self.tokens[idx + IT0.K])) '
                              'if idx + IT0.K < len(self.tokens) else True']}}
    post_bind = {'J': 'self._token_matching(NAMEP, idx)'}
    ensures = ['result is None if J[1] is None else True',
               'result == remove_quotes(J[1].value) if (J[1] is not None and not J[1].is_group) else True']
    raises = []
    serves = ['C12']


REG.add('sqlparse.sql.TokenList._get_first_name', 'first name, forward', get_first_name_fwd)


class get_first_name_rev:
    """_get_first_name(reverse=True) (idx None): the LAST child that is a name leaf or a nested Identifier / Function
    decides (J = result of the verified reverse search from the end of the list)"""
    exec_class = HeapExec
    params = {'self': make_identifier, 'idx': lambda ex, st: None, 'reverse': lambda ex, st: True, 'keywords': 'bool',
              'real_name': 'bool'}
    requires = []
    ghost = {'NAMEP': _NAMEP_SRC}
    loops = {'0': {'cut': True,
                   'inv': ['NOMATCH(NAMEP, self, len(self.tokens) - IT0.K, len(self.tokens))'],
                   'lemmas': ['(NOMATCH(NAMEP, self, len(self.tokens) - IT0.K - 1, len(self.tokens)) == '
                              '(NOMATCH(NAMEP, self, len(self.tokens) - IT0.K, len(self.tokens)) '
                              'and not MATCH(NAMEP, self, len(self.tokens) - IT0.K - 1)))',
                              '(MATCH(NAMEP, self, len(self.tokens) - IT0.K - 1) == '
                              'NAMEP(self.tokens[len(self.tokens) - IT0.K - 1])) '
                              'if IT0.K < len(self.tokens) else True']}}
    post_bind = {'J': 'self._token_matching(NAMEP, len(self.tokens) + 1, reverse=True)'}
    ensures = ['result is None if J[1] is None else True',
               'result == remove_quotes(J[1].value) if (J[1] is not None and not J[1].is_group) else True']
    raises = []
    serves = ['C12']


REG.add('sqlparse.sql.TokenList._get_first_name', 'first name, reverse', get_first_name_rev)


_NAMEP_NODE = ast.parse(_NAMEP_SRC, mode='eval').body


class _GetFirstNameCallsite:
    """modular use of the two verified cases of _get_first_name (forward from idx / reverse over the whole list): assert
    the precondition, compute J with the verified search helper under the predicate NAMEP, assume exactly the `ensures`
    of the verified case.  For a nested Identifier / Function as first name the result comes from that node's accessor
    (by its own contract)."""

    @staticmethod
    def model(ex, self_val, args, kw, st):
        from pyvc.models import bind_params, _const_default, repo_fn_node
        from pyvc.symex import ClosureEnv
        q = 'sqlparse.sql.TokenList._get_first_name'
        env = bind_params(ex, repo_fn_node(q), self_val, args, kw, st, lambda d: _const_default(ex, d, None))
        idx, reverse, keywords, real_name = env['idx'], env['reverse'], env['keywords'], env['real_name']
        if not ex.fn.startswith('sqlparse.sql.') or not isinstance(reverse, bool):
            return _StrOrNone.model(ex, self_val, args, kw, st)
        if reverse and idx is not None:
            raise OutsideSubset('_get_first_name(idx, reverse=True)')
        me = env['self']
        namep = Func('sqlparse.sql.<contract>.NAMEP', node=_NAMEP_NODE, closure=ClosureEnv({'keywords': keywords}))
        start = SInt(z3.IntVal(0)) if idx is None else idx
        if not reverse:
            ex.goal('%s/call:TokenList._get_first_name.pre#0' % ex.fn, st, ex.z_int(start) >= 0, {'requires': 'idx >= 0'})
            st.assume(ex.z_int(start) >= 0)
        tmp = st.fork()
        tmp.env = {'self': me, 'NAMEP': namep, 'START': start}
        expr = ('self._token_matching(NAMEP, len(self.tokens) + 1, reverse=True)' if reverse
                else 'self._token_matching(NAMEP, START)')
        old_spec, ex._in_spec = getattr(ex, '_in_spec', False), True
        try:
            rr = ex.eval(ast.parse(expr, mode='eval').body, tmp)
        finally:
            ex._in_spec = old_spec
        out = []
        for s_r, j in rr:
            if not smt.feasible(s_r.pc):
                continue
            s_r.env = dict(st.env)
            tok = j[1]
            if tok is None:
                out.append((s_r, None))
                continue
            for s_g, isg in ex.decide(s_r, ex.truth(ex.getattr(tok, 'is_group', s_r), s_r)):
                if not isg:
                    t2 = s_g.fork()
                    t2.env = {'tok': tok}
                    ex._in_spec = True
                    try:
                        vv = ex.eval(ast.parse('remove_quotes(tok.value)', mode='eval').body, t2)
                    finally:
                        ex._in_spec = old_spec
                    for s_v, v in vv:
                        s_v.env = dict(st.env)
                        out.append((s_v, v))
                else:
                    # a nested Identifier / Function: its own accessor answers (call by that accessor's contract)
                    for s_n, rn in ex.decide(s_g, ex.truth(real_name, s_g)):
                        meth = 'get_real_name' if rn else 'get_name'
                        f = ex.getattr(tok, meth, s_n)
                        out.extend(ex.call(f, [], {}, s_n))
        return out


REG['sqlparse.sql.TokenList._get_first_name'] = _GetFirstNameCallsite


def _explicit_shape(ex, st, rec):
    """the receiver is a node built with an explicit children list (one of the C12 shapes or a node nested in one)"""
    return isinstance(rec, Rec) and st.objs[rec.oid].get('__shape__') is True


def _name_accessor_callsite(q):
    class _M:
        """call-site form of get_name / get_real_name / get_alias: on a receiver whose children list is explicit (the
        C12 shapes) the loop-free accessor body is executed in place (it is part of the caller's verified text, like the
        other thin wrappers); for any other receiver only 'a str or None' is known (the verified `total` case)"""

        @staticmethod
        def model(ex, self_val, args, kw, st):
            if not _explicit_shape(ex, st, self_val) or not ex.fn.startswith('sqlparse.sql.'):
                return _StrOrNone.model(ex, self_val, args, kw, st)
            from pyvc.models import call_repo_inline, repo_fn_node
            return call_repo_inline(ex, q, repo_fn_node(q), self_val, args, kw, st)
    return _M


for _q in ('sqlparse.sql.NameAliasMixin.get_real_name', 'sqlparse.sql.TokenList.get_name',
           'sqlparse.sql.NameAliasMixin.get_alias'):
    REG[_q] = _name_accessor_callsite(_q)


# --------------------------------------------------------------------------------- the Identifier shapes of C12

def _mk_leaf(ex, st, parent, name, kinds, value=None, normalized=None, name_leaf=False):
    W = ex.W
    if len(kinds) == 1:
        tt = W.tt(kinds[0])
    else:
        tt = fresh(name + '_tt', W.TT)
        st.assume(z3.Or(*[tt == W.tt(k) for k in kinds]))
    val = z3.StringVal(value) if value is not None else fresh(name + '_val', z3.StringSort())
    st.assume(z3.Length(val) >= 1)
    is_kw = all(k in W.T.Keyword for k in kinds)
    norm = z3.StringVal(normalized) if normalized is not None else val
    f = {'CLS': W.cls_const[W.sql.Token], 'value': SStr(val), 'TXT': SStr(val), 'is_group': False, 'ttype': STy(tt),
         'parent': parent, 'is_whitespace': False, 'is_keyword': is_kw, 'is_newline': False, 'normalized': SStr(norm)}
    if name_leaf:
        f['__name_leaf__'] = True
    return ex.new_token(st, f)


def _mk_identifier(ex, st, parent, name, items):
    """an Identifier node with the given explicit children ('el' records or ('ws', tag) runs of >= 1 whitespace tokens)"""
    W = ex.W
    g = ex.new_token(st, {'CLS': W.cls_const[W.sql.Identifier], 'is_group': True, 'ttype': None, 'TXT': None,
                          'value': None, 'is_whitespace': False, 'is_keyword': False, 'is_newline': False,
                          'normalized': None, 'parent': parent, '__shape__': True})
    lst = []
    for it in items:
        if isinstance(it, tuple) and it[0] == 'ws':
            # a run of >= 1 whitespace tokens: one explicit whitespace leaf followed by any number of further ones
            tt = fresh(name + '_' + it[1] + '_tt', W.TT)
            st.assume(z3.Or(tt == W.tt(W.T.Whitespace), tt == W.tt(W.T.Newline)))
            val = fresh(name + '_' + it[1] + '_val', z3.StringSort())
            st.assume(z3.Length(val) >= 1)
            first = ex.new_token(st, {'CLS': W.cls_const[W.sql.Token], 'value': SStr(val), 'TXT': SStr(val),
                                      'is_group': False, 'ttype': STy(tt), 'parent': g, 'is_whitespace': True,
                                      'is_keyword': False, 'is_newline': SBool(tt == W.tt(W.T.Newline)),
                                      'normalized': SStr(val)})
            lst.append(('el', first))
            if len(it) > 2 and it[2] == 'single':
                continue            # exactly one whitespace token (keeps the children list fully explicit)
            sid = ex.new_seg(st, uni={'parent': g, '__values_nonempty__': True, '__ttype_in__': W.T.Whitespace},
                             name=name + '_' + it[1])
            lst.append(('seg', sid))
        else:
            rec = it(g) if callable(it) else it
            st.objs[rec.oid]['parent'] = g
            lst.append(('el', rec))
    lref = ex.new_list(st, lst)
    st.objs[g.oid]['tokens'] = lref
    txt = ex.list_txt(st, lref)
    for k in ('TXT', 'value', 'normalized'):
        st.objs[g.oid][k] = SStr(txt)
    return g


C12_SHAPES = {
    # name            qualifier  AS     alias
    'name': (False, False, False),
    'qualifier.name': (True, False, False),
    'name AS alias': (False, True, True),
    'qualifier.name AS alias': (True, True, True),
    'name alias': (False, False, True),
    'qualifier.name alias': (True, False, True),
}


def make_c12_shape(shape):
    qual, as_kw, alias = C12_SHAPES[shape]

    def mk(ex, st):
        T = ex.W.T
        names = (T.Name, T.String.Symbol)
        items = []
        st.ghost['QUAL'] = st.ghost['ALIAS'] = None
        if qual:
            q_ = _mk_leaf(ex, st, None, 'qual', names, name_leaf=True)
            st.ghost['QUAL'] = q_
            items += [q_, _mk_leaf(ex, st, None, 'dot', (T.Punctuation,), value='.')]
        n_ = _mk_leaf(ex, st, None, 'name', names, name_leaf=True)
        st.ghost['NAME'] = n_
        items.append(n_)
        if as_kw:
            askw = _mk_leaf(ex, st, None, 'as', (T.Keyword,), normalized='AS')
            st.assume(z3.Length(ex.z_str(st.objs[askw.oid]['value'])) == 2)
            items += [('ws', 'ws1'), askw]
        if alias:
            a_ = _mk_leaf(ex, st, None, 'alias', names, name_leaf=True)
            st.ghost['ALIAS'] = a_
            items += [('ws', 'ws2'), lambda g: _mk_identifier(ex, st, g, 'aliasnode', [a_])]
        return _mk_identifier(ex, st, Opaque('some-parent'), 'self', items)
    return mk


def _c12_case(q, shape, ensures):
    ns = {'__doc__': 'C12 shape "%s": the accessor returns what is written (NAME / QUAL / ALIAS are the name leaves of '
                     'the shape, values and quoting arbitrary, every whitespace run arbitrary and non-empty)' % shape,
          'exec_class': HeapExec, 'params': {'self': make_c12_shape(shape)}, 'requires': [], 'ensures': ensures,
          'raises': [], 'serves': ['C12']}
    case = 'shape: ' + shape
    REG.add(q, case, type('c12_' + q.rsplit('.', 1)[1], (), ns))
    return (q, case)


C12_SHAPE_CASES = []
for _shape, (_q, _a, _al) in C12_SHAPES.items():
    C12_SHAPE_CASES.append(_c12_case('sqlparse.sql.NameAliasMixin.get_real_name', _shape,
                                     ['result == remove_quotes(NAME.value)']))
    C12_SHAPE_CASES.append(_c12_case('sqlparse.sql.TokenList.get_parent_name', _shape,
                                     ['result == remove_quotes(QUAL.value)' if _q else 'result is None']))
    C12_SHAPE_CASES.append(_c12_case('sqlparse.sql.NameAliasMixin.get_alias', _shape,
                                     ['result == remove_quotes(ALIAS.value)' if _al else 'result is None']))
    C12_SHAPE_CASES.append(_c12_case('sqlparse.sql.TokenList.has_alias', _shape,
                                     ['result == %s' % bool(_al)]))
    C12_SHAPE_CASES.append(_c12_case('sqlparse.sql.TokenList.get_name', _shape,
                                     ['result == (remove_quotes(ALIAS.value) or remove_quotes(NAME.value))' if _al
                                      else 'result == remove_quotes(NAME.value)']))


# --------------------------------------------------------------------------------- Token.match, regex form (C10 / C11)

def _leaf_any(ex, st):
    W = ex.W
    tt = fresh('self_tt', W.TT)
    st.assume(tt != W.tt_none)
    val = fresh('self_val', z3.StringSort())
    norm = fresh('self_norm', z3.StringSort())
    iskw = self_kw = ex._b(ex.contains(STy(tt), W.T.Keyword, st))
    return ex.new_token(st, {'CLS': W.cls_const[W.sql.Token], 'value': SStr(val), 'TXT': SStr(val), 'is_group': False,
                             'ttype': STy(tt), 'parent': Opaque('some-parent'), 'is_whitespace': False,
                             'is_keyword': SBool(iskw), 'is_newline': False, 'normalized': SStr(norm)})


class token_match_regex:
    """Token.match(ttype, values, regex=True): true iff the token has exactly that type and one of the patterns is found
    in the token's NORMALIZED text (upper-cased, inner whitespace collapsed for keywords: Token.__init__), searched
    case-insensitively for keywords.  The split words of the reindent filters ('GROUP BY', 'ORDER BY', ...) are matched
    this way, so they match however the keyword is spelled (C10, C11).  re is trusted: RE_SEARCH is uninterpreted."""
    exec_class = HeapExec
    params = {'self': _leaf_any, 'ttype': 'tt', 'values': lambda ex, st: (SStr(z3.String('in_v0')), SStr(z3.String('in_v1'))),
              'regex': lambda ex, st: True}
    requires = ['ttype is not None']
    ensures = ['result == (self.ttype is ttype and ('
               're.compile(old(values)[0], re.IGNORECASE if self.is_keyword else 0).search(self.normalized) is not None or '
               're.compile(old(values)[1], re.IGNORECASE if self.is_keyword else 0).search(self.normalized) is not None))']
    raises = []
    serves = ['C10', 'C11']


REG.add('sqlparse.sql.Token.match', 'regex form', token_match_regex)


# --------------------------------------------------------------------------------- within / has_ancestor / is_child_of (C03)
# The ancestry of a token is modelled as an abstract sequence ANC of group nodes, nearest first: ANC[0] is the parent,
# ANC[k+1] the parent of ANC[k], the last one has no parent (I1: parent references name the containing group, so following
# them walks up the tree and ends at the statement).

def _anc_len(ex, st):
    return ex.zlen(st, st.ghost['ANC'])


def _make_token_with_ancestry(nonempty):
    def mk(ex, st):
        W = ex.W
        sid = ex.new_seg(st, uni={'__class_axioms__': True, '__all_groups__': True}, name='ancestry')
        anc = ex.new_list(st, [('seg', sid)])
        st.ghost['ANC'] = anc
        d = ex.segs(st)[sid]['len']
        tt = fresh('self_tt', W.TT)
        val = fresh('self_val', z3.StringSort())
        me = ex.new_token(st, {'CLS': fresh('self_cls', W.CLS), 'value': SStr(val), 'TXT': SStr(val),
                               'is_group': SBool(fresh('self_isg', z3.BoolSort())), 'ttype': STy(tt), 'parent': None,
                               'is_whitespace': False, 'is_keyword': False, 'is_newline': False, 'normalized': SStr(val)})
        if nonempty:
            st.assume(d >= 1)
            r = ex.elem_at(st, anc, z3.IntVal(0))
            assert len(r) == 1
            # (ANC[0].parent is set at the loop head, where the walk reads it)
            st.objs[r[0][1].oid]['parent'] = Opaque('set-at-the-loop-head')
            st.objs[me.oid]['parent'] = r[0][1]
        else:
            st.assume(d == 0)
        return me
    return mk


def _chain_elem(ex, st, k):
    """[(state, ANC[k])] with the element's parent field set as the chain defines it (ANC[k+1], or None for the last)"""
    anc = st.ghost['ANC']
    out = []
    for s1, e in ex.elem_at(st, anc, k):
        d = ex.zlen(s1, anc)
        for s2, last in ex.decide(s1, z3.simplify(k + 1) >= d):
            if last:
                s2.objs[e.oid]['parent'] = None
                out.append((s2, e))
            else:
                for s3, e2 in ex.elem_at(s2, anc, z3.simplify(k + 1)):
                    s3.objs[e.oid]['parent'] = e2
                    # the parent of ANC[k+1] is not needed before the next loop head (it is set there)
                    s3.objs[e2.oid]['parent'] = Opaque('set-at-the-next-loop-head')
                    out.append((s3, e))
    return out


def _ancpos(ex, st, v):
    """position of a chain element in ANC; len(ANC) for None"""
    if v is None:
        return SInt(_anc_len(ex, st))
    if isinstance(v, Rec) and '__pos__' in st.objs[v.oid]:
        return SInt(st.objs[v.oid]['__pos__'])
    raise OutsideSubset('ANCPOS of a value that is not a chain element')


def _in_chain(ex, st, v):
    if v is None:
        return True
    anc = st.ghost['ANC']
    if isinstance(v, Rec) and '__pos__' in st.objs[v.oid]:
        base = {ex.segs(st)[it[1]]['base'] if it[0] == 'seg' else st.objs[it[1].oid].get('__base__') for it in st.lists[anc.lid]}
        if st.objs[v.oid].get('__base__') in base and len(base) == 1:
            p_ = st.objs[v.oid]['__pos__']
            return SBool(z3.And(p_ >= 0, p_ < _anc_len(ex, st)))
    return False


def _walk_var(ex):
    """the local variable that walks up the tree: the target X of the statement `X = X.parent` in the function under
    verification (so that the contract does not depend on how the local is called)"""
    for n in ast.walk(ex.fn_node):
        if isinstance(n, ast.Assign) and len(n.targets) == 1 and isinstance(n.targets[0], ast.Name) \
                and isinstance(n.value, ast.Attribute) and n.value.attr == 'parent' and isinstance(n.value.value, ast.Name) \
                and n.value.value.id == n.targets[0].id:
            return n.targets[0].id
    raise OutsideSubset('no statement of the form X = X.parent in the ancestor walk')


def _chain_ghost(pred_src):
    def gi(ex, st):
        var = _walk_var(ex)
        st.ghost['WALKVAR'] = Func('spec.WALKVAR', model=lambda e, s_, a, k, s: [(s, s.env.get(var))])
        st.ghost['ANCPOS'] = Func('spec.ANCPOS', model=lambda e, s_, a, k, s: [(s, _ancpos(e, s, a[0]))])
        st.ghost['INCHAIN'] = Func('spec.INCHAIN', model=lambda e, s_, a, k, s: [(s, _in_chain(e, s, a[0]))])
        st.ghost['P'] = ex.spec_value(pred_src, st)
        if 'J' in st.ghost and isinstance(st.env.get('other'), Rec):
            # definition of MATCH for the concrete predicate P at the position of `other` in the chain
            val = _closure_value(ex, st, st.ghost['P'], st.env['other'])
            if val is not None:
                m = ex.spec_fn('MATCH', [st.ghost['P'], st.ghost['ANC'], st.ghost['J']], {}, st)[0][1]
                st.assume(m.z == val)
    return gi


def _chain_bind(ex, head):
    """loop head of the ancestor walk: `parent` is None (the walk is over) or the chain element at some position K"""
    anc = head.ghost['ANC']
    d = ex.zlen(head, anc)
    out = []
    var = _walk_var(ex)
    s_none = head.fork()
    s_none.env[var] = None
    out.append(s_none)
    k = fresh('K', z3.IntSort())
    head.assume(z3.And(k >= 0, k < d))
    if smt.feasible(head.pc):
        for s1, e in _chain_elem(ex, head, k):
            s1.env[var] = e
            # definition of MATCH for the concrete predicate P at this position
            val = _closure_value(ex, s1, s1.ghost['P'], e)
            if val is not None:
                m = ex.spec_fn('MATCH', [s1.ghost['P'], anc, SInt(k)], {}, s1)[0][1]
                s1.assume(m.z == val)
            out.append(s1)
    return out


_CHAIN_LOOP = {'0': {'bind': _chain_bind,
                     'inv': ['INCHAIN(WALKVAR())', 'NOMATCH(P, ANC, 0, ANCPOS(WALKVAR()))'],
                     'lemmas': []}}


class within_c:
    """t.within(cls) is true iff SOME ancestor of t is an instance of cls (ANC = the chain of ancestors, nearest first)"""
    exec_class = HeapExec
    params = {'self': _make_token_with_ancestry(True), 'group_cls': make_cls}
    ghost_init = staticmethod(_chain_ghost('lambda tk: isinstance(tk, group_cls)'))
    loops = _CHAIN_LOOP
    requires = []
    ensures = ['result == (not NOMATCH(P, ANC, 0, len(ANC)))']
    raises = []
    serves = ['C03', 'C07']


class within_root:
    """a token without a parent is within nothing"""
    exec_class = HeapExec
    params = {'self': _make_token_with_ancestry(False), 'group_cls': make_cls}
    ghost_init = staticmethod(_chain_ghost('lambda tk: isinstance(tk, group_cls)'))
    loops = _CHAIN_LOOP
    requires = []
    ensures = ['result == False']
    raises = []
    serves = ['C03', 'C07']


REG.add('sqlparse.sql.Token.within', 'ancestry', within_c)
REG.add('sqlparse.sql.Token.within', 'root', within_root)


def _other_in_chain(first):
    def mk(ex, st):
        anc = st.ghost['ANC']
        if first:
            j = z3.IntVal(0)
        else:
            j = fresh('J', z3.IntSort())
            st.assume(z3.And(j >= 1, j < ex.zlen(st, anc)))
            if not smt.feasible(st.pc):
                raise OutsideSubset('vacuous')
        r = ex.elem_at(st, anc, j)
        assert len(r) == 1
        if not first:
            st.objs[r[0][1].oid]['parent'] = Opaque('set-at-the-loop-head')
        st.ghost['J'] = SInt(j)
        return r[0][1]
    return mk


def _other_unrelated(ex, st):
    W = ex.W
    val = fresh('other_val', z3.StringSort())
    return ex.new_token(st, {'CLS': fresh('other_cls', W.CLS), 'value': SStr(val), 'TXT': SStr(val),
                             'is_group': SBool(fresh('other_isg', z3.BoolSort())), 'ttype': STy(fresh('other_tt', W.TT)),
                             'parent': Opaque('some-parent'), 'is_whitespace': False, 'is_keyword': False,
                             'is_newline': False, 'normalized': SStr(val)})


def _has_ancestor_case(case, self_mk, other_mk, ensures):
    ns = {'__doc__': 't.has_ancestor(o) is true iff o is one of the ancestors of t (ANC = the chain of ancestors, nearest '
                     'first; token objects compare by identity: side-condition obligations); case: ' + case,
          'exec_class': HeapExec, 'params': {'self': self_mk, 'other': other_mk},
          'ghost_init': staticmethod(_chain_ghost('lambda tk: tk == other')), 'loops': _CHAIN_LOOP, 'requires': [],
          'ensures': ensures, 'raises': [], 'serves': ['C03', 'C07']}
    REG.add('sqlparse.sql.Token.has_ancestor', case, type('has_ancestor_c', (), ns))
    return ('sqlparse.sql.Token.has_ancestor', case)


ANCESTRY_CASES = [
    ('sqlparse.sql.Token.within', 'ancestry'), ('sqlparse.sql.Token.within', 'root'),
    _has_ancestor_case('other is the parent', _make_token_with_ancestry(True), _other_in_chain(True), ['result == True']),
    _has_ancestor_case('other is a farther ancestor', _make_token_with_ancestry(True), _other_in_chain(False),
                       ['result == True']),
    _has_ancestor_case('other is not an ancestor', _make_token_with_ancestry(True), _other_unrelated,
                       ['result == False', 'NOMATCH(P, ANC, 0, len(ANC))']),
    _has_ancestor_case('root', _make_token_with_ancestry(False), _other_unrelated, ['result == False']),
]


class is_child_of_c:
    """t.is_child_of(o) is true iff o is t's parent (identity of token objects)"""
    exec_class = HeapExec
    params = {'self': _make_token_with_ancestry(True), 'other': _other_in_chain(True)}
    requires = []
    ensures = ['result == True']
    raises = []
    serves = ['C03', 'C07']


class is_child_of_not:
    exec_class = HeapExec
    params = {'self': _make_token_with_ancestry(True), 'other': _other_in_chain(False)}
    requires = []
    ensures = ['result == False']
    raises = []
    serves = ['C03', 'C07']


class is_child_of_unrelated:
    exec_class = HeapExec
    params = {'self': _make_token_with_ancestry(True), 'other': _other_unrelated}
    requires = []
    ensures = ['result == False']
    raises = []
    serves = ['C03', 'C07']


REG.add('sqlparse.sql.Token.is_child_of', 'other is the parent', is_child_of_c)
REG.add('sqlparse.sql.Token.is_child_of', 'other is a farther ancestor', is_child_of_not)
REG.add('sqlparse.sql.Token.is_child_of', 'other is another token', is_child_of_unrelated)
ANCESTRY_CASES += [('sqlparse.sql.Token.is_child_of', 'other is the parent'),
                   ('sqlparse.sql.Token.is_child_of', 'other is a farther ancestor'),
                   ('sqlparse.sql.Token.is_child_of', 'other is another token')]



# --------------------------------------------------------------------------------- Function.get_parameters on the shapes of C13

def _mk_node(ex, st, cls, name, items, parent=None):
    """a group node of class `cls` with explicit children (records, or ('ws', tag) whitespace runs)"""
    g = _mk_identifier(ex, st, parent if parent is not None else Opaque('some-parent'), name, items)
    st.objs[g.oid]['CLS'] = ex.W.cls_const[cls]
    return g


def _mk_argument(ex, st, name):
    """one written argument: a node of one of the argument classes, or a literal / wildcard / NULL leaf"""
    W = ex.W
    sql = W.sql
    T = W.T
    z = fresh(name + '_cls', W.CLS)
    arg_classes = (sql.Function, sql.Identifier, sql.TypedLiteral, sql.Operation, sql.Comparison, sql.Case, sql.Parenthesis)
    txt = fresh(name + '_txt', z3.StringSort())
    st.assume(z3.Length(txt) >= 1)
    st.assume(txt != z3.StringVal(','))         # an argument is not the separator
    isg = fresh(name + '_isg', z3.BoolSort())
    tt = fresh(name + '_tt', W.TT)
    lits = [t for t in W.tt_objs if t in T.Literal] + [T.Wildcard]
    # either a group of an argument class, or a leaf typed as a literal / wildcard
    st.assume(z3.If(isg, z3.And(z3.Or(*[z == W.cls_const[k] for k in arg_classes]), tt == W.tt_none),
                    z3.And(z == W.cls_const[sql.Token], z3.Or(*[tt == W.tt(t) for t in lits]))))
    return ex.new_token(st, {'CLS': z, 'value': SStr(txt), 'TXT': SStr(txt), 'is_group': SBool(isg), 'ttype': STy(tt),
                             'parent': None, 'is_whitespace': False, 'is_keyword': False, 'is_newline': False,
                             'normalized': SStr(txt)})


def make_function_shape(n_args):
    def mk(ex, st):
        W = ex.W
        sql, T = W.sql, W.T
        name = _mk_leaf(ex, st, None, 'fname', (T.Name,), name_leaf=True)
        args = [_mk_argument(ex, st, 'arg%d' % i) for i in range(n_args)]
        st.ghost['ARGS'] = tuple(args)
        lp = _mk_leaf(ex, st, None, 'lp', (T.Punctuation,), value='(')
        rp = _mk_leaf(ex, st, None, 'rp', (T.Punctuation,), value=')')
        if n_args == 0:
            inner = []
        elif n_args == 1:
            inner = [args[0]]
        else:
            items = []
            for i, a in enumerate(args):
                if i:
                    items += [_mk_leaf(ex, st, None, 'comma%d' % i, (T.Punctuation,), value=','), ('ws', 'ws%d' % i)]
                items.append(a)
            inner = [lambda g: _mk_node(ex, st, sql.IdentifierList, 'arglist', items, g)]
        paren = lambda g: _mk_node(ex, st, sql.Parenthesis, 'paren', [lp] + inner + [rp], g)
        ident = lambda g: _mk_node(ex, st, sql.Identifier, 'fident', [name], g)
        return _mk_node(ex, st, sql.Function, 'self', [ident, paren])
    return mk


C13_SHAPE_CASES = []
for _n in (0, 1, 2, 3):
    _ens = ['len(result) == %d' % _n] + ['result[%d] is ARGS[%d]' % (i, i) for i in range(_n)]
    _ns = {'__doc__': 'C13 "a call f(a, b, ...) is a Function whose get_parameters() yields the written arguments": shape with '
                      '%d argument(s), each a node of an argument class or a literal / wildcard leaf, separated by comma + '
                      'whitespace; the result is exactly the argument nodes, in order' % _n,
           'exec_class': HeapExec, 'params': {'self': make_function_shape(_n)}, 'requires': [], 'ensures': _ens,
           'raises': [], 'serves': ['C13']}
    REG.add('sqlparse.sql.Function.get_parameters', 'shape: %d arguments' % _n, type('c13_get_parameters', (), _ns))
    C13_SHAPE_CASES.append(('sqlparse.sql.Function.get_parameters', 'shape: %d arguments' % _n))


# --------------------------------------------------------------------------------- Case.get_cases on the shape of C13

def _ws1(ex, st, name):
    W = ex.W
    tt = fresh(name + '_tt', W.TT)
    st.assume(z3.Or(tt == W.tt(W.T.Whitespace), tt == W.tt(W.T.Newline)))
    val = fresh(name + '_val', z3.StringSort())
    st.assume(z3.Length(val) >= 1)
    return ex.new_token(st, {'CLS': W.cls_const[W.sql.Token], 'value': SStr(val), 'TXT': SStr(val), 'is_group': False,
                             'ttype': STy(tt), 'parent': None, 'is_whitespace': True, 'is_keyword': False,
                             'is_newline': SBool(tt == W.tt(W.T.Newline)), 'normalized': SStr(val)})


def make_case_shape(n_when, with_else):
    def mk(ex, st):
        W = ex.W
        sql, T = W.sql, W.T
        kw = lambda word, nm: _mk_leaf(ex, st, None, nm, (T.Keyword,), normalized=word)   # noqa: E731
        items = [kw('CASE', 'kw_case')]
        gh = {}
        for i in range(n_when):
            w, c, t, v = kw('WHEN', 'kw_when%d' % i), _mk_argument(ex, st, 'cond%d' % i), kw('THEN', 'kw_then%d' % i), \
                _mk_argument(ex, st, 'val%d' % i)
            gh.update({'WHEN%d' % i: w, 'COND%d' % i: c, 'THEN%d' % i: t, 'VAL%d' % i: v})
            items += [_ws1(ex, st, 'wsa%d' % i), w, _ws1(ex, st, 'wsb%d' % i), c, _ws1(ex, st, 'wsc%d' % i), t,
                      _ws1(ex, st, 'wsd%d' % i), v]
        if with_else:
            e, ev = kw('ELSE', 'kw_else'), _mk_argument(ex, st, 'elseval')
            gh.update({'ELSE': e, 'ELSEVAL': ev})
            items += [_ws1(ex, st, 'wse'), e, _ws1(ex, st, 'wsf'), ev]
        items += [_ws1(ex, st, 'wsg'), kw('END', 'kw_end')]
        st.ghost.update(gh)
        return _mk_node(ex, st, sql.Case, 'self', items)
    return mk


def _case_ensures(n_when, with_else):
    ens = ['len(result) == %d' % (n_when + (1 if with_else else 0))]
    for i in range(n_when):
        ens += ['len(result[%d][0]) == 2 and result[%d][0][0] is WHEN%d and result[%d][0][1] is COND%d' % (i, i, i, i, i),
                'len(result[%d][1]) == 2 and result[%d][1][0] is THEN%d and result[%d][1][1] is VAL%d' % (i, i, i, i, i)]
    if with_else:
        j = n_when
        ens += ['result[%d][0] is None' % j,
                'len(result[%d][1]) == 2 and result[%d][1][0] is ELSE and result[%d][1][1] is ELSEVAL' % (j, j, j)]
    return ens


for _nw, _we in ((1, False), (1, True), (2, True)):
    _case = 'shape: %d WHEN%s' % (_nw, ' + ELSE' if _we else '')
    _ns = {'__doc__': 'C13 "Case.get_cases() yields the written WHEN/THEN/ELSE parts": CASE (WHEN c THEN v){%d}%s END with single '
                      'whitespace tokens between; with skip_ws=True the result is [([WHEN, c], [THEN, v])...%s], the very '
                      'nodes, in order' % (_nw, ' ELSE e' if _we else '', ', (None, [ELSE, e])' if _we else ''),
           'exec_class': HeapExec, 'params': {'self': make_case_shape(_nw, _we), 'skip_ws': lambda ex, st: True},
           'requires': [], 'ensures': _case_ensures(_nw, _we), 'raises': [], 'serves': ['C13']}
    REG.add('sqlparse.sql.Case.get_cases', _case, type('c13_get_cases', (), _ns))
    C13_SHAPE_CASES.append(('sqlparse.sql.Case.get_cases', _case))


class _GetCasesCallsite:
    """call-site form of Case.get_cases(): on a receiver with an explicit children list (the verified shape cases above)
    the body is executed in place (its loop over the known children is unrolled)"""

    @staticmethod
    def model(ex, self_val, args, kw, st):
        if not (isinstance(self_val, Rec) and st.objs[self_val.oid].get('__shape__') is True):
            raise OutsideSubset('Case.get_cases on a node whose children are not known')
        from pyvc.models import call_repo_inline, repo_fn_node
        q = 'sqlparse.sql.Case.get_cases'
        return call_repo_inline(ex, q, repo_fn_node(q), self_val, args, kw, st)


REG['sqlparse.sql.Case.get_cases'] = _GetCasesCallsite


class _LeafFlattenModel:
    """call-site model of Token.flatten() (a leaf): the one-element sequence [self]"""

    @staticmethod
    def model(ex, self_val, args, kw, st):
        def at(ex_, s, k):
            return [(s, self_val)]
        return [(st, ex.new_obj(st, 'aseq', {'N': SInt(z3.IntVal(1)), 'AT': at}))]


REG['sqlparse.sql.Token.flatten'] = _LeafFlattenModel
