"""Sidecar contracts for sqlparse/formatter.py."""
import z3

from pyvc.spec import contract, REG
from pyvc.symex import SInt, SStr, SBool, Rec, Opaque, Func, fresh
from pyvc.dyn import DynExec, SDyn, dyn_sort, well_formed

OPTION_KEYS = ['keyword_case', 'identifier_case', 'output_format', 'strip_comments', 'use_space_around_operators',
               'strip_whitespace', 'truncate_strings', 'truncate_char', 'indent_columns', 'reindent',
               'reindent_aligned', 'indent_after_first', 'indent_tabs', 'indent_width', 'wrap_after', 'comma_first',
               'compact', 'right_margin']


def make_options(ex, st):
    """an arbitrary options dict: every documented key independently present or absent, with an arbitrary value of
    the Dyn domain (None | bool | int | float | str | other object)"""
    D = dyn_sort()
    ent = {}
    for k in OPTION_KEYS:
        has = z3.Bool('has_' + k)
        val = z3.Const('opt_' + k, D)
        st.assume(well_formed(val))
        ent[k] = (has, SDyn(val))
    return ex.make_dict(st, ent)


def _opt(name):
    return "options.get('%s')" % name


# result domains (the postcondition is taken from the documentation of the options: what the filters rely on)
VALID = [
    "options.get('keyword_case') in [None, 'upper', 'lower', 'capitalize']",
    "options.get('identifier_case') in [None, 'upper', 'lower', 'capitalize']",
    "options.get('output_format') in [None, 'sql', 'python', 'php']",
    "options.get('strip_comments', False) in [True, False]",
    "options.get('use_space_around_operators', False) in [True, False]",
    "options.get('strip_whitespace', False) in [True, False]",
    "options.get('truncate_strings') is None or (isinstance(options.get('truncate_strings'), int) and options.get('truncate_strings') > 1)",
    "options.get('truncate_strings') is None or isinstance(options.get('truncate_char'), str)",
    "options.get('indent_columns') in [True, False]",
    "options.get('reindent', False) in [True, False]",
    "options.get('reindent_aligned', False) in [True, False]",
    "options.get('indent_after_first') in [True, False]",
    "options.get('indent_char') in [' ', '\\t']",
    "isinstance(options.get('indent_width'), int) and options.get('indent_width') >= 1",
    "isinstance(options.get('wrap_after'), int) and options.get('wrap_after') >= 0",
    "options.get('comma_first') in [True, False]",
    "options.get('compact') in [True, False]",
    "options.get('right_margin') is None or (isinstance(options.get('right_margin'), int) and options.get('right_margin') >= 10)",
    # what build_filter_stack and the indent filters rely on (cooperating sites): both indent filters run on whitespace-
    # normalised trees only (they delete the whitespace in front of a split keyword and add their own line break), and
    # indent_columns is a mode of reindent
    "options.get('strip_whitespace') == True if options.get('reindent') == True else True",
    "options.get('strip_whitespace') == True if options.get('reindent_aligned') == True else True",
    "options.get('reindent') == True if options.get('indent_columns') == True else True",
]


@contract('sqlparse.formatter.validate_options')
class validate_options_c:
    """for EVERY combination of present/absent options and EVERY value of the Dyn domain: either SQLParseError, or
    the same dict is returned with every option in its documented domain; no other exception escapes"""
    exec_class = DynExec
    params = {'options': make_options}
    requires = []
    ensures = ['result is options'] + VALID
    raises = ['SQLParseError']
    serves = ['C07', 'C06']
