"""Sidecar contracts for sqlparse/engine/statement_splitter.py."""
import z3

from pyvc.spec import contract, REG
from pyvc.symex import SInt, SStr, SBool, STy, Rec, LRef, Opaque, Func, fresh, fresh_int, fresh_str, fresh_bool
from pyvc.models import lib

# loop-free helpers whose strongest postcondition is taken at call sites (their bodies are executed symbolically in
# place, every path; they are part of the verified text of the caller)
REG.inline_ok |= {
    'sqlparse.engine.statement_splitter.StatementSplitter._reset',
    'sqlparse.engine.statement_splitter.StatementSplitter._change_splitlevel',
    'sqlparse.engine.statement_splitter.StatementSplitter.__init__',
}

FLAGS = ('_in_declare', '_is_create')
_NAMED_VIDS = {}
CASES = 'STACKID(self._case_levels)'          # identity of the abstract value of the stack of open CASE blocks


def make_splitter(ex, st, tokens=None, sfx=''):
    """a StatementSplitter object in an arbitrary state (flags/booleans, depth and level integers)"""
    from sqlparse.engine.statement_splitter import StatementSplitter
    f = {'__class__': StatementSplitter,
         '_in_declare': SBool(z3.Bool('s_in_declare' + sfx)),
         '_in_loop_header': SBool(z3.Bool('s_in_loop_header' + sfx)),
         '_in_ddl': SBool(z3.Bool('s_in_ddl' + sfx)),
         '_is_create': SBool(z3.Bool('s_is_create' + sfx)), '_begin_depth': SInt(z3.Int('s_begin_depth' + sfx)),
         'consume_ws': SBool(z3.Bool('s_consume_ws' + sfx)), 'level': SInt(z3.Int('s_level' + sfx))}
    # any further attribute that the current _reset() initialises (a field added by a later change of the code) exists on
    # the object too: an unknown value of the initialiser's type, never an AttributeError of the model
    import ast as _ast
    from pyvc.core import source as _source
    rn = _source().get('sqlparse.engine.statement_splitter.StatementSplitter._reset')
    for n in (_ast.walk(rn) if rn is not None else ()):
        if isinstance(n, _ast.Assign):
            for t in n.targets:
                if isinstance(t, _ast.Attribute) and isinstance(t.value, _ast.Name) and t.value.id == 'self' \
                        and t.attr not in f and t.attr != 'tokens':
                    c = n.value.value if isinstance(n.value, _ast.Constant) else Ellipsis
                    if isinstance(n.value, _ast.List) and not n.value.elts:
                        # a list that _reset() empties and the transition code uses as a stack of ints (append / pop /
                        # [-1]): an abstract integer stack in an arbitrary state; the same name gives the same abstract
                        # value (the second object of a two-run contract starts in the same state)
                        from pyvc.symex import new_istack
                        key = 's' + t.attr + sfx
                        stk = new_istack(ex, st, key, length=z3.Int(key + '_len'), top=z3.Int(key + '_top'))
                        st.objs[stk.oid]['vid'] = _NAMED_VIDS.setdefault(key, st.objs[stk.oid]['vid'])
                        f[t.attr] = stk
                        continue
                    if isinstance(c, bool):
                        f[t.attr] = SBool(z3.Bool('s_' + t.attr + sfx))
                    elif isinstance(c, int):
                        f[t.attr] = SInt(z3.Int('s_' + t.attr + sfx))
                    else:
                        f[t.attr] = Opaque('splitter-field:' + t.attr)
    f['tokens'] = tokens if tokens is not None else ex.new_list(st, [('seg', 'TOK0' + sfx, z3.IntVal(0), z3.Int('s_ntok' + sfx))])
    st.assume(z3.Int('s_ntok' + sfx) >= 0)
    return ex.new_obj(st, 'StatementSplitter', f)


def token_ctor_model(ex, cls, args, kw, st):
    """sql.Token(ttype, value) at splitter level: a fresh leaf token record (the full constructor contract is
    verified with the tree contracts)"""
    ttype, value = args[0], args[1]
    W = ex.W
    is_ws = ex.contains(ttype, W.T.Whitespace, st)
    return [(st, ex.new_obj(st, 'Token', {'__class__': cls, 'ttype': ttype, 'value': value,
                                          'is_whitespace': ex.wrapb(is_ws), 'is_group': False}))]


def statement_ctor_model(ex, cls, args, kw, st):
    toks = args[0] if args else None
    return [(st, ex.new_obj(st, 'Statement', {'__class__': cls, 'tokens': toks, 'is_group': True}))]


class _TokenCtor:
    model = staticmethod(token_ctor_model)


class _StmtCtor:
    model = staticmethod(statement_ctor_model)


def install_splitter_level_models(reg):
    """at splitter level the two constructors are used through these call-site models"""
    reg['sqlparse.sql.Token'] = _TokenCtor
    reg['sqlparse.sql.Statement'] = _StmtCtor


# --------------------------------------------------------------------------------- _change_splitlevel

@contract('sqlparse.engine.statement_splitter.StatementSplitter._change_splitlevel', case='opaque token')
class csl_opaque:
    """Third sentence of C05 / basis of every opaque terminal: a token that is neither a keyword nor punctuation
    never changes the level or any flag, whatever its text."""
    params = {'self': make_splitter, 'ttype': 'tt', 'value': 'str'}
    requires = ['ttype not in T.Keyword', 'ttype is not T.Punctuation']
    ensures = ['result == 0',
               'self._in_declare == old(self._in_declare)', CASES + ' == old(' + CASES + ')',
               'self._is_create == old(self._is_create)', 'self._begin_depth == old(self._begin_depth)',
               'self.level == old(self.level)', 'self.consume_ws == old(self.consume_ws)',
               'self._in_loop_header == old(self._in_loop_header)', 'self._in_ddl == old(self._in_ddl)']
    raises = []
    serves = ['C05', 'C17', 'C11']


@contract('sqlparse.engine.statement_splitter.StatementSplitter._change_splitlevel', case='punctuation')
class csl_punct:
    """parentheses and only parentheses move the level among punctuation tokens"""
    params = {'self': make_splitter, 'ttype': lambda ex, st: ex.W.T.Punctuation, 'value': 'str'}
    requires = []
    ensures = ["result == (1 if value == '(' else (-1 if value == ')' else 0))",
               'self._in_declare == old(self._in_declare)', CASES + ' == old(' + CASES + ')',
               'self._is_create == old(self._is_create)', 'self._begin_depth == old(self._begin_depth)',
               'self.level == old(self.level)']
    raises = []
    serves = ['C05', 'C17']


@contract('sqlparse.engine.statement_splitter.StatementSplitter._change_splitlevel', case='total')
class csl_total:
    """for every token: returns -1, 0 or 1, raises nothing, and keeps _begin_depth >= 0"""
    params = {'self': make_splitter, 'ttype': 'tt', 'value': 'str'}
    requires = ['self._begin_depth >= 0']
    ensures = ['result == -1 or result == 0 or result == 1', 'self._begin_depth >= 0',
               'self.level == old(self.level)', 'self.consume_ws == old(self.consume_ws)']
    raises = []
    serves = ['C02', 'C04', 'C07']


INV = ['self._begin_depth >= 0', 'len(self._case_levels) >= 0',
       # (a CASE is only recorded inside CREATE; how the recorded levels relate to the current level is a fact about the
       #  loop body of process - the level is updated there - and is part of the context families of the grammar induction)
       'self._is_create if len(self._case_levels) > 0 else True',
       'self._is_create if self._in_declare else True']


@contract('sqlparse.engine.statement_splitter.StatementSplitter._change_splitlevel', case='state invariant')
class csl_inv:
    """the block-tracking state satisfies INV after every token if it did before (the context families of the
    grammar induction are subsets of INV); the reset state satisfies it trivially"""
    params = {'self': make_splitter, 'ttype': 'tt', 'value': 'str'}
    requires = list(INV)
    ensures = list(INV)
    raises = []
    serves = ['C05', 'C17']


def _kw_values(ex, st):
    """two spellings of the same keyword: different raw values with the same alpha() = ' '.join(v.upper().split())"""
    v = SStr(z3.String('in_value'))
    v2 = z3.String('other_spelling')
    js = z3.Function('join_split', z3.StringSort(), z3.StringSort(), z3.StringSort())
    st.assume(js(z3.StringVal(' '), ex.W.upper(v.z)) == js(z3.StringVal(' '), ex.W.upper(v2)))
    st.ghost['OTHER'] = SStr(v2)
    return v


def _second_splitter(ex, st):
    """a second splitter object in exactly the same state (same symbolic field values, distinct identity)"""
    st.ghost['SELF2'] = make_splitter(ex, st)


@contract('sqlparse.engine.statement_splitter.StatementSplitter._change_splitlevel', case='keyword spelling')
class csl_spelling:
    """C11 at the splitter, as a relational (two-run) contract: for a keyword token the transition depends on the value
    only through its upper-cased, whitespace-collapsed form.  The body is run a second time (post_bind R2) on a second
    splitter in the same state with ANOTHER spelling of the same keyword (OTHER: any string with the same
    ' '.join(v.upper().split())); the two runs return the same level change and leave the same state."""
    params = {'self': make_splitter, 'ttype': 'tt', 'value': _kw_values}
    ghost_init = staticmethod(_second_splitter)
    requires = ['ttype in T.Keyword']
    post_bind = {'R2': 'SELF2._change_splitlevel(ttype, OTHER)'}
    ensures = ['result == -1 or result == 0 or result == 1', 'result == R2',
               'self._in_declare == SELF2._in_declare', CASES + ' == STACKID(SELF2._case_levels)',
               'self._is_create == SELF2._is_create', 'self._begin_depth == SELF2._begin_depth',
               'self._in_loop_header == SELF2._in_loop_header', 'self._in_ddl == SELF2._in_ddl',
               'self.level == SELF2.level',
               'self.consume_ws == SELF2.consume_ws']
    raises = []
    serves = ['C11']
