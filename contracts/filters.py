"""Sidecar contracts for sqlparse/filters/tokens.py (stream filters) and filters/others.py."""
import z3

from pyvc.spec import contract, REG
from pyvc.symex import SInt, SStr, SBool, STy, Rec, Opaque, Func, fresh, fresh_str
from pyvc.models import lib


def make_stream(ex, st, nonblank_names=False):
    """abstract token stream: unknown length, element i is (ttype_i, value_i) (uninterpreted functions of i)"""
    n = fresh('n_stream', z3.IntSort())
    st.assume(n >= 0)
    tt = z3.Function('stream_ttype', z3.IntSort(), ex.W.TT)
    vv = z3.Function('stream_value', z3.IntSort(), z3.StringSort())

    def at(ex_, s, k):
        zk = ex_.z_int(k)
        s.assume(tt(zk) != ex_.W.tt_none)
        if nonblank_names:
            # lexer fact (bounded under C14): a Name / String.Symbol token is not blank
            strip = z3.Function('py_strip', z3.StringSort(), z3.StringSort())
            T = ex_.W.T
            s.assume(z3.Implies(z3.Or(tt(zk) == ex_.W.tt(T.Name), tt(zk) == ex_.W.tt(T.String.Symbol)),
                                z3.Length(strip(vv(zk))) >= 1))
        return [(s, (STy(tt(zk)), SStr(vv(zk))))]
    st.ghost['TT'] = Func('spec.TT', model=lambda e, s_, a, k, s: [(s, STy(tt(e.z_int(a[0]))))])
    st.ghost['VAL'] = Func('spec.VAL', model=lambda e, s_, a, k, s: [(s, SStr(vv(e.z_int(a[0]))))])
    return ex.new_obj(st, 'aseq', {'N': SInt(n), 'AT': at})


CONV = z3.Function('convert', z3.StringSort(), z3.StringSort())


def make_casefilter(clsname):
    def mk(ex, st):
        from sqlparse.filters import tokens as ft
        cls = getattr(ft, clsname)

        def conv(ex_, f, args, kw, s):
            lib('str.upper/lower/capitalize as the uninterpreted total function `convert`')
            return [(s, SStr(CONV(ex_.z_str(args[0]))))]
        st.ghost['CONV'] = Func('spec.CONV', model=lambda e, s_, a, k, s: [(s, SStr(CONV(e.z_str(a[0]))))])
        return ex.new_obj(st, clsname, {'__class__': cls, 'convert': Opaque('convert', {'call': conv})})
    return mk


@contract('sqlparse.filters.tokens._CaseFilter.process', case='KeywordCaseFilter')
class kwcase_process:
    """per-token map: one output item per input item, same type; the value is convert(value) iff the type is a
    keyword type, otherwise byte-identical"""
    params = {'self': make_casefilter('KeywordCaseFilter'), 'stream': make_stream}
    ghost = {'NY': '0'}
    on_yield = 'NY = NY + 1'
    yield_asserts = ['item[0] == TT(NY)',
                     'item[1] == (CONV(VAL(NY)) if TT(NY) in T.Keyword else VAL(NY))']
    loops = {'0': {'inv': ['NY == IT0.K']}}
    ensures = ['NY == IT0.N']
    raises = []
    serves = ['C08']


@contract('sqlparse.filters.tokens.IdentifierCaseFilter.process')
class idcase_process:
    """only Name and String.Symbol tokens whose stripped value does not start with a double quote are converted.
    Precondition (lexer fact, bounded under C14/C08): Name / Symbol token values are not blank."""
    params = {'self': make_casefilter('IdentifierCaseFilter'), 'stream': lambda ex, st: make_stream(ex, st, True)}
    ghost = {'NY': '0'}
    on_yield = 'NY = NY + 1'
    yield_asserts = ['item[0] == TT(NY)',
                     'item[1] == VAL(NY) or (item[1] == CONV(VAL(NY)) and (TT(NY) is T.Name or TT(NY) is T.String.Symbol))',
                     'item[1] == VAL(NY) if (TT(NY) is not T.Name and TT(NY) is not T.String.Symbol) else True']
    loops = {'0': {'inv': ['NY == IT0.K']}}
    ensures = ['NY == IT0.N']
    raises = []
    serves = ['C08']


def make_truncate(ex, st):
    from sqlparse.filters import tokens as ft
    w = fresh('width', z3.IntSort())
    st.assume(w > 1)
    return ex.new_obj(st, 'TruncateStringFilter', {'__class__': ft.TruncateStringFilter, 'width': SInt(w),
                                                   'char': SStr(z3.String('trunc_char'))})


@contract('sqlparse.filters.tokens.TruncateStringFilter.process')
class truncate_process:
    """only String.Single tokens change, and only when the text between the quotes is longer than width: the result
    is quote + first `width` characters + marker + quote; everything else is byte-identical"""
    params = {'self': make_truncate, 'stream': make_stream}
    ghost = {'NY': '0'}
    on_yield = 'NY = NY + 1'
    yield_asserts = [
        'item[0] == TT(NY)',
        'item[1] == VAL(NY) if TT(NY) is not T.Literal.String.Single else True',
        # (single-quoted literal, the common quoting "'...'": value[0] == "'" and not starting with two quotes)
        '(item[1] == (VAL(NY) if len(VAL(NY)) - 2 <= self.width else '
        '"\'" + VAL(NY)[1:1 + self.width] + self.char + "\'")) '
        'if (TT(NY) is T.Literal.String.Single and len(VAL(NY)) >= 2 and VAL(NY)[:2] != "\'\'") else True',
    ]
    loops = {'0': {'inv': ['NY == IT0.K']}}
    ensures = ['NY == IT0.N']
    raises = []
    serves = ['C08']


# --------------------------------------------------------------------------------- layout filters: per-site obligations

from pyvc.heap import HeapExec, bind_elem_or_none  # noqa: E402
from contracts.sql import make_group  # noqa: E402

REG.inline_ok |= {'sqlparse.sql.TokenList.insert_before', 'sqlparse.sql.TokenList.insert_after'}

# C06: what a layout filter may do to the tree.  `elem` = the element removed / inserted, `obj`/`new` = a field store.
LAYOUT_SITES = {
    'remove': ['elem.is_whitespace == True'],
    'insert': ['elem.is_group == False', 'elem.ttype in T.Whitespace'],
    'store:value': ['obj.is_whitespace == True', "new == '' or new == ' '"],
    'store:parent': [],            # re-parenting of an inserted whitespace token
    '__closed__': True,            # any other store to a token field (ttype, normalized, flags ...) is a violation
}


def make_filter(clsname, **fields):
    def mk(ex, st):
        import sqlparse.filters as F
        f = {'__class__': getattr(F, clsname)}
        f.update(fields)
        return ex.new_obj(st, clsname, f)
    return mk


@contract('sqlparse.filters.others.StripWhitespaceFilter._stripws_default')
class stripws_default:
    """only whitespace children are rewritten, and only to '' or ' ' (every iteration, every list)"""
    exec_class = HeapExec
    params = {'tlist': make_group}
    sites = LAYOUT_SITES
    loops = {'0': {'arbitrary': True}}
    ensures = []
    raises = []
    serves = ['C06', 'C10']


@contract('sqlparse.filters.others.StripWhitespaceFilter._stripws_parenthesis')
class stripws_parenthesis:
    exec_class = HeapExec
    params = {'self': make_filter('StripWhitespaceFilter'), 'tlist': make_group}
    sites = LAYOUT_SITES
    ensures = []
    # (that the delimiters exist, i.e. no IndexError, is the bracket shape B: C09 / C07)
    raises = ['IndexError']
    serves = ['C06', 'C10']


@contract('sqlparse.filters.others.StripWhitespaceFilter._stripws_identifierlist')
class stripws_identifierlist:
    exec_class = HeapExec
    params = {'self': make_filter('StripWhitespaceFilter'), 'tlist': make_group}
    sites = LAYOUT_SITES
    # every element collected in last_nl is a whitespace token (that it is a child of tlist, i.e. no ValueError, is C07)
    loops = {'0': {'arbitrary': True, 'inv': ["ALL(last_nl, 'is_whitespace', True)"]}, '0.0': {'arbitrary': True}}
    ensures = []
    raises = ['ValueError']
    serves = ['C06', 'C10']


@contract('sqlparse.filters.others.SpacesAroundOperatorsFilter._process')
class spaces_process:
    exec_class = HeapExec
    params = {'tlist': make_group}
    sites = LAYOUT_SITES
    loops = {'0': {'bind': bind_elem_or_none('tlist', 'tidx', 'token')}}
    ensures = []
    raises = []
    serves = ['C06', 'C10']


@contract('sqlparse.filters.others.StripTrailingSemicolonFilter.process')
class strip_semicolon:
    """split(strip_semicolon=True): only trailing whitespace and ';' tokens are removed"""
    exec_class = HeapExec
    params = {'self': make_filter('StripTrailingSemicolonFilter'), 'stmt': make_group}
    sites = {'remove': ["elem.is_whitespace == True or elem.value == ';'"], '__closed__': True}
    ensures = []
    raises = []
    serves = ['C04']
