"""Sidecar contracts for sqlparse/filters/tokens.py (stream filters) and filters/others.py."""
import z3

from pyvc.spec import contract, REG
from pyvc.symex import SInt, SStr, SBool, STy, Rec, Opaque, Func, fresh, fresh_str
from pyvc.models import lib


def make_stream(ex, st, nonblank_names=False):
    """abstract token stream: unknown length, element i is (ttype_i, value_i) (uninterpreted functions of i)"""
    n = fresh('n_stream', z3.IntSort())
    st.assume(n >= 0)
    tt = z3.Function('stream_ttype', z3.IntSort(), ex.W.TT)
    vv = z3.Function('stream_value', z3.IntSort(), z3.StringSort())

    def at(ex_, s, k):
        zk = ex_.z_int(k)
        s.assume(tt(zk) != ex_.W.tt_none)
        if nonblank_names:
            # lexer fact (bounded under C14): a Name / String.Symbol token is not blank
            strip = z3.Function('py_strip', z3.StringSort(), z3.StringSort())
            T = ex_.W.T
            s.assume(z3.Implies(z3.Or(tt(zk) == ex_.W.tt(T.Name), tt(zk) == ex_.W.tt(T.String.Symbol)),
                                z3.Length(strip(vv(zk))) >= 1))
        return [(s, (STy(tt(zk)), SStr(vv(zk))))]
    st.ghost['TT'] = Func('spec.TT', model=lambda e, s_, a, k, s: [(s, STy(tt(e.z_int(a[0]))))])
    st.ghost['VAL'] = Func('spec.VAL', model=lambda e, s_, a, k, s: [(s, SStr(vv(e.z_int(a[0]))))])
    return ex.new_obj(st, 'aseq', {'N': SInt(n), 'AT': at})


CONV = z3.Function('convert', z3.StringSort(), z3.StringSort())


def make_casefilter(clsname):
    def mk(ex, st):
        from sqlparse.filters import tokens as ft
        cls = getattr(ft, clsname)

        def conv(ex_, f, args, kw, s):
            lib('str.upper/lower/capitalize as the uninterpreted total function `convert`')
            return [(s, SStr(CONV(ex_.z_str(args[0]))))]
        st.ghost['CONV'] = Func('spec.CONV', model=lambda e, s_, a, k, s: [(s, SStr(CONV(e.z_str(a[0]))))])
        return ex.new_obj(st, clsname, {'__class__': cls, 'convert': Opaque('convert', {'call': conv})})
    return mk


@contract('sqlparse.filters.tokens._CaseFilter.process', case='KeywordCaseFilter')
class kwcase_process:
    """per-token map: one output item per input item, same type; the value is convert(value) iff the type is a
    keyword type, otherwise byte-identical"""
    params = {'self': make_casefilter('KeywordCaseFilter'), 'stream': make_stream}
    ghost = {'NY': '0'}
    on_yield = 'NY = NY + 1'
    yield_asserts = ['item[0] == TT(NY)',
                     'item[1] == (CONV(VAL(NY)) if TT(NY) in T.Keyword else VAL(NY))']
    loops = {'0': {'inv': ['NY == IT0.K']}}
    ensures = ['NY == IT0.N']
    raises = []
    serves = ['C08']


@contract('sqlparse.filters.tokens.IdentifierCaseFilter.process')
class idcase_process:
    """only Name and String.Symbol tokens whose stripped value does not start with a double quote are converted.
    Precondition (lexer fact, bounded under C14/C08): Name / Symbol token values are not blank."""
    params = {'self': make_casefilter('IdentifierCaseFilter'), 'stream': lambda ex, st: make_stream(ex, st, True)}
    ghost = {'NY': '0'}
    on_yield = 'NY = NY + 1'
    yield_asserts = ['item[0] == TT(NY)',
                     'item[1] == VAL(NY) or (item[1] == CONV(VAL(NY)) and (TT(NY) is T.Name or TT(NY) is T.String.Symbol))',
                     'item[1] == VAL(NY) if (TT(NY) is not T.Name and TT(NY) is not T.String.Symbol) else True']
    loops = {'0': {'inv': ['NY == IT0.K']}}
    ensures = ['NY == IT0.N']
    raises = []
    serves = ['C08']


def make_truncate(ex, st):
    from sqlparse.filters import tokens as ft
    w = fresh('width', z3.IntSort())
    st.assume(w > 1)
    return ex.new_obj(st, 'TruncateStringFilter', {'__class__': ft.TruncateStringFilter, 'width': SInt(w),
                                                   'char': SStr(z3.String('trunc_char'))})


@contract('sqlparse.filters.tokens.TruncateStringFilter.process')
class truncate_process:
    """only String.Single tokens change, and only when the text between the quotes is longer than width: the result
    is quote + first `width` characters + marker + quote; everything else is byte-identical"""
    params = {'self': make_truncate, 'stream': make_stream}
    ghost = {'NY': '0'}
    on_yield = 'NY = NY + 1'
    yield_asserts = [
        'item[0] == TT(NY)',
        'item[1] == VAL(NY) if TT(NY) is not T.Literal.String.Single else True',
        # (single-quoted literal, the common quoting "'...'": value[0] == "'" and not starting with two quotes)
        '(item[1] == (VAL(NY) if len(VAL(NY)) - 2 <= self.width else '
        '"\'" + VAL(NY)[1:1 + self.width] + self.char + "\'")) '
        'if (TT(NY) is T.Literal.String.Single and len(VAL(NY)) >= 2 and VAL(NY)[:2] != "\'\'") else True',
    ]
    loops = {'0': {'inv': ['NY == IT0.K']}}
    ensures = ['NY == IT0.N']
    raises = []
    serves = ['C08']


# --------------------------------------------------------------------------------- layout filters: per-site obligations

from pyvc.heap import HeapExec, bind_elem_or_none  # noqa: E402
from contracts.sql import make_group  # noqa: E402

REG.inline_ok |= {'sqlparse.sql.TokenList.insert_before', 'sqlparse.sql.TokenList.insert_after'}

# C06: what a layout filter may do to the tree.  `elem` = the element removed / inserted, `obj`/`new` = a field store.
LAYOUT_SITES = {
    'remove': ['elem.is_whitespace == True'],
    'insert': ['elem.is_group == False', 'elem.ttype in T.Whitespace', 'FRESH(elem)'],
    'store:value': ['obj.is_whitespace == True', "new == '' or new == ' '"],
    'store:parent': [],            # re-parenting of an inserted whitespace token
    '__closed__': True,            # any other store to a token field (ttype, normalized, flags ...) is a violation
}


def make_filter(clsname, **fields):
    def mk(ex, st):
        import sqlparse.filters as F
        f = {'__class__': getattr(F, clsname)}
        f.update(fields)
        return ex.new_obj(st, clsname, f)
    return mk


@contract('sqlparse.filters.others.StripWhitespaceFilter._stripws_default')
class stripws_default:
    """only whitespace children are rewritten, and only to '' or ' ' (every iteration, every list)"""
    exec_class = HeapExec
    params = {'tlist': make_group}
    sites = LAYOUT_SITES
    loops = {'0': {'arbitrary': True}}
    ensures = []
    raises = []
    serves = ['C06', 'C10']


@contract('sqlparse.filters.others.StripWhitespaceFilter._stripws_parenthesis')
class stripws_parenthesis:
    exec_class = HeapExec
    params = {'self': make_filter('StripWhitespaceFilter'), 'tlist': make_group}
    sites = LAYOUT_SITES
    ensures = []
    # (that the delimiters exist, i.e. no IndexError, is the bracket shape B: C09 / C07)
    raises = ['IndexError']
    serves = ['C06', 'C10']


@contract('sqlparse.filters.others.StripWhitespaceFilter._stripws_identifierlist')
class stripws_identifierlist:
    exec_class = HeapExec
    params = {'self': make_filter('StripWhitespaceFilter'), 'tlist': make_group}
    sites = LAYOUT_SITES
    # every element collected in last_nl is a whitespace token (that it is a child of tlist, i.e. no ValueError, is C07)
    loops = {'0': {'arbitrary': True, 'inv': ["ALL(last_nl, 'is_whitespace', True)"]}, '0.0': {'arbitrary': True}}
    ensures = []
    raises = ['ValueError']
    serves = ['C06', 'C10']


@contract('sqlparse.filters.others.SpacesAroundOperatorsFilter._process')
class spaces_process:
    exec_class = HeapExec
    params = {'tlist': make_group}
    sites = LAYOUT_SITES
    loops = {'0': {'bind': bind_elem_or_none('tlist', 'tidx', 'token')}}
    ensures = []
    raises = []
    serves = ['C06', 'C10']


@contract('sqlparse.filters.others.StripTrailingSemicolonFilter.process')
class strip_semicolon:
    """split(strip_semicolon=True): only trailing whitespace and ';' tokens are removed"""
    exec_class = HeapExec
    params = {'self': make_filter('StripTrailingSemicolonFilter'), 'stmt': make_group}
    sites = {'remove': ["elem.is_whitespace == True or elem.value == ';'"], '__closed__': True}
    ensures = []
    raises = []
    serves = ['C04']


# --------------------------------------------------------------------------------- reindent / aligned indent / comments

REG.inline_ok |= {'sqlparse.filters.reindent.ReindentFilter.nl', 'sqlparse.filters.reindent.ReindentFilter.leading_ws',
                  'sqlparse.filters.aligned_indent.AlignedIndentFilter.nl',
                  'sqlparse.sql.TokenList.token_not_matching',
                  'sqlparse.filters.others.StripCommentsFilter._process.<locals>.get_next_comment'}


def make_reindent(ex, st):
    from sqlparse.filters.reindent import ReindentFilter
    cur = make_group(ex, st, 'curstmt')
    return ex.new_obj(st, 'ReindentFilter', {
        '__class__': ReindentFilter, 'n': '\n', 'width': SInt(z3.Int('rf_width')), 'char': SStr(z3.String('rf_char')),
        'indent': SInt(z3.Int('rf_indent')), 'offset': SInt(z3.Int('rf_offset')),
        'wrap_after': SInt(z3.Int('rf_wrap_after')), 'comma_first': SBool(z3.Bool('rf_comma_first')),
        'indent_columns': SBool(z3.Bool('rf_indent_columns')), 'compact': SBool(z3.Bool('rf_compact')),
        '_curr_stmt': cur, '_last_stmt': make_group(ex, st, 'laststmt'), '_last_func': None})


def make_aligned(ex, st):
    from sqlparse.filters.aligned_indent import AlignedIndentFilter
    return ex.new_obj(st, 'AlignedIndentFilter', {
        '__class__': AlignedIndentFilter, 'n': '\n', 'char': SStr(z3.String('af_char')),
        'indent': SInt(z3.Int('af_indent')), 'offset': SInt(z3.Int('af_offset')),
        '_max_kwd_len': SInt(z3.Int('af_max_kwd_len'))})


class _PureQuery:
    """call-site model of a query helper that does not touch the tree: returns (None, None) or (i, tlist.tokens[i])
    (frame obligation: the helper contains no tree write - checked structurally in props.C06)"""

    @staticmethod
    def model(ex, self_val, args, kw, st):
        tl = args[0]
        lst = ex.getattr(tl, 'tokens', st)
        n = ex.zlen(st, lst)
        s_none = st.fork()
        out = [(s_none, (None, None))]
        k = fresh('nt_idx', z3.IntSort())
        for s1, ok in ex.decide(st, n > 0):
            if not ok:
                continue
            s1.assume(z3.And(k >= 0, k < n))
            for s2, e in ex.elem_at(s1, lst, k):
                out.append((s2, (SInt(k), e)))
        return out


class _PureInt:
    """call-site model of a helper that computes an int from the text (no tree write)"""

    @staticmethod
    def model(ex, self_val, args, kw, st):
        return [(st, SInt(fresh('offset', z3.IntSort())))]


class _LayoutCallee:
    """call-site model of a sibling / recursive layout routine: it may restructure the lists of the tree it is given
    (its own sites are verified under its own contract): afterwards the children lists are unknown"""

    @staticmethod
    def model(ex, self_val, args, kw, st):
        for a in args:
            if isinstance(a, Rec) and a.kind == 'Token' and st.objs[a.oid].get('tokens') is not None:
                ex.havoc_list_ext(st, st.objs[a.oid]['tokens'].lid)
        st.ghost['__taint__'] = st.ghost.get('__taint__', frozenset()) | {'value', 'parent', '#children'}
        # (ghost record: a sibling layout routine was handed a subtree - contracts may demand that this happens)
        if 'DESCENDED' in st.ghost:
            st.ghost['DESCENDED'] = SInt(z3.simplify(ex.z_int(st.ghost['DESCENDED']) + 1))
        st.ghost['__handed__'] = st.ghost.get('__handed__', frozenset()) | {a.oid for a in args if isinstance(a, Rec)}
        return [(st, None)]


def _handed_on(ex, self_val, args, kw, st):
    """HANDED_ON(node): the node itself was passed to a sibling layout routine (the generic descent) on this path"""
    x = args[0]
    return [(st, isinstance(x, Rec) and x.oid in st.ghost.get('__handed__', frozenset()))]


def _ghost_handed(ex, st):
    from pyvc.symex import Func
    st.ghost['HANDED_ON'] = Func('spec.HANDED_ON', model=_handed_on)


for _q in ('sqlparse.filters.reindent.ReindentFilter._next_token',
           'sqlparse.filters.aligned_indent.AlignedIndentFilter._next_token'):
    REG[_q] = _PureQuery
for _q in ('sqlparse.filters.reindent.ReindentFilter._get_offset',):
    REG[_q] = _PureInt
for _q in ('sqlparse.filters.reindent.ReindentFilter._process', 'sqlparse.filters.reindent.ReindentFilter._process_default',
           'sqlparse.filters.reindent.ReindentFilter._split_kwds', 'sqlparse.filters.reindent.ReindentFilter._split_statements',
           'sqlparse.filters.aligned_indent.AlignedIndentFilter._process',
           'sqlparse.filters.aligned_indent.AlignedIndentFilter._process_default',
           'sqlparse.filters.aligned_indent.AlignedIndentFilter._split_kwds'):
    REG[_q] = _LayoutCallee


def _site_contract(q, params, loops=None, raises=(), serves=('C06', 'C10'), sites=None, case=None, tier='quick'):
    ns = {'tier': tier, 'exec_class': HeapExec, 'params': params, 'sites': sites or LAYOUT_SITES, 'loops': loops or {},
          'ensures': [], 'raises': list(raises), 'serves': list(serves), '__doc__':
          'per-site obligations: every tree mutation reached on any path inserts a fresh whitespace token or '
          'removes / blanks a whitespace token'}
    cls = type('site_' + q.rsplit('.', 1)[1], (), ns)
    REG.add(q, case or 'sites', cls)
    return cls


_RF = 'sqlparse.filters.reindent.ReindentFilter.'
_site_contract(_RF + '_split_kwds', {'self': make_reindent, 'tlist': make_group},
               loops={'0': {'bind': bind_elem_or_none('tlist', 'tidx', 'token')}})
_site_contract(_RF + '_split_statements', {'self': make_reindent, 'tlist': make_group},
               loops={'0': {'bind': bind_elem_or_none('tlist', 'tidx', 'token')}})
_site_contract(_RF + '_process_where', {'self': make_reindent, 'tlist': make_group})
_site_contract(_RF + '_process_parenthesis', {'self': make_reindent, 'tlist': make_group})
_site_contract(_RF + '_process_values', {'self': make_reindent, 'tlist': make_group},
               loops={'0': {'bind': bind_elem_or_none('tlist', 'tidx', 'token')}})
_site_contract(_RF + 'process', {'self': make_reindent, 'stmt': make_group})
_AF = 'sqlparse.filters.aligned_indent.AlignedIndentFilter.'
_site_contract(_AF + '_split_kwds', {'self': make_aligned, 'tlist': make_group},
               loops={'0': {'bind': bind_elem_or_none('tlist', 'tidx', 'token')}}, raises=['IndexError', 'ValueError'])
_site_contract(_AF + '_process_parenthesis', {'self': make_aligned, 'tlist': make_group}, raises=['IndexError', 'ValueError'])

# --------------------------------------------------------------------------------- output filters: total (C07)

def make_output_filter(clsname):
    def mk(ex, st):
        from sqlparse.filters import output as fo
        c = fresh('out_count', z3.IntSort())
        st.assume(c >= 1)
        return ex.new_obj(st, clsname, {'__class__': getattr(fo, clsname), 'count': SInt(c),
                                        'varname': SStr(z3.String('out_varname'))})
    return mk


def make_leaf_stream(ex, st):
    """the flattened statement: a list of leaf tokens of unknown length (values non-empty: C01)"""
    from contracts.sql import make_group
    g = make_group(ex, st, 'flatstmt')
    return st.objs[g.oid]['tokens']


OUTPUT_FILTER_CASES = []
for _cls in ('OutputPythonFilter', 'OutputPHPFilter'):
    _q = 'sqlparse.filters.output.%s._process' % _cls
    _ns = {'__doc__': 'C07 "a result or SQLParseError, nothing else": the generator runs to its end on every token stream, '
                      'whatever the texts of the tokens (in particular the text behind a line break is taken from a split '
                      'that has two parts on every path that reads the second one)',
           'exec_class': HeapExec, 'params': {'self': make_output_filter(_cls), 'stream': make_leaf_stream, 'varname': 'str',
                                               'has_nl': 'bool'},
           # (every item handed on is a token made by this call: the statement's own tokens are not passed through)
           'yield_asserts': ['FRESH(item)'],
           'loops': {'0': {}}, 'requires': [], 'ensures': [], 'raises': [], 'serves': ['C07']}
    REG.add(_q, 'total', type('output_total_' + _cls, (), _ns))
    OUTPUT_FILTER_CASES.append((_q, 'total'))


# C08: what strip_comments may do to the tree
COMMENT_SITES = {
    'remove': ['elem.ttype in T.Comment or isinstance(elem, sql.Comment)',
               'elem.ttype not in (T.Comment.Multiline.Hint, T.Comment.Single.Hint)'],
    # FRESH: a token object must occur once in one tree (I1/I2); a shared token would carry later in-place edits
    # (strip_whitespace blanks token.value) into every place it was inserted
    'insert': ['elem.is_group == False', 'elem.ttype in T.Whitespace', 'FRESH(elem)'],
    '__closed__': True,
}
_site_contract('sqlparse.filters.others.StripCommentsFilter._process', {'tlist': make_group},
               loops={'0': {'bind': bind_elem_or_none('tlist', 'tidx', 'token'),
                            # established by get_next_comment (first-match contract + the closure's own test)
                            'inv': ['token is None or token.ttype in T.Comment or isinstance(token, sql.Comment)']}},
               sites=COMMENT_SITES, serves=('C08',), raises=['ValueError'], tier='thorough')


class _TokenMatchModel:
    """Token.match: the plain form is executed from its source; the regex form (re.compile / search) is a pure
    predicate of the token and the patterns (uninterpreted)"""

    @staticmethod
    def model(ex, self_val, args, kw, st):
        from pyvc import models
        from pyvc.core import source
        regex = kw.get('regex', args[2] if len(args) > 2 else False)
        if regex is False:
            f = Func('sqlparse.sql.Token.match', node=source().get('sqlparse.sql.Token.match'), closure=None,
                     self_val=self_val)
            import sys
            saved = ex.genv
            ex.genv = vars(sys.modules['sqlparse.sql'])
            try:
                return models.call_inline(ex, f, args, kw, st, qual='sqlparse.sql.Token.match')
            finally:
                ex.genv = saved
        lib('re.compile(v, flags).search(text): pure (uninterpreted predicate)')
        return [(st, SBool(fresh('regex_match', z3.BoolSort())))]


REG['sqlparse.sql.Token.match'] = _TokenMatchModel


# --------------------------------------------------------------------------------- SerializerUnicode (C10/C06)

def _lines_result(ex, st, env):
    """split_unquoted_newlines: a non-empty list of strings (its own contract is the bounded C06 line mapping)"""
    n = fresh('n_lines', z3.IntSort())
    st.assume(n >= 1)
    ln = z3.Function('LINE', z3.IntSort(), z3.StringSort())

    def at(ex_, s, k):
        return [(s, SStr(ln(ex_.z_int(k))))]
    return [(st, ex.new_obj(st, 'aseq', {'N': SInt(n), 'AT': at}))]


@contract('sqlparse.utils.split_unquoted_newlines')
class split_unquoted_newlines_c:
    """call-site form only: returns a non-empty sequence of strings"""
    callsite = True
    params = {'stmt': 'opaque'}
    requires = []
    ensures = []
    raises = []
    make_result = staticmethod(_lines_result)
    serves = ['C10']


def _serializer_ghost(ex, st):
    from pyvc.models import ends_ws
    st.ghost['ENDS_WS'] = Func('spec.ENDS_WS', model=lambda e, s_, a, k, s: [(s, SBool(ends_ws(e.z_str(a[0]))))])


@contract('sqlparse.filters.others.SerializerUnicode.process')
class serializer_process:
    """C10 "no line ends in a blank": every piece that is joined with '\\n' is a line of the statement text right-stripped
    of ALL whitespace (str.isspace), so it does not end in a whitespace character"""
    params = {'stmt': 'opaque'}
    requires = []
    ghost_init = staticmethod(_serializer_ghost)
    precise_strip = True
    genexp_asserts = {'0': ['not ENDS_WS(elem)']}
    ensures = []
    raises = []
    serves = ['C10', 'C06']


# --------------------------------------------------------------------------------- StripWhitespaceFilter.process (C07/C10)

def make_possibly_empty_group(ex, st):
    """a group whose children list may be EMPTY (strip_comments can empty a statement before strip_whitespace runs)"""
    g = make_group(ex, st, 'stmt')
    lst = st.objs[g.oid]['tokens']
    sid = ex.new_seg(st, name='stmt_children')
    st.lists[lst.lid] = (('seg', sid),)
    return g


class _Sublists:
    """call-site model of TokenList.get_sublists(): an opaque sequence of group children"""

    @staticmethod
    def model(ex, self_val, args, kw, st):
        return [(st, Opaque('sublists', self_val))]


class _ProcessRecursion:
    """the recursive call on a child: returns its argument; works on the child's own children list only (a node's list
    is not shared with its descendants: I1), which is verified under this same contract"""

    @staticmethod
    def model(ex, self_val, args, kw, st):
        return [(st, args[0])]


from contracts.sql import _generator_on_shapes  # noqa: E402
# (on a node with explicit children the generator is executed in place; otherwise an opaque sequence of group children)
REG['sqlparse.sql.TokenList.get_sublists'] = _generator_on_shapes('sqlparse.sql.TokenList.get_sublists', _Sublists)
REG['sqlparse.filters.others.StripWhitespaceFilter.process'] = _ProcessRecursion
REG['sqlparse.filters.others.StripWhitespaceFilter._stripws'] = _LayoutCallee


class strip_ws_process:
    """total on every statement, including one without children; returns the statement it was given; the only direct
    mutation is the removal of a trailing whitespace token at depth 0"""
    exec_class = HeapExec
    params = {'self': make_filter('StripWhitespaceFilter'), 'stmt': make_possibly_empty_group, 'depth': 'int'}
    requires = ['depth >= 0']
    sites = LAYOUT_SITES
    ensures = ['result is stmt']
    raises = []
    serves = ['C07', 'C10', 'C06']


REG.add('sqlparse.filters.others.StripWhitespaceFilter.process', 'body', strip_ws_process)


def make_comment_token(ex, st):
    return ex.new_token(st, {'CLS': ex.W.cls_const[ex.W.sql.Token], 'is_group': False, 'ttype': STy(fresh('c_tt', ex.W.TT)),
                             'value': fresh_str('c_val'), 'TXT': None, 'is_whitespace': False, 'is_keyword': False,
                             'is_newline': False, 'normalized': fresh_str('c_norm'), 'parent': Opaque('some-parent')})


@contract('sqlparse.filters.others.StripCommentsFilter._process.<locals>._get_insert_token')
class get_insert_token_c:
    """what replaces a removed comment: a leaf whitespace token allocated by this call (never a shared object: a token
    object occurs once in one tree, later in-place edits of it must not reach other places)"""
    exec_class = HeapExec
    params = {'token': make_comment_token}
    requires = []
    ensures = ['FRESH(result)', 'result.is_group == False', 'result.ttype in T.Whitespace']
    raises = []
    serves = ['C08']


# --------------------------------------------------------------------------------- _stripws_default: normal form (C10)

class stripws_default_nf:
    """C10 "no run of two whitespace characters" inside one group: in list order, a whitespace child that is the first
    child or directly follows another whitespace child is blanked to '', any other whitespace child becomes exactly one
    blank; so after the pass no two consecutive children of the group carry whitespace text, and none is longer than
    one character"""
    exec_class = HeapExec
    params = {'tlist': make_group}
    loops = {'0': {'cut': True,
                   'inv': ['is_first_char == (IT0.K == 0)',
                           'IT0.K == 0 or last_was_ws == tlist.tokens[IT0.K - 1].is_whitespace'],
                   'iter_post': ["token.value == ('' if (iter_start(last_was_ws) or iter_start(is_first_char)) else ' ') "
                                 "if token.is_whitespace else True"]}}
    requires = []
    ensures = []
    raises = []
    serves = ['C10']


REG.add('sqlparse.filters.others.StripWhitespaceFilter._stripws_default', 'normal form', stripws_default_nf)


# --------------------------------------------------------------------------------- _process_case on the CASE shapes (C06/C07)

from contracts.sql import make_case_shape  # noqa: E402

CASE_LAYOUT_CASES = []
for _nw, _we in ((1, False), (1, True), (2, True)):
    _case = 'shape: %d WHEN%s' % (_nw, ' + ELSE' if _we else '')
    _site_contract(_AF + '_process_case', {'self': make_aligned, 'tlist': make_case_shape(_nw, _we)}, case=_case,
                   serves=('C06', 'C07'))
    CASE_LAYOUT_CASES.append((_AF + '_process_case', _case))


# --------------------------------------------------------------------------------- further layout routines (C06)

_site_contract(_AF + '_process_statement', {'self': make_aligned, 'tlist': make_group})


def make_idlist_shape(n):
    """IdentifierList [item] (, ws item){n-1} with explicit children (items: nodes of the argument classes or literals)"""
    def mk(ex, st):
        from contracts.sql import _mk_argument, _mk_leaf, _mk_node
        T = ex.W.T
        items = []
        args = []
        for i in range(n):
            a = _mk_argument(ex, st, 'item%d' % i)
            args.append(a)
            if i:
                items += [_mk_leaf(ex, st, None, 'comma%d' % i, (T.Punctuation,), value=','), ('ws', 'ws%d' % i, 'single')]
            items.append(a)
        st.ghost['ITEMS'] = tuple(args)
        return _mk_node(ex, st, ex.W.sql.IdentifierList, 'tlist', items)
    return mk


_site_contract(_AF + '_process_identifierlist', {'self': make_aligned, 'tlist': make_idlist_shape(3)},
               case='shape: 3 items')
MORE_LAYOUT_CASES = [(_AF + '_process_statement', 'sites'),
                     (_AF + '_process_identifierlist', 'shape: 3 items')]


class _PureBoolQuery:
    """call-site model of a read-only predicate on the tree (within, has_ancestor ...: verified separately against the
    ancestry chain): an unknown boolean, no effect"""

    @staticmethod
    def model(ex, self_val, args, kw, st):
        return [(st, SBool(fresh('query', z3.BoolSort())))]


for _q in ('sqlparse.sql.Token.within', 'sqlparse.sql.Token.has_ancestor'):
    REG[_q] = _PureBoolQuery

_site_contract(_RF + '_process_identifierlist', {'self': make_reindent, 'tlist': make_idlist_shape(2)},
               case='shape: 2 items', raises=[])
_site_contract(_RF + '_process_identifierlist', {'self': make_reindent, 'tlist': make_idlist_shape(3)},
               case='shape: 3 items', raises=[], tier='thorough')
for _c in ('shape: 2 items', 'shape: 3 items'):
    # C10 "every clause keyword starts its own line" also inside the items of a list: on every path the routine hands the
    # list on to the generic descent (which splits keywords and visits the nested groups)
    REG.cases[(_RF + '_process_identifierlist', _c)].ghost = {'DESCENDED': '0'}
    REG.cases[(_RF + '_process_identifierlist', _c)].ghost_init = staticmethod(_ghost_handed)
    REG.cases[(_RF + '_process_identifierlist', _c)].ensures = ['DESCENDED >= 1', 'HANDED_ON(tlist)']
MORE_LAYOUT_CASES.append((_RF + '_process_identifierlist', 'shape: 2 items'))
MORE_LAYOUT_CASES.append((_RF + '_process_identifierlist', 'shape: 3 items'))


# --------------------------------------------------------------------------------- strip_whitespace routines on explicit shapes
# (C06: only whitespace tokens are removed / blanked; C10: the normal form is reached.  Shape cases are independent of how
# the routine is written - no loop ordinal, no local name - so they keep deciding after a rewrite of the routine.)

def _with_inline_on_shapes(q):
    """call-site model: on a node with explicit children the routine is executed in place; otherwise by its contract"""
    prev = REG.get(q)

    class _M:
        @staticmethod
        def model(ex, self_val, args, kw, st):
            from pyvc.models import call_repo_inline, repo_fn_node, apply_contract
            tl = args[0] if args else kw.get('tlist')
            if isinstance(tl, Rec) and st.objs[tl.oid].get('__shape__') is True:
                return call_repo_inline(ex, q, repo_fn_node(q), self_val, args, kw, st)
            if prev is not None and getattr(prev, 'model', None):
                return prev.model(ex, self_val, args, kw, st)
            if prev is not None:
                return apply_contract(ex, prev, q, repo_fn_node(q), self_val, args, kw, st)
            raise OutsideSubset('call of %s on a node whose children are not known' % q)
    REG[q] = _M


_SW = 'sqlparse.filters.others.StripWhitespaceFilter.'
_with_inline_on_shapes(_SW + '_stripws_default')


def make_ws_idlist(ex, st):
    """IdentifierList  A ws ws , ws B ws , ws ws C   (whitespace tokens: blanks or line breaks with arbitrary text)"""
    from contracts.sql import _mk_argument, _mk_leaf, _mk_node, _ws1
    T = ex.W.T
    a, b, c = (_mk_argument(ex, st, n) for n in ('itemA', 'itemB', 'itemC'))
    w = [_ws1(ex, st, 'ws%d' % i) for i in range(6)]
    c1, c2 = (_mk_leaf(ex, st, None, n, (T.Punctuation,), value=',') for n in ('comma1', 'comma2'))
    st.ghost.update({'A': a, 'B': b, 'C': c, 'C1': c1, 'C2': c2, 'W0': w[0], 'W1': w[1], 'W2': w[2], 'W3': w[3], 'W4': w[4]})
    return _mk_node(ex, st, ex.W.sql.IdentifierList, 'tlist', [a, w[0], w[1], c1, w[2], b, w[5], c2, w[3], w[4], c])


def _same(idx, name):
    return 'tlist.tokens[%d] is %s' % (idx, name)


_site_contract(_SW + '_stripws_identifierlist', {'self': make_filter('StripWhitespaceFilter'), 'tlist': make_ws_idlist},
               case='shape: A ws ws , ws B ws , ws ws C', raises=[], serves=('C06', 'C10'))
REG.cases[(_SW + '_stripws_identifierlist', 'shape: A ws ws , ws B ws , ws ws C')].ensures = [
    # C06: every significant token is still there, in order; C10: no whitespace in front of a comma, single blanks
    'len(tlist.tokens) == 8', _same(0, 'A'), _same(1, 'C1'), _same(2, 'W2'), _same(3, 'B'), _same(4, 'C2'),
    _same(5, 'W3'), _same(6, 'W4'), _same(7, 'C'), "W2.value == ' '", "W3.value == ' '", "W4.value == ''",
    'A.value == old(A.value)', 'B.value == old(B.value)', 'C.value == old(C.value)', "C1.value == ','", "C2.value == ','"]


def make_ws_paren(ex, st):
    """Parenthesis  ( ws ws X ws Y ws ws )"""
    from contracts.sql import _mk_argument, _mk_leaf, _mk_node, _ws1
    T = ex.W.T
    x, y = _mk_argument(ex, st, 'itemX'), _mk_argument(ex, st, 'itemY')
    st.assume(z3.Not(st.objs[y.oid]['is_group'].z))        # (a trailing group is the subject of the next case)
    w = [_ws1(ex, st, 'ws%d' % i) for i in range(5)]
    lp = _mk_leaf(ex, st, None, 'lp', (T.Punctuation,), value='(')
    rp = _mk_leaf(ex, st, None, 'rp', (T.Punctuation,), value=')')
    st.ghost.update({'X': x, 'Y': y, 'LP': lp, 'RP': rp, 'W2': w[2]})
    return _mk_node(ex, st, ex.W.sql.Parenthesis, 'tlist', [lp, w[0], w[1], x, w[2], y, w[3], w[4], rp])


_site_contract(_SW + '_stripws_parenthesis', {'self': make_filter('StripWhitespaceFilter'), 'tlist': make_ws_paren},
               case='shape: ( ws ws X ws Y ws ws )', raises=[], serves=('C06', 'C10'))
REG.cases[(_SW + '_stripws_parenthesis', 'shape: ( ws ws X ws Y ws ws )')].ensures = [
    # C10: no blank after ( or before ); C06: the significant tokens are untouched
    'len(tlist.tokens) == 5', _same(0, 'LP'), _same(1, 'X'), _same(2, 'W2'), _same(3, 'Y'), _same(4, 'RP'),
    "W2.value == ' '", 'X.value == old(X.value)', 'Y.value == old(Y.value)', "LP.value == '('", "RP.value == ')'"]


def make_ws_plain(ex, st):
    """a plain group  ws A ws ws B ws"""
    from contracts.sql import _mk_argument, _mk_node, _ws1
    a, b = _mk_argument(ex, st, 'itemA'), _mk_argument(ex, st, 'itemB')
    w = [_ws1(ex, st, 'ws%d' % i) for i in range(4)]
    st.ghost.update({'A': a, 'B': b, 'W0': w[0], 'W1': w[1], 'W2': w[2], 'W3': w[3]})
    return _mk_node(ex, st, ex.W.sql.Statement, 'tlist', [w[0], a, w[1], w[2], b, w[3]])


_site_contract(_SW + '_stripws_default', {'tlist': make_ws_plain}, case='shape: ws A ws ws B ws', raises=[],
               serves=('C06', 'C10'))
REG.cases[(_SW + '_stripws_default', 'shape: ws A ws ws B ws')].ensures = [
    'len(tlist.tokens) == 6', "W0.value == ''", "W1.value == ' '", "W2.value == ''", "W3.value == ' '",
    'A.value == old(A.value)', 'B.value == old(B.value)', _same(1, 'A'), _same(4, 'B')]

STRIPWS_SHAPE_CASES = [(_SW + '_stripws_identifierlist', 'shape: A ws ws , ws B ws , ws ws C'),
                       (_SW + '_stripws_parenthesis', 'shape: ( ws ws X ws Y ws ws )'),
                       (_SW + '_stripws_default', 'shape: ws A ws ws B ws')]


def make_nested_ws_shape(ex, st):
    """Statement  A ws Where[ WHERE ws COND ws ] B ws   - a nested group that ends in whitespace, and trailing whitespace"""
    from contracts.sql import _mk_argument, _mk_leaf, _mk_node, _ws1
    T, sql = ex.W.T, ex.W.sql
    a, b, c = (_mk_argument(ex, st, n) for n in ('itemA', 'itemB', 'cond'))
    for x in (a, b, c):
        st.assume(z3.Not(st.objs[x.oid]['is_group'].z))
    kw = _mk_leaf(ex, st, None, 'kw_where', (T.Keyword,), normalized='WHERE')
    w = [_ws1(ex, st, 'ws%d' % i) for i in range(4)]
    where = lambda g: _mk_node(ex, st, sql.Where, 'where', [kw, w[1], c, w[2]], g)    # noqa: E731
    st.ghost.update({'A': a, 'B': b, 'COND': c, 'KW': kw, 'W0': w[0], 'W1': w[1], 'W2': w[2], 'W3': w[3]})
    return _mk_node(ex, st, sql.Statement, 'stmt', [a, w[0], where, b, w[3]])


_with_inline_on_shapes(_SW + 'process')
_with_inline_on_shapes(_SW + '_stripws')
_site_contract(_SW + 'process', {'self': make_filter('StripWhitespaceFilter'), 'stmt': make_nested_ws_shape,
                                 'depth': lambda ex, st: 0},
               case='shape: A ws Where[WHERE ws COND ws] B ws', raises=[], serves=('C06', 'C10'))
_c = REG.cases[(_SW + 'process', 'shape: A ws Where[WHERE ws COND ws] B ws')]
_c.shape_case = True
_c.ensures = [
    # C10: the statement loses its trailing whitespace; C06: a nested group that ends in whitespace keeps it (it is what
    # separates its last token from the next token of the parent), every other token is the same object in place
    'result is stmt', 'len(stmt.tokens) == 4', _same(0, 'A').replace('tlist', 'stmt'), _same(1, 'W0').replace('tlist', 'stmt'),
    _same(3, 'B').replace('tlist', 'stmt'), 'isinstance(stmt.tokens[2], sql.Where)', 'len(stmt.tokens[2].tokens) == 4',
    'stmt.tokens[2].tokens[0] is KW', 'stmt.tokens[2].tokens[1] is W1', 'stmt.tokens[2].tokens[2] is COND',
    'stmt.tokens[2].tokens[3] is W2', "W0.value == ' '", "W1.value == ' '", "W2.value == ' '"]
STRIPWS_SHAPE_CASES.append((_SW + 'process', 'shape: A ws Where[WHERE ws COND ws] B ws'))


def make_operator_run(ex, st):
    """a plain group   A op1 op2 B ws op3 C   (operators / comparison signs with arbitrary texts, two of them adjacent)"""
    from contracts.sql import _mk_argument, _mk_leaf, _mk_node, _ws1
    T = ex.W.T
    a, b, c = (_mk_argument(ex, st, n) for n in ('itemA', 'itemB', 'itemC'))
    o1, o2, o3 = (_mk_leaf(ex, st, None, n, (T.Operator, T.Comparison)) for n in ('op1', 'op2', 'op3'))
    w = _ws1(ex, st, 'ws0')
    st.ghost.update({'A': a, 'B': b, 'C': c, 'O1': o1, 'O2': o2, 'O3': o3, 'W': w})
    return _mk_node(ex, st, ex.W.sql.Statement, 'tlist', [a, o1, o2, b, w, o3, c])


_SO = 'sqlparse.filters.others.SpacesAroundOperatorsFilter.'
_site_contract(_SO + '_process', {'tlist': make_operator_run}, case='shape: A op op B ws op C', raises=[], serves=('C10', 'C06'))
REG.cases[(_SO + '_process', 'shape: A op op B ws op C')].ensures = [
    # C10 "every operator is surrounded by whitespace": each of the three operators has a whitespace token on both sides
    # (existing whitespace is kept, none is doubled); C06: the significant tokens are the same objects in order
    'len(tlist.tokens) == 11', _same(0, 'A'), _same(2, 'O1'), _same(4, 'O2'), _same(6, 'B'), _same(7, 'W'), _same(8, 'O3'),
    _same(10, 'C'), 'tlist.tokens[1].is_whitespace', 'tlist.tokens[3].is_whitespace', 'tlist.tokens[5].is_whitespace',
    'tlist.tokens[9].is_whitespace', "tlist.tokens[1].value == ' '", "tlist.tokens[9].value == ' '",
    'FRESH(tlist.tokens[1])', 'FRESH(tlist.tokens[3])', 'FRESH(tlist.tokens[5])', 'FRESH(tlist.tokens[9])']
REG.cases[(_SO + '_process', 'shape: A op op B ws op C')].shape_case = True
SPACING_SHAPE_CASES = [(_SO + '_process', 'shape: A op op B ws op C')]


for _nw, _we in ((1, True),):
    _case = 'shape: %d WHEN%s' % (_nw, ' + ELSE' if _we else '')
    _site_contract(_RF + '_process_case', {'self': make_reindent, 'tlist': make_case_shape(_nw, _we)}, case=_case,
                   serves=('C06', 'C07', 'C10'))
    # C10 "every clause keyword starts its own line" also inside a CASE expression, whatever the options (compact or not):
    # the CASE group itself goes through the generic descent, which splits the keywords on its level
    REG.cases[(_RF + '_process_case', _case)].ghost_init = staticmethod(_ghost_handed)
    REG.cases[(_RF + '_process_case', _case)].ensures = ['HANDED_ON(tlist)']
    CASE_LAYOUT_CASES.append((_RF + '_process_case', _case))


# --------------------------------------------------------------------------------- strip_comments on an explicit shape (C08)

def make_comment_shape(ex, st):
    """Statement  A <comment> B ws <hint> ws <comment>   (comments as Comment groups, the hint as a leaf)"""
    from contracts.sql import _mk_argument, _mk_leaf, _mk_node, _ws1
    T, sql = ex.W.T, ex.W.sql
    a, b = _mk_argument(ex, st, 'itemA'), _mk_argument(ex, st, 'itemB')
    # A and B are ordinary tokens: not parentheses (the routine treats a neighbouring parenthesis specially)
    for x in (a, b):
        st.assume(z3.And(st.objs[x.oid]['value'].z != z3.StringVal('('), st.objs[x.oid]['value'].z != z3.StringVal(')')))
    c1t = _mk_leaf(ex, st, None, 'c1text', (T.Comment.Multiline, T.Comment.Single))
    c2t = _mk_leaf(ex, st, None, 'c2text', (T.Comment.Multiline, T.Comment.Single))
    hint = _mk_leaf(ex, st, None, 'hint', (T.Comment.Multiline.Hint, T.Comment.Single.Hint))
    c1 = lambda g: _mk_node(ex, st, sql.Comment, 'c1', [c1t], g)   # noqa: E731
    c2 = lambda g: _mk_node(ex, st, sql.Comment, 'c2', [c2t], g)   # noqa: E731
    w1, w2 = _ws1(ex, st, 'ws1'), _ws1(ex, st, 'ws2')
    st.ghost.update({'A': a, 'B': b, 'HINT': hint, 'W1': w1, 'W2': w2})
    return _mk_node(ex, st, sql.Statement, 'tlist', [a, c1, b, w1, hint, w2, c2])


_site_contract('sqlparse.filters.others.StripCommentsFilter._process', {'tlist': make_comment_shape},
               case='shape: A comment B ws hint ws comment', sites=COMMENT_SITES, serves=('C08',), raises=[])
REG.cases[('sqlparse.filters.others.StripCommentsFilter._process', 'shape: A comment B ws hint ws comment')].ensures = [
    # C08: every comment except the optimizer hint is gone, nothing else is: A, B, the hint and the original whitespace are
    # the same objects in the same order; where a comment separated two tokens a whitespace token stands instead
    'len(tlist.tokens) == 7', 'tlist.tokens[0] is A', 'tlist.tokens[1].is_whitespace == True', 'tlist.tokens[2] is B',
    'tlist.tokens[3] is W1', 'tlist.tokens[4] is HINT', 'tlist.tokens[5] is W2', 'tlist.tokens[6].is_whitespace == True',
    'A.value == old(A.value)', 'B.value == old(B.value)', 'HINT.value == old(HINT.value)']
COMMENT_SHAPE_CASES = [('sqlparse.filters.others.StripCommentsFilter._process', 'shape: A comment B ws hint ws comment')]


def make_comment_group_shape(ex, st):
    """Statement  SELECT ws <Comment group: ordinary comment, hint> ws X   (an ordinary comment directly followed by a hint,
    grouped into one Comment node)"""
    from contracts.sql import _mk_argument, _mk_leaf, _mk_node, _ws1
    T, sql = ex.W.T, ex.W.sql
    sel = _mk_leaf(ex, st, None, 'kw_select', (T.Keyword.DML,), normalized='SELECT')
    c = _mk_leaf(ex, st, None, 'ctext', (T.Comment.Multiline, T.Comment.Single))
    hint = _mk_leaf(ex, st, None, 'hint', (T.Comment.Multiline.Hint, T.Comment.Single.Hint))
    grp = lambda g: _mk_node(ex, st, sql.Comment, 'cgroup', [c, hint], g)   # noqa: E731
    x = _mk_argument(ex, st, 'itemX')
    st.assume(z3.And(st.objs[x.oid]['value'].z != z3.StringVal('('), st.objs[x.oid]['value'].z != z3.StringVal(')')))
    st.assume(z3.Not(st.objs[x.oid]['is_group'].z))
    w1, w2 = _ws1(ex, st, 'ws1'), _ws1(ex, st, 'ws2')
    st.ghost.update({'SEL': sel, 'HINT': hint, 'X': x})
    return _mk_node(ex, st, sql.Statement, 'stmt', [sel, w1, grp, w2, x])


_site_contract('sqlparse.filters.others.StripCommentsFilter.process',
               {'self': make_filter('StripCommentsFilter'), 'stmt': make_comment_group_shape},
               case='shape: comment group with a hint behind an ordinary comment', sites=COMMENT_SITES, serves=('C08',), raises=[])
_c = REG.cases[('sqlparse.filters.others.StripCommentsFilter.process', 'shape: comment group with a hint behind an ordinary comment')]
_c.shape_case = True
_c.ensures = [
    # C08 "removes every comment except optimizer hints": the hint survives although it stands behind an ordinary comment in
    # the same Comment group (groups are cleaned from the inside out)
    'len(stmt.tokens) == 5', 'stmt.tokens[0] is SEL', 'isinstance(stmt.tokens[2], sql.Comment)',
    'len(stmt.tokens[2].tokens) == 1', 'stmt.tokens[2].tokens[0] is HINT', 'stmt.tokens[4] is X', 'result is stmt']
COMMENT_SHAPE_CASES.append(('sqlparse.filters.others.StripCommentsFilter.process',
                            'shape: comment group with a hint behind an ordinary comment'))
