"""Sidecar contracts for sqlparse/lexer.py and utils.consume (evaluated by pyvc; never imported by the repo)."""
import z3

from pyvc.spec import contract
from pyvc.symex import SInt, SStr, SBool, STy, Rec, Opaque, Func, fresh, fresh_int, fresh_str, OutsideSubset
from pyvc.models import lib


# ----------------------------------------------------------------------------- trusted library model: re

def rexmatch_model(minwidth_ge1=True):
    """re.Pattern.match(text, pos): None, or a match m with pos <= m.end() <= len(text), m.group() == text[pos:m.end()],
    and m.end() - pos >= minwidth(pattern).  With table_ok the table's rules all have minwidth >= 1 (that is a
    separate structural obligation over the real SQL_REGEX)."""
    def call(ex, f, args, kw, st):
        lib('re.Pattern.match(text, pos) contract (DESIGN 4.4)')
        text, pos = args[0], args[1]
        s_none = st.fork()
        e = fresh('m_end', z3.IntSort())
        zt, zp = ex.z_str(text), ex.z_int(pos)
        lo = zp + 1 if minwidth_ge1 else zp
        st.assume(z3.And(e >= lo, e <= z3.Length(zt)))

        def m_end(ex_, self_, a, k, s):
            return [(s, SInt(e))]

        def m_group(ex_, self_, a, k, s):
            return [(s, SStr(z3.SubString(zt, zp, e - zp)))]
        m = ex.new_obj(st, 'match', {'__methods__': {'end': m_end, 'group': m_group}})
        return [(s_none, None), (st, m)]
    return call


def make_rule_table(ex, st, ok=True):
    """abstract SQL_REGEX table: unknown length, every entry (matcher, action) with action a _TokenType or the
    PROCESS_AS_KEYWORD marker (table_ok: discharged separately per real rule)"""
    from sqlparse import keywords
    n = fresh('n_rules', z3.IntSort())
    st.assume(n >= 0)

    def at(ex_, s, k):
        matcher = Opaque('rexmatch', {'call': rexmatch_model(ok)})
        a = fresh('action', ex_.W.TT)
        s2 = s.fork()
        s.assume(a != ex_.W.tt_none)
        return [(s, (matcher, STy(a))), (s2, (matcher, keywords.PROCESS_AS_KEYWORD))]
    return ex.new_obj(st, 'aseq', {'N': SInt(n), 'AT': at})


def make_lexer(table_ok=True):
    def mk(ex, st):
        from sqlparse.lexer import Lexer
        kw = make_kwdicts(ex, st)
        return ex.new_obj(st, 'Lexer', {'__class__': Lexer, '_SQL_REGEX': make_rule_table(ex, st, table_ok),
                                         '_keywords': kw})
    return mk


def make_kwdicts(ex, st):
    """abstract list of keyword dictionaries: unknown length; membership / lookup are uninterpreted functions of
    (dictionary index, word)"""
    n = fresh('n_dicts', z3.IntSort())
    st.assume(n >= 0)
    has = z3.Function('kw_has', z3.IntSort(), z3.StringSort(), z3.BoolSort())
    get = z3.Function('kw_get', z3.IntSort(), z3.StringSort(), ex.W.TT)

    def at(ex_, s, k):
        idx = ex_.z_int(k)

        def d_contains(ex2, d, item, s2):
            lib('dict.__contains__/__getitem__ (uninterpreted membership and lookup per dictionary)')
            return has(idx, ex2.z_str(item))

        def d_index(ex2, d, item, s2):
            res = []
            for s3, b in ex2.decide(s2, has(idx, ex2.z_str(item))):
                if b:
                    res.append((s3, STy(get(idx, ex2.z_str(item)))))
                else:
                    ex2.raise_on(s3, 'KeyError', 'kwdict')
            return res
        return [(s, Opaque('kwdict', {'idx': idx, 'contains': d_contains, 'index': d_index}))]
    return ex.new_obj(st, 'aseq', {'N': SInt(n), 'AT': at, 'HAS': has, 'GET': get})


# ----------------------------------------------------------------------------- contracts

@contract('sqlparse.lexer.Lexer.get_tokens', case='text is str')
class get_tokens_str:
    params = {'self': make_lexer(True), 'text': 'str', 'encoding': lambda ex, st: Opaque('any-encoding')}
    requires = []
    ghost = {'ACC': "''"}
    on_yield = "ACC = ACC + item[1]"
    # every yielded value is non-empty
    yield_asserts = ['len(item[1]) >= 1']
    # the for-else fallback (last yield in source order) yields exactly (Error, one character)
    yield_site_asserts = {'last': ['item[0] is tokens.Error', 'len(item[1]) == 1']}
    loops = {
        '0': {'inv': ['0 <= IT0.K', 'IT0.K <= len(text)', 'ACC == text[:IT0.K]',
                      'IT0.N == len(text)']},
        '0.0': {'inv': []},
    }
    ensures = ['ACC == old(text)']
    raises = []
    serves = ['C01', 'C02', 'C04', 'C19']
    witness_alphabet = ["'", '"', '$', '-', '/', '*', '\\', '\n', ' ', ';', 'a', '1', '\x00', '\ud800']


@contract('sqlparse.lexer.Lexer.is_keyword')
class is_keyword_c:
    """call-site contract: returns (some token type or Name, the word itself unchanged)"""
    params = {'self': make_lexer(True), 'value': 'str'}
    requires = []
    ensures = ['result[1] == value']
    raises = []

    @staticmethod
    def make_result(ex, st, env):
        return [(st, (STy(fresh('kwtype', ex.W.TT)), fresh_str('kwval')))]


@contract('sqlparse.utils.consume')
class consume_c:
    params = {'iterator': lambda ex, st: _mk_iter(ex, st), 'n': 'int'}
    requires = ['n >= 0']
    modifies = ['iterator.K']
    ensures = ['iterator.K == (old(iterator.K) + n if old(iterator.K) + n <= iterator.N else iterator.N)',
               'iterator.N == old(iterator.N)']
    raises = []

    @staticmethod
    def make_result(ex, st, env):
        return [(st, None)]


def _mk_iter(ex, st):
    k, n = fresh('it_k', z3.IntSort()), fresh('it_n', z3.IntSort())
    st.assume(z3.And(0 <= k, k <= n))

    def at(ex_, s, kk):
        return [(s, fresh_str('elem'))]
    return ex.new_obj(st, 'seq_iter', {'K': SInt(k), 'N': SInt(n), 'AT': at, 'SEQ': None})


@contract('sqlparse.lexer.tokenize')
class tokenize_c:
    """dataflow: tokenize(sql, encoding) returns get_default_instance().get_tokens(sql, encoding) unchanged"""
    params = {'sql': 'str', 'encoding': lambda ex, st: Opaque('any-encoding')}


# ----------------------------------------------------------------------------- is_keyword, full contract (C14)

def _kw_ghosts(ex, st):
    """ghost FIRST = index of the first dictionary listing upper(value) (N if none): a definitional extension;
    the three defining clauses are instantiated where the proof needs them (loop lemmas)"""
    kws = st.objs[st.env['self'].oid]['_keywords']
    o = st.objs[kws.oid]
    has, get, n = o['HAS'], o['GET'], o['N']
    val = ex.W.upper(st.env['value'].z)
    first = z3.Function('firsthit', z3.StringSort(), z3.IntSort())
    st.ghost['FIRST'] = SInt(first(val))
    st.ghost['NDICT'] = n
    st.ghost['HAS'] = Func('spec.HAS', model=lambda ex_, s_, a, k, s: [(s, SBool(has(ex_.z_int(a[0]), ex_.z_str(a[1]))))])
    st.ghost['GET'] = Func('spec.GET', model=lambda ex_, s_, a, k, s: [(s, STy(get(ex_.z_int(a[0]), ex_.z_str(a[1]))))])
    # clause (A) 0 <= FIRST <= N and clause (B) FIRST < N => has(FIRST, val): closed instances
    st.assume(z3.And(first(val) >= 0, first(val) <= n.z))
    st.assume(z3.Implies(first(val) < n.z, has(first(val), val)))


@contract('sqlparse.lexer.Lexer.is_keyword', case='full')
class is_keyword_full:
    params = {'self': make_lexer(True), 'value': 'str'}
    ghost_init = staticmethod(_kw_ghosts)
    requires = []
    loops = {'0': {'inv': ['IT0.K <= FIRST', 'IT0.N == NDICT'],
                   # clause (C) of the definition of FIRST instantiated at the loop index:
                   'lemmas': ['(not HAS(IT0.K, value.upper())) if (0 <= IT0.K and IT0.K < FIRST) else True']}}
    ensures = ['result[1] == value',
               'result[0] == (GET(FIRST, value.upper()) if FIRST < NDICT else tokens.Name)']
    raises = []
    serves = ['C14']


# ----------------------------------------------------------------------------- input normalisation (C19)

DECODE = z3.Function('decode', z3.IntSort(), z3.StringSort(), z3.StringSort())      # bytes id x codec name -> text
DECODABLE = z3.Function('decodable', z3.IntSort(), z3.StringSort(), z3.BoolSort())


def make_bytes(ex, st):
    """an arbitrary bytes object: decode(codec) is an uninterpreted partial function of (bytes, codec name);
    it raises UnicodeDecodeError (or LookupError for an unknown codec) where it is undefined; Latin-1 is total"""
    bid = z3.Int('bytes_id')

    def decode(ex_, self_, args, kw, s):
        lib('bytes.decode(codec): uninterpreted partial function; latin-1 decodes every byte string')
        codec = args[0]
        zc = ex_.z_str(codec)
        ok = DECODABLE(bid, zc)
        s.assume(DECODABLE(bid, z3.StringVal('latin-1')))
        res = []
        for s2, b in ex_.decide(s, ok):
            if b:
                res.append((s2, SStr(DECODE(bid, zc))))
            else:
                s3 = s2.fork()
                ex_.raise_on(s2, 'UnicodeDecodeError', 'undecodable')
                if not isinstance(codec, str):
                    ex_.raise_on(s3, 'LookupError', 'unknown codec')
        return res
    st.ghost['DEC'] = Func('spec.DEC', model=lambda e, s_, a, k, s: [(s, SStr(DECODE(bid, e.z_str(a[0]))))])
    st.ghost['DECODABLE'] = Func('spec.DECODABLE', model=lambda e, s_, a, k, s: [(s, SBool(DECODABLE(bid, e.z_str(a[0]))))])
    return Opaque('bytes', {'classes': [bytes], 'methods': {'decode': decode}})


def make_stream_input(ex, st):
    from io import StringIO
    content = z3.String('stream_content')

    def read(ex_, self_, args, kw, s):
        lib('TextIOBase.read(): returns the whole remaining text of the stream')
        return [(s, SStr(content))]
    st.ghost['CONTENT'] = SStr(content)
    return Opaque('stream', {'classes': [StringIO], 'methods': {'read': read}})


_LOOPS = get_tokens_str.loops


@contract('sqlparse.lexer.Lexer.get_tokens', case='bytes with encoding')
class get_tokens_bytes_enc:
    """bytes + encoding argument: decoded exactly once with that codec, then scanned losslessly"""
    params = {'self': make_lexer(True), 'text': make_bytes, 'encoding': 'str'}
    requires = ['len(encoding) >= 1']
    ghost = {'ACC': "''"}
    on_yield = get_tokens_str.on_yield
    yield_asserts = get_tokens_str.yield_asserts
    loops = _LOOPS
    ensures = ['ACC == DEC(encoding)']
    raises = ['UnicodeDecodeError', 'LookupError']
    serves = ['C19', 'C01']


@contract('sqlparse.lexer.Lexer.get_tokens', case='bytes without encoding')
class get_tokens_bytes_noenc:
    """bytes without encoding: UTF-8 if the bytes are valid UTF-8, otherwise Latin-1 (as documented); never raises"""
    params = {'self': make_lexer(True), 'text': make_bytes, 'encoding': 'none'}
    requires = []
    ghost = {'ACC': "''"}
    on_yield = get_tokens_str.on_yield
    yield_asserts = get_tokens_str.yield_asserts
    loops = _LOOPS
    ensures = ["ACC == (DEC('utf-8') if DECODABLE('utf-8') else DEC('latin-1'))"]
    raises = []
    serves = ['C19', 'C01']


@contract('sqlparse.lexer.Lexer.get_tokens', case='text stream')
class get_tokens_stream:
    """a text stream is read once and scanned like the same str"""
    params = {'self': make_lexer(True), 'text': make_stream_input, 'encoding': lambda ex, st: Opaque('any-encoding')}
    requires = []
    ghost = {'ACC': "''"}
    on_yield = get_tokens_str.on_yield
    yield_asserts = get_tokens_str.yield_asserts
    loops = _LOOPS
    ensures = ['ACC == CONTENT']
    raises = []
    serves = ['C19', 'C01']


@contract('sqlparse.lexer.Lexer.get_tokens', case='other input')
class get_tokens_other:
    """anything else is rejected with TypeError before scanning"""
    params = {'self': make_lexer(True), 'text': lambda ex, st: Opaque('other-object', {'classes': [object]}),
              'encoding': lambda ex, st: Opaque('any-encoding')}
    requires = []
    ghost = {'ACC': "''"}
    on_yield = get_tokens_str.on_yield
    ensures = ['False']          # no normal exit exists
    no_normal_exit = True
    raises = ['TypeError']
    serves = ['C19']
