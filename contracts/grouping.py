"""Sidecar contracts for sqlparse/engine/grouping.py."""
import z3

from pyvc.spec import contract, REG
from pyvc.symex import SInt, SStr, SBool, STy, Rec, LRef, Opaque, Func, fresh, OutsideSubset
from pyvc.heap import HeapExec, bind_elem_or_none
from contracts.sql import make_group
from pyvc.models import lib


_PURE = {}


class _PureBool:
    """call-site model of a pure predicate on tokens (frame: no store; checked structurally): an uninterpreted
    function of the token's identity, so that a second evaluation gives the same answer"""

    @staticmethod
    def model(ex, self_val, args, kw, st):
        tok = args[-1]
        f = st.objs.get(tok.oid, {}) if isinstance(tok, Rec) else {}
        if '__pos__' in f:
            fn = _PURE.setdefault('is_delimiter', z3.Function('is_delimiter', z3.IntSort(), z3.IntSort(), z3.BoolSort()))
            return [(st, SBool(fn(z3.IntVal(f['__base__']), f['__pos__'])))]
        return [(st, SBool(fresh('pure_pred', z3.BoolSort())))]


class _SubtreeOnly:
    """recursive call on a child: its frame is that child's own subtree; the list being scanned is untouched.
    The call is recorded (ghost) so that coverage obligations can speak about it."""

    @staticmethod
    def model(ex, self_val, args, kw, st):
        child = args[0]
        if isinstance(child, Rec) and st.objs[child.oid].get('tokens') is not None:
            ex.havoc_list_ext(st, st.objs[child.oid]['tokens'].lid)
        if isinstance(child, Rec):
            st.ghost['RECURSED'] = st.ghost.get('RECURSED', frozenset()) | {child.oid}
        return [(st, None)]


def _recursed(ex, self_val, args, kw, st):
    tok = args[0]
    return [(st, isinstance(tok, Rec) and tok.oid in st.ghost.get('RECURSED', ()))]


REG['sqlparse.engine.grouping._is_delimiter'] = _PureBool
REG['sqlparse.engine.grouping._group_matching'] = _SubtreeOnly


def make_cls_const(name):
    def mk(ex, st):
        return getattr(ex.W.sql, name)
    return mk


GM_LOOP = {'iter_post': [
    # C09 "later kinds are matched inside groups of earlier kinds": every visited child that is a group of another
    # class (and neither whitespace nor a delimiter of the enclosing group) is descended into
    'WAS_RECURSED(token) if (token.is_group and not token.is_whitespace and not isinstance(token, cls) '
    'and not _is_delimiter(tlist, token)) else True'],
    'inv': [
    # the current child list is: some already processed prefix, then exactly the not yet visited part of the snapshot
    'SUFFIX(tlist, IT0.K - tidx_offset, IT0.SEQ, IT0.K)',
    '0 <= tidx_offset', 'tidx_offset <= IT0.K',
    # the stack of open positions: strictly increasing, non-negative, all below the current position
    'SORTED(opens)', 'UB(opens) <= IT0.K - tidx_offset',
]}


def _gm_contract(clsname):
    ns = {
        '__doc__': 'index bookkeeping of the bracket/block matcher for class %s: at every group_tokens call '
                   '0 <= open_idx <= close_idx < len(tlist.tokens); the current list always is a processed prefix '
                   'followed by the unvisited rest of the snapshot (so that tidx = idx - tidx_offset is the position '
                   'of the visited token); the stack of open positions stays sorted and below the current position; '
                   'no exception escapes' % clsname,
        'exec_class': HeapExec,
        'params': {'tlist': make_group, 'cls': make_cls_const(clsname)},
        'int_lists': ('opens',),
        # C09: the group ends with the visited closing token (its position in the current list is close_idx)
        'callsite_asserts': {'group_tokens': ['tlist.tokens[close_idx] is token', 'close_idx > open_idx',
                                              # ... and it IS a closing token of the class (type and spelling)
                                              'token.match(*cls.M_CLOSE)']},
        # C09: only a token that matches the class's opening pattern (type and spelling) is remembered as an opener
        'append_asserts': {'opens': ['token.match(*cls.M_OPEN)', 'item == tidx']},
        'loops': {'0': GM_LOOP},
        'ghost_init': staticmethod(lambda ex, st: st.ghost.__setitem__('WAS_RECURSED', Func('spec.WAS_RECURSED', model=_recursed))),
        'requires': [], 'ensures': [], 'raises': [], 'serves': ['C03', 'C09', 'C02', 'C07'],
    }
    cls = type('group_matching_' + clsname, (), ns)
    REG.add('sqlparse.engine.grouping._group_matching', clsname, cls)
    return cls


for _n in ('Parenthesis', 'SquareBrackets', 'Case', 'If', 'For', 'Begin'):
    _gm_contract(_n)


# --------------------------------------------------------------------------------- the nine simple passes

def _pass_contract(name, loops=None, raises=(), tlist=None, extra=None, case=None):
    """call-site obligations of a simple grouping pass: at every group_tokens call 0 <= start <= end < len (so that the
    proved group_tokens contract applies: Inv and text preserved), and no exception escapes"""
    q = 'sqlparse.engine.grouping.' + name
    ns = {'__doc__': _pass_contract.__doc__, 'exec_class': HeapExec, 'params': {'tlist': tlist or make_group},
          'loops': loops or {}, 'requires': [], 'ensures': [], 'raises': list(raises), 'serves': ['C02', 'C03', 'C07']}
    ns.update(extra or {})
    cls = type('pass_' + name, (), ns)
    REG.add(q, case or 'call sites', cls)
    return cls


_W = {'0': {'bind': bind_elem_or_none('tlist', 'tidx', 'token')}}
def _ident_ghost(ex, st):
    T = ex.W.T
    st.ghost['NAMEP'] = ex.spec_fn('NEXTBY_PRED', [], {'i': None, 'm': None, 't': (T.String.Symbol, T.Name)}, st)[0][1]


_pass_contract('group_identifier', loops={'0': {
    'bind': bind_elem_or_none('tlist', 'tidx', 'token'),
    # coverage: every Name / quoted-symbol leaf at this level becomes an Identifier node (C12 reads names from them)
    'inv': ['NOMATCH(NAMEP, tlist, 0, len(tlist.tokens)) if token is None else NOMATCH(NAMEP, tlist, 0, tidx)']}},
    extra={'ghost_init': staticmethod(_ident_ghost), 'ensures': ['NOMATCH(NAMEP, tlist, 0, len(tlist.tokens))']})
_pass_contract('group_over', loops=_W)
_pass_contract('group_aliased', loops=_W)
_pass_contract('group_order', loops=_W)
_pass_contract('align_comments', loops=_W)
_pass_contract('group_comments', loops={'0': {
    'bind': bind_elem_or_none('tlist', 'tidx', 'token'),
    # established by token_next_by(t=T.Comment): the token at tidx is comment-typed
    'inv': ['token is None or token.ttype in T.Comment']}})
_pass_contract('group_values', loops={'0': {
    'bind': bind_elem_or_none('tlist', 'tidx', 'token'),
    'inv': ['tidx is None or (start_idx is not None and start_idx <= tidx)',
            'end_idx == -1 or (start_idx is not None and 0 <= start_idx and start_idx <= end_idx '
            'and end_idx < len(tlist.tokens))']}})
_pass_contract('group_functions', loops={'0': {'arbitrary': True}, '1': {'bind': bind_elem_or_none('tlist', 'tidx', 'token')}})


def make_plain_group(ex, st):
    """a group whose class uses the default _groupable_tokens (all children): Statement, Identifier, ... (not the
    bracket / block classes, whose variant excludes the delimiters and needs the bracket shape B)"""
    g = make_group(ex, st, 'tlist')
    W = ex.W
    sql = W.sql
    special = [k for k in W.classes if '_groupable_tokens' in vars(k) and k is not sql.TokenList]
    z = st.objs[g.oid]['CLS']
    for k in W.classes:
        if any(issubclass(k, s_) for s_ in special):
            st.assume(z != W.cls_const[k])
    return g


def _where_ghost(ex, st):
    # the predicate "is an ungrouped WHERE keyword" exactly as group_where searches for it
    st.ghost['OPENP'] = ex.spec_fn('NEXTBY_PRED', [], {'i': None, 'm': ex.W.sql.Where.M_OPEN, 't': None}, st)[0][1]
    # "is one of the keywords that end a WHERE clause" exactly as group_where searches for it
    st.ghost['CLOSEP'] = ex.spec_fn('NEXTBY_PRED', [], {'i': None, 'm': ex.W.sql.Where.M_CLOSE, 't': None}, st)[0][1]


_pass_contract('group_where', tlist=make_plain_group, loops={'0': {
    'bind': bind_elem_or_none('tlist', 'tidx', 'token'),
    # coverage (C13 "the Where node spans from WHERE ..." needs every WHERE to become a node): no ungrouped WHERE
    # keyword is left behind the cursor
    'inv': ['NOMATCH(OPENP, tlist, 0, len(tlist.tokens)) if token is None else NOMATCH(OPENP, tlist, 0, tidx)',
            # the cursor stands on an ungrouped WHERE keyword (result of the first-match search)
            'token is None or MATCH(OPENP, tlist, tidx)']}},
    extra={'ghost_init': staticmethod(_where_ghost),
           'ensures': ['NOMATCH(OPENP, tlist, 0, len(tlist.tokens))'],
           # extent (C13 "spans from WHERE up to, not including, the next closing keyword at the same level, or else to the
           # end"): the grouped range starts at a WHERE keyword, contains no closing keyword behind it, and is followed
           # directly by a closing keyword or by nothing
           'callsite_asserts': {'group_tokens': [
               'MATCH(OPENP, tlist, tidx)',
               'NOMATCH(CLOSEP, tlist, tidx + 1, eidx + 1)',
               'eidx + 1 == len(tlist.tokens) or MATCH(CLOSEP, tlist, eidx + 1)']}})


def make_bracket_group(ex, st):
    """a Parenthesis / SquareBrackets / If / For / Case / Begin node (bracket shape B: it has its two delimiters): its
    _groupable_tokens are the children between the delimiters"""
    g = make_group(ex, st, 'tlist')
    W = ex.W
    special = [k for k in W.classes if '_groupable_tokens' in vars(k) and k is not W.sql.TokenList]
    z = st.objs[g.oid]['CLS']
    st.assume(z3.Or(*[z == W.cls_const[k] for k in special]))
    return g


def _where_ghost_bracket(ex, st):
    _where_ghost(ex, st)
    tl = st.env['tlist']
    lst = ex.getattr(tl, 'tokens', st)
    n = ex.zlen(st, lst)
    st.assume(n >= 2)           # (also stated under `requires`)
    r = ex.elem_at(st, lst, z3.simplify(n - 1))
    assert len(r) == 1
    st.ghost['LAST'] = r[0][1]  # the closing delimiter: the same object throughout (the pass never groups it)


_WHERE_BRACKET_LEMMAS = [
    # definition of MATCH for the concrete predicate at the last position
    'MATCH(OPENP, tlist, len(tlist.tokens) - 1) == OPENP(tlist.tokens[len(tlist.tokens) - 1])']

_pass_contract('group_where', tlist=make_bracket_group, case='call sites, inside a bracket or block group', loops={'0': {
    'bind': bind_elem_or_none('tlist', 'tidx', 'token'),
    'lemmas': _WHERE_BRACKET_LEMMAS,
    'inv': [# bracket shape B is kept: both delimiters stay where they are and neither is a WHERE keyword
            # (ENDS_WITH first: it fixes the representation of the list the other invariants speak about)
            'ENDS_WITH(tlist, LAST)', 'len(tlist.tokens) >= 2', 'NOMATCH(OPENP, tlist, 0, 1)', 'not OPENP(LAST)',
            'NOMATCH(OPENP, tlist, 0, len(tlist.tokens)) if token is None else NOMATCH(OPENP, tlist, 0, tidx)',
            'token is None or MATCH(OPENP, tlist, tidx)']}},
    extra={'ghost_init': staticmethod(_where_ghost_bracket),
           # bracket shape B (established by _group_matching): at least the two delimiters, neither of which is a WHERE keyword
           'requires': ['len(tlist.tokens) >= 2', 'not MATCH(OPENP, tlist, 0)', 'not OPENP(LAST)'],
           'ensures': ['NOMATCH(OPENP, tlist, 0, len(tlist.tokens))'],
           # extent: "... or else to the end of the enclosing parenthesis": the clause stops in front of the closing delimiter
           'callsite_asserts': {'group_tokens': [
               'MATCH(OPENP, tlist, tidx)',
               'NOMATCH(CLOSEP, tlist, tidx + 1, eidx + 1)',
               'eidx + 1 == len(tlist.tokens) - 1 or MATCH(CLOSEP, tlist, eidx + 1)',
               'eidx + 1 <= len(tlist.tokens) - 1']}})


# --------------------------------------------------------------------------------- _group (the infix joiner)

def make_pure_pred(name):
    """a closure parameter that is a predicate on one token (or None) without effect on the tree: every call returns an
    unknown boolean (no consistency between calls is assumed: `post` may re-type a token between two calls)"""
    def mk(ex, st):
        def model(ex_, self_val, args, kw, s):
            return [(s, SBool(fresh('P_' + name, z3.BoolSort())))]
        return Func('param.' + name, model=model)
    return mk


def make_post_G(ex, st):
    """the generic closure contract G of `post` (every instantiation is checked against it at its _group call, see
    _GroupCallsite): post(tlist, pidx, tidx, nidx) returns (f, t) with 0 <= f <= tidx <= t < len(tlist.tokens); no
    effect on the tree except stores to the `ttype` field of tokens"""
    def model(ex_, self_val, args, kw, s):
        tl, pidx, tidx, nidx = args
        f, t = fresh('from_idx', z3.IntSort()), fresh('to_idx', z3.IntSort())
        # the only effect G allows: re-typing tokens (group_operator stores tlist[tidx].ttype); `ttype` is from now on
        # unknown for every token (is_whitespace and the other flags are set by the constructor only)
        s.ghost['__taint__'] = s.ghost.get('__taint__', frozenset()) | {'ttype'}
        n = ex_.zlen(s, ex_.getattr(tl, 'tokens', s))
        s.assume(z3.And(0 <= f, f <= ex_.z_int(tidx), ex_.z_int(tidx) <= t, t < n))
        return [(s, (SInt(f), SInt(t)))]
    return Func('param.post', model=model)


def _bind_prev(ex, head):
    """after the havoc the pair (pidx, prev_) is (None, None) or (an int, some token)"""
    s_none = head.fork()
    s_none.env['pidx'] = None
    s_none.env['prev_'] = None
    s = head
    s.env['pidx'] = SInt(fresh('pidx', z3.IntSort()))
    s.env['prev_'] = ex.new_token(s, {'CLS': fresh('prev_cls', ex.W.CLS), 'is_group': SBool(fresh('prev_isg', z3.BoolSort())),
                                     'ttype': STy(fresh('prev_tt', ex.W.TT)), 'value': SStr(fresh('prev_val', z3.StringSort())),
                                     'is_whitespace': False, 'parent': Opaque('some-parent')})
    return [s_none, s]


def _make_bool(name):
    return lambda ex, st: SBool(z3.Bool('in_' + name))


@contract('sqlparse.engine.grouping._group', case='generic closures')
class group_generic:
    """index bookkeeping of the infix joiner for ANY class, any predicates match / valid_prev / valid_next without effect
    and any `post` that satisfies the closure contract G (0 <= from <= tidx <= to < len): at every group_tokens call
    0 <= from_idx <= to_idx < len(tlist.tokens) and no exception escapes.  Invariants (DESIGN A.5; absorbed_to is the
    position in the snapshot of the last token moved into a group): the current list is a processed prefix followed by the
    snapshot from max(idx, absorbed_to + 1) on (J1/J2); pidx <= max(idx, absorbed_to) - offset (J3).  The tokens of the
    snapshot in [idx, absorbed_to) are skipped explicitly, which makes their stale positions harmless (before the
    repair this was the invariant J4 "they are whitespace", which group_assignment violated)."""
    exec_class = HeapExec
    params = {'tlist': make_group, 'cls': lambda ex, st: __import__('contracts.sql', fromlist=['make_cls']).make_cls(ex, st),
              'match': make_pure_pred('match'), 'valid_prev': make_pure_pred('valid_prev'),
              'valid_next': make_pure_pred('valid_next'), 'post': make_post_G,
              'extend': _make_bool('extend'), 'recurse': _make_bool('recurse')}
    callsite_asserts = {'group_tokens': [
        'from_idx <= tidx', 'tidx <= to_idx',
        # C09 "later passes ... never take the delimiters of the enclosing group": no element of the grouped range
        # [from_idx, to_idx] satisfies the guard's predicate _is_delimiter(tlist, .)  (GENPRED0 = the element
        # expression of the real any(...) guard, as a predicate)
        'NOMATCH(GENPRED0, tlist, from_idx, to_idx + 1)']}
    ghost_init = staticmethod(lambda ex, st: st.ghost.__setitem__('WAS_RECURSED', Func('spec.WAS_RECURSED', model=_recursed)))
    loops = {'0': {
        'bind': _bind_prev,
        # "later passes join neighbours also inside groups of other classes": every visited child that is a group of
        # another class is descended into, unless it is whitespace, already absorbed, or recursion is switched off
        'iter_post': ['WAS_RECURSED(token) if (recurse and token.is_group and not isinstance(token, cls) '
                      'and not token.is_whitespace and idx - iter_start(tidx_offset) >= 0 '
                      'and idx >= iter_start(absorbed_to)) else True'],
        'inv': [
            '-1 <= absorbed_to', 'absorbed_to < IT0.N', '0 <= tidx_offset', 'tidx_offset <= max(IT0.K, absorbed_to)',
            'SUFFIX(tlist, max(IT0.K, absorbed_to + 1) - tidx_offset, IT0.SEQ, max(IT0.K, absorbed_to + 1))',
            'prev_ is None or (pidx is not None and 0 <= pidx and pidx <= max(IT0.K, absorbed_to) - tidx_offset)',
            # C11: every kind of whitespace (blank, tab, line break) is skipped alike: the remembered neighbour of an
            # infix token is never a whitespace token
            'prev_ is None or prev_.is_whitespace == False',
        ]}}
    requires = []
    # C13/C09 "for every input": whatever the arguments, the joiner does not leave before it has looked at the children
    # (an early exit - a recursion-depth or size guard - leaves the constructs of that list ungrouped)
    ensures = ['REACHED_LOOP(0) or len(old(tlist).tokens) == 0']
    raises = []
    serves = ['C03', 'C02', 'C07', 'C09', 'C13']


class _GroupCallsite:
    """a call of _group.  Inside _group itself (the recursive call on a child) it is the child's-subtree-only model.  At
    the call in one of the eleven instantiating passes it CHECKS that the closures handed over satisfy what the proof of
    _group[generic closures] assumes about them:
      * match / valid_prev / valid_next run without exception and without any store on an arbitrary child (valid_next
        also on None, which is what token_next returns at the end of the list);
      * post(tlist, pidx, tidx, nidx), called where _group calls it (0 <= pidx <= tidx < nidx < len or nidx None,
        valid_next(next_) true), returns (f, t) with 0 <= f <= t < len  [the precondition of group_tokens]
        and f <= tidx <= t                                               [closure contract G: what the invariants need];
        its only store is to a `ttype` field.
    Then the whole list of tlist is unknown (restructured by the pass)."""

    @staticmethod
    def model(ex, self_val, args, kw, st):
        if ex.fn.endswith('grouping._group'):
            return _SubtreeOnly.model(ex, self_val, args, kw, st)
        from pyvc.models import bind_params, _const_default, repo_fn_node
        from pyvc.symex import PyExc
        from pyvc import smt
        node = repo_fn_node('sqlparse.engine.grouping._group')
        env = bind_params(ex, node, None, args, kw, st, lambda d: _const_default(ex, d, None))
        tl = env['tlist']
        n_call = st.ghost.get('__ngroupcalls__', 0)
        st.ghost['__ngroupcalls__'] = n_call + 1
        tag = '%s/call:_group#%d' % (ex.fn, n_call)
        lst = ex.getattr(tl, 'tokens', st)

        def arbitrary_child(s, name):
            k = fresh(name, z3.IntSort())
            s.assume(z3.And(k >= 0, k < ex.zlen(s, lst)))
            return k, ex.elem_at(s, lst, k)

        def run_pred(pname, s, arg, what):
            """call a predicate closure; an exception is a failed obligation; returns [(state, truth)]"""
            out = []
            try:
                for s2, v in ex.call(env[pname], [arg], {}, s):
                    out.append((s2, ex.truth(v, s2)))
                ex.goal('%s.%s total on %s' % (tag, pname, what), s, True, {})
            except PyExc as e:
                ex.goal('%s.%s total on %s' % (tag, pname, what), s, False, {'exception': e.cls_name, 'msg': str(e.msg)[:80]})
            return out

        saved_sites = getattr(ex.contract, 'sites', None)
        ex.contract.sites = {'store:ttype': [], '__closed__': True}
        try:
            base = st.fork()
            if not smt.feasible(list(base.pc) + [ex.zlen(base, lst) >= 1]):
                raise OutsideSubset('_group call on a provably empty list')
            base.assume(ex.zlen(base, lst) >= 1)
            for pname in ('match', 'valid_prev', 'valid_next'):
                s0 = base.fork()
                for s1, e in arbitrary_child(s0, 'k_' + pname)[1]:
                    run_pred(pname, s1, e, 'an arbitrary child')
            run_pred('valid_next', base.fork(), None, 'None')
            # post, in the states in which _group calls it
            for with_next in (True, False):
                s0 = base.fork()
                pidx, tidx = fresh('g_pidx', z3.IntSort()), fresh('g_tidx', z3.IntSort())
                n = ex.zlen(s0, lst)
                s0.assume(z3.And(0 <= pidx, pidx <= tidx, tidx < n))
                if with_next:
                    nidx = fresh('g_nidx', z3.IntSort())
                    s0.assume(z3.And(tidx < nidx, nidx < n))
                    starts = [(s1, SInt(nidx), e) for s1, e in ex.elem_at(s0, lst, nidx)]
                else:
                    starts = [(s0, None, None)]
                for s1, zn, next_ in starts:
                    if not smt.feasible(s1.pc):
                        continue
                    for s2, ok in run_pred('valid_next', s1, next_, 'the next token'):
                        s2.assume(z3.BoolVal(ok) if isinstance(ok, bool) else ok)
                        if not smt.feasible(s2.pc):
                            continue
                        try:
                            res = ex.call(env['post'], [tl, SInt(pidx), SInt(tidx), zn], {}, s2)
                        except PyExc as e:
                            ex.goal('%s.post raises nothing' % tag, s2, False, {'exception': e.cls_name, 'msg': str(e.msg)[:80]})
                            continue
                        for s3, r in res:
                            if not (isinstance(r, tuple) and len(r) == 2):
                                raise OutsideSubset('post returns %r' % (r,))
                            f, t = r
                            if f is None or t is None:
                                ex.goal('%s.post returns integer positions' % tag, s3, False, {'result': repr(r)})
                                continue
                            zf, zt = ex.z_int(f), ex.z_int(t)
                            n3 = ex.zlen(s3, lst)
                            ex.goal('%s.post: 0 <= from_idx <= to_idx < len(tlist.tokens)' % tag, s3,
                                    z3.And(0 <= zf, zf <= zt, zt < n3), {'hard': True})
                            ex.goal('%s.post satisfies the closure contract G (from_idx <= tidx <= to_idx)' % tag,
                                    s3, z3.And(zf <= tidx, tidx <= zt), {'closure_contract': 'G'})
        finally:
            if saved_sites is None:
                try:
                    del ex.contract.sites
                except AttributeError:
                    pass
            else:
                ex.contract.sites = saved_sites
        ex.havoc_list_ext(st, lst.lid)
        st.ghost['__taint__'] = st.ghost.get('__taint__', frozenset()) | {'ttype', 'value', 'parent', '#children'}
        return [(st, None)]


REG['sqlparse.engine.grouping._group'] = _GroupCallsite

GROUP_INSTANCES = ['group_typecasts', 'group_tzcasts', 'group_typed_literal', 'group_period', 'group_as', 'group_assignment',
                   'group_comparison', 'group_arrays', 'group_operator', 'group_identifier_list']
for _n in GROUP_INSTANCES:
    _pass_contract(_n, case='closures')


# --------------------------------------------------------------------------------- _is_delimiter (C09)

def _make_tlist_of(clsname):
    def mk(ex, st):
        g = make_group(ex, st, 'tlist')
        st.assume(st.objs[g.oid]['CLS'] == ex.W.cls_const[getattr(ex.W.sql, clsname)])
        return g
    return mk


def _make_any_child_or_token(ex, st):
    """any token object: a leaf or a group, with arbitrary type and text"""
    W = ex.W
    tt = fresh('tok_tt', W.TT)
    isg = fresh('tok_isg', z3.BoolSort())
    st.assume(isg == (tt == W.tt_none))
    val = fresh('tok_val', z3.StringSort())
    norm = fresh('tok_norm', z3.StringSort())
    return ex.new_token(st, {'CLS': fresh('tok_cls', W.CLS), 'value': SStr(val), 'TXT': SStr(val), 'is_group': SBool(isg),
                             'ttype': STy(tt), 'parent': Opaque('some-parent'),
                             'is_whitespace': SBool(ex._b(ex.contains(STy(tt), W.T.Whitespace, st))),
                             'is_keyword': SBool(ex._b(ex.contains(STy(tt), W.T.Keyword, st))),
                             'is_newline': False, 'normalized': SStr(norm)})


DELIMITER_CASES = []
for _n in ('Parenthesis', 'SquareBrackets', 'Case', 'If', 'For', 'Begin'):
    _ns = {'__doc__': 'C09 "each such node starts with its opening token and, ignoring comments attached after it, ends '
                      'with its closing token": inside a %s every leaf that matches the class\'s closing pattern (wherever it '
                      'stands among the children - comments may follow it) and the first child are delimiters, which the '
                      'joining passes must leave in place; a group child never is' % _n,
           'exec_class': HeapExec, 'params': {'tlist': _make_tlist_of(_n), 'token': _make_any_child_or_token},
           'requires': [],
           'ensures': ['result == True if (not token.is_group and token.match(*tlist.M_CLOSE)) else True',
                       'result == False if token.is_group else True',
                       'result == False if (not token.is_group and not token.match(*tlist.M_CLOSE) '
                       'and token is not tlist.tokens[0]) else True'],
           'raises': [], 'serves': ['C09']}
    REG.add('sqlparse.engine.grouping._is_delimiter', _n, type('is_delimiter_' + _n, (), _ns))
    DELIMITER_CASES.append(('sqlparse.engine.grouping._is_delimiter', _n))


class is_delimiter_first:
    """the first child of a bracket / block group (its opening token) is a delimiter"""
    exec_class = HeapExec
    params = {'tlist': make_bracket_group, 'token': lambda ex, st: _first_leaf_child(ex, st)}
    requires = []
    ensures = ['result == True']
    raises = []
    serves = ['C09']


def _first_leaf_child(ex, st):
    tl = st.env['tlist']
    lst = ex.getattr(tl, 'tokens', st)
    r = ex.elem_at(st, lst, z3.IntVal(0))
    assert len(r) == 1
    e = r[0][1]
    isg = st.objs[e.oid]['is_group']
    st.assume(z3.Not(ex.z_bool(isg)) if hasattr(ex, 'z_bool') else z3.Not(isg.z))
    return e


REG.add('sqlparse.engine.grouping._is_delimiter', 'first child', is_delimiter_first)
DELIMITER_CASES.append(('sqlparse.engine.grouping._is_delimiter', 'first child'))


# --------------------------------------------------------------------------------- group_where on explicit shapes (C13)
# (rename-robust companions of the invariant-based cases above: no loop ordinal, no local name)

def _where_shape(kind):
    def mk(ex, st):
        from contracts.sql import _mk_leaf, _mk_node, _mk_argument, _ws1
        W = ex.W
        T, sql = W.T, W.sql
        kw = lambda word, nm, tt=T.Keyword: _mk_leaf(ex, st, None, nm, (tt,), normalized=word)   # noqa: E731
        sel, a = kw('SELECT', 'kw_select', T.Keyword.DML), _mk_argument(ex, st, 'item')
        frm, t = kw('FROM', 'kw_from'), _mk_argument(ex, st, 'table')
        whr, c = kw('WHERE', 'kw_where'), _mk_argument(ex, st, 'cond')
        w = [_ws1(ex, st, 'ws%d' % i) for i in range(8)]
        gh = {'WHERE': whr, 'COND': c, 'W5': w[5], 'W6': w[6]}
        head = [sel, w[0], a, w[1], frm, w[2], t, w[3]]
        if kind == 'closing keyword':
            close = kw(sorted(x for x in sql.Where.M_CLOSE[1])[0], 'kw_close')
            # any of the closing keywords of the property
            nz = st.objs[close.oid]['normalized'] = SStr(fresh('close_norm', z3.StringSort()))
            st.assume(z3.Or(*[nz.z == z3.StringVal(x) for x in ('ORDER BY', 'GROUP BY', 'LIMIT', 'UNION', 'EXCEPT', 'HAVING',
                                                             'RETURNING', 'INTO')]))
            x = _mk_argument(ex, st, 'after')
            gh.update({'CLOSE': close})
            items = head + [whr, w[4], c, w[5], close, w[6], x]
            node = _mk_node(ex, st, sql.Statement, 'tlist', items)
        elif kind == 'end of statement':
            items = head + [whr, w[4], c, w[5]]
            node = _mk_node(ex, st, sql.Statement, 'tlist', items)
        else:   # inside a parenthesis
            lp = _mk_leaf(ex, st, None, 'lp', (T.Punctuation,), value='(')
            rp = _mk_leaf(ex, st, None, 'rp', (T.Punctuation,), value=')')
            gh.update({'RP': rp})
            node = _mk_node(ex, st, sql.Parenthesis, 'tlist', [lp] + head + [whr, w[4], c, w[5], rp])
        st.ghost.update(gh)
        return node
    return mk


WHERE_SHAPE_CASES = []
for _kind, _ens in (
        ('closing keyword', ['len(tlist.tokens) == 12', 'isinstance(tlist.tokens[8], sql.Where)', 'len(tlist.tokens[8].tokens) == 4',
                             'tlist.tokens[8].tokens[0] is WHERE', 'tlist.tokens[8].tokens[2] is COND',
                             'tlist.tokens[8].tokens[3] is W5', 'tlist.tokens[9] is CLOSE']),
        ('end of statement', ['len(tlist.tokens) == 9', 'isinstance(tlist.tokens[8], sql.Where)', 'len(tlist.tokens[8].tokens) == 4',
                              'tlist.tokens[8].tokens[0] is WHERE', 'tlist.tokens[8].tokens[2] is COND']),
        ('inside a parenthesis', ['len(tlist.tokens) == 11', 'isinstance(tlist.tokens[9], sql.Where)',
                                  'len(tlist.tokens[9].tokens) == 4', 'tlist.tokens[9].tokens[0] is WHERE',
                                  'tlist.tokens[9].tokens[2] is COND', 'tlist.tokens[10] is RP'])):
    _ns = {'__doc__': 'C13 "the Where node spans from WHERE up to, not including, the next closing keyword at the same level, or '
                      'else to the end of the enclosing parenthesis or statement": SELECT item FROM table WHERE cond, %s; the '
                      'Where node is exactly [WHERE ws cond ws] and what follows it stays a sibling' % _kind,
           'exec_class': HeapExec, 'params': {'tlist': _where_shape(_kind)}, 'requires': [], 'ensures': _ens, 'raises': [],
           'serves': ['C13']}
    REG.add('sqlparse.engine.grouping.group_where', 'shape: ' + _kind, type('group_where_shape', (), _ns))
    WHERE_SHAPE_CASES.append(('sqlparse.engine.grouping.group_where', 'shape: ' + _kind))


# --------------------------------------------------------------------------------- the joiner passes on explicit shapes (C12, C13)
# On a node with an explicit children list `_group` and `_is_delimiter` are executed in place (every loop runs over known
# elements), so a shape case of a pass decides WHICH tokens it groups - the part that the generic closure contract of
# `_group` leaves open.

def _inline_on_shapes(q, argpos=0):
    prev = REG.get(q)

    class _M:
        @staticmethod
        def model(ex, self_val, args, kw, st):
            from pyvc.models import call_repo_inline, repo_fn_node
            tl = args[argpos] if len(args) > argpos else kw.get('tlist')
            if isinstance(tl, Rec) and st.objs[tl.oid].get('__shape__') is True and getattr(ex.top_contract, 'shape_case', False):
                return call_repo_inline(ex, q, repo_fn_node(q), self_val, args, kw, st)
            return prev.model(ex, self_val, args, kw, st)
    REG[q] = _M


_inline_on_shapes('sqlparse.engine.grouping._group')
_inline_on_shapes('sqlparse.engine.grouping._is_delimiter')


def _ident(ex, st, name, parts):
    """Identifier node with explicit children"""
    from contracts.sql import _mk_node
    return lambda g: _mk_node(ex, st, ex.W.sql.Identifier, name, parts, g)


def _stmt_around(ex, st, middle, gh):
    """SELECT ws <middle...> ws FROM ws Identifier(t)  as a Statement with explicit children"""
    from contracts.sql import _mk_leaf, _mk_node, _ws1
    T, sql = ex.W.T, ex.W.sql
    sel = _mk_leaf(ex, st, None, 'kw_select', (T.Keyword.DML,), normalized='SELECT')
    frm = _mk_leaf(ex, st, None, 'kw_from', (T.Keyword,), normalized='FROM')
    tn = _mk_leaf(ex, st, None, 'tname', (T.Name,), name_leaf=True)
    gh.update({'SEL': sel, 'FROM': frm})
    st.ghost.update(gh)
    return _mk_node(ex, st, sql.Statement, 'tlist',
                    [sel, _ws1(ex, st, 'wsA')] + middle + [_ws1(ex, st, 'wsB'), frm, _ws1(ex, st, 'wsC'), _ident(ex, st, 'tident', [tn])])


def _name(ex, st, nm):
    from contracts.sql import _mk_leaf
    return _mk_leaf(ex, st, None, nm, (ex.W.T.Name, ex.W.T.String.Symbol), name_leaf=True)


def _shape_period(ex, st):
    from contracts.sql import _mk_leaf
    q_, n_ = _name(ex, st, 'qual'), _name(ex, st, 'name')
    dot = _mk_leaf(ex, st, None, 'dot', (ex.W.T.Punctuation,), value='.')
    return _stmt_around(ex, st, [q_, dot, n_], {'Q': q_, 'DOT': dot, 'N': n_})


def _shape_identifier(ex, st):
    n_ = _name(ex, st, 'name')
    return _stmt_around(ex, st, [n_], {'N': n_})


def _shape_as(ex, st):
    from contracts.sql import _mk_leaf, _ws1
    n_, a_ = _name(ex, st, 'name'), _name(ex, st, 'alias')
    askw = _mk_leaf(ex, st, None, 'kw_as', (ex.W.T.Keyword,), normalized='AS')
    w1, w2 = _ws1(ex, st, 'ws1'), _ws1(ex, st, 'ws2')
    x = _ident(ex, st, 'xident', [n_])
    y = _ident(ex, st, 'yident', [a_])
    gh = {'N': n_, 'A': a_, 'AS': askw, 'W1': w1, 'W2': w2}
    return _stmt_around(ex, st, [x, w1, askw, w2, y], gh)


def _shape_aliased(ex, st):
    from contracts.sql import _ws1
    n_, a_ = _name(ex, st, 'name'), _name(ex, st, 'alias')
    w1 = _ws1(ex, st, 'ws1')
    gh = {'N': n_, 'A': a_, 'W1': w1}
    return _stmt_around(ex, st, [_ident(ex, st, 'xident', [n_]), w1, _ident(ex, st, 'yident', [a_])], gh)


def _shape_aliased2(ex, st):
    """name ws ws alias , name2 ws alias2  (two whitespace tokens in front of the first alias, no blank behind the comma)"""
    from contracts.sql import _mk_leaf, _ws1
    n1, a1, n2, a2 = _name(ex, st, 'name1'), _name(ex, st, 'alias1'), _name(ex, st, 'name2'), _name(ex, st, 'alias2')
    w1, w1b, w2 = _ws1(ex, st, 'ws1'), _ws1(ex, st, 'ws1b'), _ws1(ex, st, 'ws2')
    c1 = _mk_leaf(ex, st, None, 'comma1', (ex.W.T.Punctuation,), value=',')
    gh = {'N1': n1, 'A1': a1, 'N2': n2, 'A2': a2, 'W1': w1, 'W1B': w1b, 'W2': w2, 'C1': c1}
    return _stmt_around(ex, st, [_ident(ex, st, 'x1', [n1]), w1, w1b, _ident(ex, st, 'y1', [a1]), c1,
                                 _ident(ex, st, 'x2', [n2]), w2, _ident(ex, st, 'y2', [a2])], gh)


def _shape_idlist(ex, st):
    from contracts.sql import _mk_leaf, _ws1
    n1, n2, n3 = _name(ex, st, 'n1'), _name(ex, st, 'n2'), _name(ex, st, 'n3')
    c1 = _mk_leaf(ex, st, None, 'comma1', (ex.W.T.Punctuation,), value=',')
    c2 = _mk_leaf(ex, st, None, 'comma2', (ex.W.T.Punctuation,), value=',')
    w1, w2 = _ws1(ex, st, 'ws1'), _ws1(ex, st, 'ws2')
    gh = {'N1': n1, 'N2': n2, 'N3': n3, 'C1': c1, 'C2': c2}
    return _stmt_around(ex, st, [_ident(ex, st, 'i1', [n1]), c1, w1, _ident(ex, st, 'i2', [n2]), c2, w2,
                                 _ident(ex, st, 'i3', [n3])], gh)


def _shape_idlist_kw(ex, st):
    """SELECT a, <an item that lexes as a keyword: TRUE, DEFAULT, a column called type / owner / year>, c FROM t"""
    from contracts.sql import _mk_leaf, _ws1
    n1, n3 = _name(ex, st, 'n1'), _name(ex, st, 'n3')
    kw = _mk_leaf(ex, st, None, 'kwitem', (ex.W.T.Keyword,))
    c1 = _mk_leaf(ex, st, None, 'comma1', (ex.W.T.Punctuation,), value=',')
    c2 = _mk_leaf(ex, st, None, 'comma2', (ex.W.T.Punctuation,), value=',')
    w1, w2 = _ws1(ex, st, 'ws1'), _ws1(ex, st, 'ws2')
    gh = {'N1': n1, 'KW': kw, 'N3': n3, 'C1': c1, 'C2': c2}
    return _stmt_around(ex, st, [_ident(ex, st, 'i1', [n1]), c1, w1, kw, c2, w2, _ident(ex, st, 'i3', [n3])], gh)


JOINER_SHAPE_CASES = []
for _pass, _mk, _what, _ens in (
    ('group_period', _shape_period, 'qualifier . name',
     ['len(tlist.tokens) == 7', 'isinstance(tlist.tokens[2], sql.Identifier)', 'len(tlist.tokens[2].tokens) == 3',
      'tlist.tokens[2].tokens[0] is Q', 'tlist.tokens[2].tokens[1] is DOT', 'tlist.tokens[2].tokens[2] is N',
      'tlist.tokens[4] is FROM']),
    ('group_identifier', _shape_identifier, 'name',
     ['len(tlist.tokens) == 7', 'isinstance(tlist.tokens[2], sql.Identifier)', 'len(tlist.tokens[2].tokens) == 1',
      'tlist.tokens[2].tokens[0] is N', 'tlist.tokens[4] is FROM']),
    ('group_as', _shape_as, 'name AS alias',
     ['len(tlist.tokens) == 7', 'isinstance(tlist.tokens[2], sql.Identifier)', 'len(tlist.tokens[2].tokens) == 5',
      'tlist.tokens[2].tokens[0] is N', 'tlist.tokens[2].tokens[2] is AS',
      'isinstance(tlist.tokens[2].tokens[4], sql.Identifier)', 'tlist.tokens[2].tokens[4].tokens[0] is A',
      'tlist.tokens[4] is FROM']),
    ('group_aliased', _shape_aliased, 'name alias',
     ['len(tlist.tokens) == 7', 'isinstance(tlist.tokens[2], sql.Identifier)', 'len(tlist.tokens[2].tokens) == 3',
      'tlist.tokens[2].tokens[0] is N', 'tlist.tokens[2].tokens[1] is W1',
      'isinstance(tlist.tokens[2].tokens[2], sql.Identifier)', 'tlist.tokens[2].tokens[2].tokens[0] is A',
      'tlist.tokens[4] is FROM']),
    ('group_aliased', _shape_aliased2, 'name <two whitespace tokens> alias,name alias',
     ['len(tlist.tokens) == 9', 'isinstance(tlist.tokens[2], sql.Identifier)', 'len(tlist.tokens[2].tokens) == 4',
      'tlist.tokens[2].tokens[0] is N1', 'tlist.tokens[2].tokens[1] is W1', 'tlist.tokens[2].tokens[2] is W1B',
      'tlist.tokens[2].tokens[3].tokens[0] is A1', 'tlist.tokens[3] is C1',
      'isinstance(tlist.tokens[4], sql.Identifier)', 'len(tlist.tokens[4].tokens) == 3', 'tlist.tokens[4].tokens[0] is N2',
      'tlist.tokens[4].tokens[1] is W2', 'tlist.tokens[4].tokens[2].tokens[0] is A2', 'tlist.tokens[6] is FROM']),
    ('group_identifier_list', _shape_idlist, 'a, b, c',
     ['len(tlist.tokens) == 7', 'isinstance(tlist.tokens[2], sql.IdentifierList)', 'len(tlist.tokens[2].tokens) == 7',
      'tlist.tokens[2].tokens[0].tokens[0] is N1', 'tlist.tokens[2].tokens[1] is C1',
      'tlist.tokens[2].tokens[3].tokens[0] is N2', 'tlist.tokens[2].tokens[6].tokens[0] is N3', 'tlist.tokens[4] is FROM']),
    ('group_identifier_list', _shape_idlist_kw, 'a, <keyword-typed item>, c',
     ['len(tlist.tokens) == 7', 'isinstance(tlist.tokens[2], sql.IdentifierList)', 'len(tlist.tokens[2].tokens) == 7',
      'tlist.tokens[2].tokens[0].tokens[0] is N1', 'tlist.tokens[2].tokens[1] is C1', 'tlist.tokens[2].tokens[3] is KW',
      'tlist.tokens[2].tokens[4] is C2', 'tlist.tokens[2].tokens[6].tokens[0] is N3', 'tlist.tokens[4] is FROM']),
):
    _ns = {'__doc__': 'the pass %s on  SELECT %s FROM t  (names and quoting arbitrary): what it groups is exactly the written '
                      'construct, the neighbours stay siblings' % (_pass, _what),
           'exec_class': HeapExec, 'params': {'tlist': _mk}, 'requires': [], 'ensures': _ens, 'raises': [],
           'shape_case': True, 'serves': ['C12', 'C13']}
    REG.add('sqlparse.engine.grouping.' + _pass, 'shape: ' + _what, type('joiner_shape_' + _pass, (), _ns))
    JOINER_SHAPE_CASES.append(('sqlparse.engine.grouping.' + _pass, 'shape: ' + _what))


def _shape_aliased_in_subquery(ex, st):
    """SELECT * FROM Identifier[ Parenthesis[ ( SELECT ws Identifier[n] ws Identifier[a] ws FROM ws Identifier[t] ) ] ws AS ws
    Identifier[q] ]  - what group_as has built when group_aliased runs"""
    from contracts.sql import _mk_leaf, _mk_node, _ws1
    T, sql = ex.W.T, ex.W.sql
    n_, a_, t_, q_ = _name(ex, st, 'name'), _name(ex, st, 'alias'), _name(ex, st, 'tname2'), _name(ex, st, 'qname')
    w1 = _ws1(ex, st, 'ws1')
    lp = _mk_leaf(ex, st, None, 'lp', (T.Punctuation,), value='(')
    rp = _mk_leaf(ex, st, None, 'rp', (T.Punctuation,), value=')')
    sel = _mk_leaf(ex, st, None, 'kw_select2', (T.Keyword.DML,), normalized='SELECT')
    frm = _mk_leaf(ex, st, None, 'kw_from2', (T.Keyword,), normalized='FROM')
    askw = _mk_leaf(ex, st, None, 'kw_as', (T.Keyword,), normalized='AS')
    star = _mk_leaf(ex, st, None, 'star', (T.Wildcard,), value='*')
    inner = [lp, sel, _ws1(ex, st, 'wsi1'), _ident(ex, st, 'xident', [n_]), w1, _ident(ex, st, 'yident', [a_]),
             _ws1(ex, st, 'wsi2'), frm, _ws1(ex, st, 'wsi3'), _ident(ex, st, 'tident2', [t_]), rp]
    par = lambda g: _mk_node(ex, st, sql.Parenthesis, 'subquery', inner, g)    # noqa: E731
    outer = lambda g: _mk_node(ex, st, sql.Identifier, 'derived', [par, _ws1(ex, st, 'wso1'), askw, _ws1(ex, st, 'wso2'),   # noqa: E731
                                                                  _ident(ex, st, 'qident', [q_])], g)
    sel0 = _mk_leaf(ex, st, None, 'kw_select', (T.Keyword.DML,), normalized='SELECT')
    frm0 = _mk_leaf(ex, st, None, 'kw_from', (T.Keyword,), normalized='FROM')
    st.ghost.update({'N': n_, 'A': a_, 'W1': w1, 'LP': lp, 'RP': rp, 'ASKW': askw})
    return _mk_node(ex, st, sql.Statement, 'tlist', [sel0, _ws1(ex, st, 'wsA'), star, _ws1(ex, st, 'wsB'), frm0,
                                                     _ws1(ex, st, 'wsC'), outer])


class aliased_in_subquery:
    """C12 "placed in a ... subquery": the pass group_aliased AS DECORATED (utils.recurse descends first) on
    SELECT * FROM (SELECT name alias FROM t) AS q, in the shape group_as leaves behind - the derived table already is an
    Identifier around the subquery -: the implicit alias INSIDE the subquery is attached to its name, the derived table
    keeps its five children"""
    exec_class = HeapExec
    params = {'tlist': _shape_aliased_in_subquery}
    decorated = True
    requires = []
    ensures = ['len(tlist.tokens) == 7', 'isinstance(tlist.tokens[6], sql.Identifier)', 'len(tlist.tokens[6].tokens) == 5',
               'tlist.tokens[6].tokens[2] is ASKW',
               'isinstance(tlist.tokens[6].tokens[0], sql.Parenthesis)', 'len(tlist.tokens[6].tokens[0].tokens) == 9',
               'tlist.tokens[6].tokens[0].tokens[0] is LP', 'tlist.tokens[6].tokens[0].tokens[8] is RP',
               'isinstance(tlist.tokens[6].tokens[0].tokens[3], sql.Identifier)',
               'len(tlist.tokens[6].tokens[0].tokens[3].tokens) == 3',
               'tlist.tokens[6].tokens[0].tokens[3].tokens[0] is N', 'tlist.tokens[6].tokens[0].tokens[3].tokens[1] is W1',
               'isinstance(tlist.tokens[6].tokens[0].tokens[3].tokens[2], sql.Identifier)',
               'tlist.tokens[6].tokens[0].tokens[3].tokens[2].tokens[0] is A']
    raises = []
    shape_case = True
    serves = ['C12']


REG.add('sqlparse.engine.grouping.group_aliased', 'shape: decorated, name alias inside (subquery) AS q', aliased_in_subquery)
DECORATED_SHAPE_CASES = [('sqlparse.engine.grouping.group_aliased', 'shape: decorated, name alias inside (subquery) AS q')]


def _shape_where_in_subquery(ex, st):
    """SELECT ws * ws FROM ws Parenthesis[ ( SELECT ws Identifier ws FROM ws Identifier ws WHERE ws Identifier ) ] ws WHERE ws
    Identifier  - a subquery with its own WHERE clause inside a statement with a WHERE clause"""
    from contracts.sql import _mk_leaf, _mk_node, _ws1
    T, sql = ex.W.T, ex.W.sql
    kw = lambda word, nm, tt=T.Keyword: _mk_leaf(ex, st, None, nm, (tt,), normalized=word)   # noqa: E731
    idn = lambda nm: _ident(ex, st, nm + '_ident', [_name(ex, st, nm)])    # noqa: E731
    lp = _mk_leaf(ex, st, None, 'lp', (T.Punctuation,), value='(')
    rp = _mk_leaf(ex, st, None, 'rp', (T.Punctuation,), value=')')
    wi, wo = kw('WHERE', 'kw_where_in'), kw('WHERE', 'kw_where_out')
    inner = [lp, kw('SELECT', 'kw_select2', T.Keyword.DML), _ws1(ex, st, 'i0'), idn('col'), _ws1(ex, st, 'i1'),
             kw('FROM', 'kw_from2'), _ws1(ex, st, 'i2'), idn('tab'), _ws1(ex, st, 'i3'), wi, _ws1(ex, st, 'i4'), idn('cond'), rp]
    par = lambda g: _mk_node(ex, st, sql.Parenthesis, 'subquery', inner, g)    # noqa: E731
    star = _mk_leaf(ex, st, None, 'star', (T.Wildcard,), value='*')
    st.ghost.update({'WIN': wi, 'WOUT': wo, 'RP': rp, 'LP': lp})
    return _mk_node(ex, st, sql.Statement, 'tlist',
                    [kw('SELECT', 'kw_select', T.Keyword.DML), _ws1(ex, st, 'o0'), star, _ws1(ex, st, 'o1'), kw('FROM', 'kw_from'),
                     _ws1(ex, st, 'o2'), par, _ws1(ex, st, 'o3'), wo, _ws1(ex, st, 'o4'), idn('cond2')])


class where_in_subquery:
    """C13 "the Where node spans ... or else to the end of the enclosing parenthesis or statement": the pass group_where AS
    DECORATED (utils.recurse descends first) on SELECT * FROM (SELECT c FROM t WHERE x) WHERE y: the inner WHERE clause
    becomes a Where node that ends before the closing parenthesis, the outer one a Where node up to the end"""
    exec_class = HeapExec
    params = {'tlist': _shape_where_in_subquery}
    decorated = True
    requires = []
    ensures = ['len(tlist.tokens) == 9', 'isinstance(tlist.tokens[8], sql.Where)', 'len(tlist.tokens[8].tokens) == 3',
               'tlist.tokens[8].tokens[0] is WOUT',
               'isinstance(tlist.tokens[6], sql.Parenthesis)', 'len(tlist.tokens[6].tokens) == 11',
               'tlist.tokens[6].tokens[0] is LP', 'tlist.tokens[6].tokens[10] is RP',
               'isinstance(tlist.tokens[6].tokens[9], sql.Where)', 'len(tlist.tokens[6].tokens[9].tokens) == 3',
               'tlist.tokens[6].tokens[9].tokens[0] is WIN']
    raises = []
    shape_case = True
    serves = ['C13']


REG.add('sqlparse.engine.grouping.group_where', 'shape: decorated, WHERE inside a subquery and outside', where_in_subquery)
DECORATED_WHERE_CASES = [('sqlparse.engine.grouping.group_where', 'shape: decorated, WHERE inside a subquery and outside')]


# --------------------------------------------------------------------------------- _group_matching on explicit shapes (C09)

_inline_on_shapes('sqlparse.engine.grouping._group_matching')


def _gm_shape(kind):
    def mk(ex, st):
        from contracts.sql import _mk_leaf, _mk_node, _mk_argument
        T, sql = ex.W.T, ex.W.sql
        P = lambda v, nm: _mk_leaf(ex, st, None, nm, (T.Punctuation,), value=v)   # noqa: E731
        K = lambda w, nm: _mk_leaf(ex, st, None, nm, (T.Keyword,), normalized=w)   # noqa: E731
        A = lambda nm: _mk_argument(ex, st, nm)   # noqa: E731
        gh = {}
        if kind == 'nested parentheses':
            x, a, b, c, y = A('x'), A('a'), A('b'), A('c'), A('y')
            o1, o2, c2, c1 = P('(', 'o1'), P('(', 'o2'), P(')', 'c2'), P(')', 'c1')
            gh = dict(X=x, A=a, B=b, C=c, Y=y, O1=o1, O2=o2, C2=c2, C1=c1)
            items = [x, o1, a, o2, b, c2, c, c1, y]
        elif kind == 'unmatched':
            a, b = A('a'), A('b')
            c0, o1 = P(')', 'c0'), P('(', 'o1')
            gh = dict(A=a, B=b, C0=c0, O1=o1)
            items = [c0, a, o1, b]
        elif kind == 'case':
            cs, wh, th, en = K('CASE', 'kw_case'), K('WHEN', 'kw_when'), K('THEN', 'kw_then'), K('END', 'kw_end')
            a, b, y = A('a'), A('b'), A('y')
            gh = dict(CASE=cs, END=en, A=a, B=b, Y=y)
            items = [cs, wh, a, th, b, en, y]
        else:   # case inside a parenthesis group
            cs, en = K('CASE', 'kw_case'), K('END', 'kw_end')
            a = A('a')
            o1, c1 = P('(', 'o1'), P(')', 'c1')
            gh = dict(CASE=cs, END=en, A=a, O1=o1, C1=c1)
            items = [lambda g: _mk_node(ex, st, sql.Parenthesis, 'paren', [o1, cs, a, en, c1], g)]
        st.ghost.update(gh)
        return _mk_node(ex, st, sql.Statement, 'tlist', items)
    return mk


MATCHER_SHAPE_CASES = []
for _kind, _cls, _ens in (
    ('nested parentheses', 'Parenthesis',
     ['len(tlist.tokens) == 3', 'tlist.tokens[0] is X', 'tlist.tokens[2] is Y', 'isinstance(tlist.tokens[1], sql.Parenthesis)',
      'len(tlist.tokens[1].tokens) == 5', 'tlist.tokens[1].tokens[0] is O1', 'tlist.tokens[1].tokens[4] is C1',
      'tlist.tokens[1].tokens[1] is A', 'tlist.tokens[1].tokens[3] is C',
      'isinstance(tlist.tokens[1].tokens[2], sql.Parenthesis)', 'len(tlist.tokens[1].tokens[2].tokens) == 3',
      'tlist.tokens[1].tokens[2].tokens[0] is O2', 'tlist.tokens[1].tokens[2].tokens[1] is B',
      'tlist.tokens[1].tokens[2].tokens[2] is C2']),
    ('unmatched', 'Parenthesis',
     ['len(tlist.tokens) == 4', 'tlist.tokens[0] is C0', 'tlist.tokens[1] is A', 'tlist.tokens[2] is O1', 'tlist.tokens[3] is B']),
    ('case', 'Case',
     ['len(tlist.tokens) == 2', 'isinstance(tlist.tokens[0], sql.Case)', 'len(tlist.tokens[0].tokens) == 6',
      'tlist.tokens[0].tokens[0] is CASE', 'tlist.tokens[0].tokens[5] is END', 'tlist.tokens[1] is Y']),
    ('case inside a parenthesis group', 'Case',
     ['len(tlist.tokens) == 1', 'len(tlist.tokens[0].tokens) == 3', 'tlist.tokens[0].tokens[0] is O1',
      'tlist.tokens[0].tokens[2] is C1', 'isinstance(tlist.tokens[0].tokens[1], sql.Case)',
      'tlist.tokens[0].tokens[1].tokens[0] is CASE', 'tlist.tokens[0].tokens[1].tokens[2] is END'])):
    _ns = {'__doc__': 'C09 "exactly the pairs that a textbook stack matcher finds: innermost first, unmatched openers or closers '
                      'left ungrouped, later kinds matched inside groups of earlier kinds; each node starts with its opening and '
                      'ends with its closing token": _group_matching(%s) on an explicit token list, case: %s' % (_cls, _kind),
           'exec_class': HeapExec, 'params': {'tlist': _gm_shape(_kind), 'cls': make_cls_const(_cls)},
           'int_lists': ('opens',), 'requires': [], 'ensures': _ens, 'raises': [], 'shape_case': True, 'serves': ['C09']}
    REG.add('sqlparse.engine.grouping._group_matching', 'shape: ' + _kind, type('group_matching_shape', (), _ns))
    MATCHER_SHAPE_CASES.append(('sqlparse.engine.grouping._group_matching', 'shape: ' + _kind))


# --------------------------------------------------------------------------------- more pass shapes (C13)

def _shape_function(ex, st):
    from contracts.sql import _mk_leaf, _mk_node, _mk_argument
    T, sql = ex.W.T, ex.W.sql
    fn = _mk_leaf(ex, st, None, 'fname', (T.Name,), name_leaf=True)
    # (the has_create / has_table / has_as scan compares upper-cased values: the function is not called CREATE / TABLE)
    v = st.objs[fn.oid]['value'].z
    st.assume(z3.And(ex.W.upper(v) != z3.StringVal('CREATE'), ex.W.upper(v) != z3.StringVal('TABLE')))
    lp = _mk_leaf(ex, st, None, 'lp', (T.Punctuation,), value='(')
    rp = _mk_leaf(ex, st, None, 'rp', (T.Punctuation,), value=')')
    arg = _mk_argument(ex, st, 'arg')
    par = lambda g: _mk_node(ex, st, sql.Parenthesis, 'paren', [lp, arg, rp], g)   # noqa: E731
    node = _stmt_around(ex, st, [fn, par], {'F': fn, 'ARG': arg})
    # the statement is not a CREATE TABLE: no token is spelled CREATE or TABLE
    for o in list(st.objs.values()):
        val = o.get('value')
        if isinstance(val, SStr) and not z3.is_string_value(val.z):
            st.assume(z3.And(ex.W.upper(val.z) != z3.StringVal('CREATE'), ex.W.upper(val.z) != z3.StringVal('TABLE')))
    return node


def _shape_function_ws(ex, st):
    """f <whitespace> ( arg ): a call written with a blank or a line break in front of the parenthesis"""
    from contracts.sql import _mk_leaf, _mk_node, _mk_argument, _ws1
    T, sql = ex.W.T, ex.W.sql
    fn = _mk_leaf(ex, st, None, 'fname', (T.Name,), name_leaf=True)
    lp = _mk_leaf(ex, st, None, 'lp', (T.Punctuation,), value='(')
    rp = _mk_leaf(ex, st, None, 'rp', (T.Punctuation,), value=')')
    arg = _mk_argument(ex, st, 'arg')
    w = _ws1(ex, st, 'wsf')
    par = lambda g: _mk_node(ex, st, sql.Parenthesis, 'paren', [lp, arg, rp], g)   # noqa: E731
    node = _stmt_around(ex, st, [fn, w, par], {'F': fn, 'ARG': arg, 'WF': w})
    for o in list(st.objs.values()):
        val = o.get('value')
        if isinstance(val, SStr) and not z3.is_string_value(val.z):
            st.assume(z3.And(ex.W.upper(val.z) != z3.StringVal('CREATE'), ex.W.upper(val.z) != z3.StringVal('TABLE')))
    return node


def _shape_comparison(ex, st):
    from contracts.sql import _mk_leaf, _ws1
    T = ex.W.T
    a = _name(ex, st, 'lhs')
    op = _mk_leaf(ex, st, None, 'op', (T.Operator.Comparison,))
    num = _mk_leaf(ex, st, None, 'rhs', (T.Number.Integer, T.Number.Float, T.String.Single))
    w1, w2 = _ws1(ex, st, 'ws1'), _ws1(ex, st, 'ws2')
    return _stmt_around(ex, st, [_ident(ex, st, 'lident', [a]), w1, op, w2, num], {'L': a, 'OP': op, 'R': num})


def _shape_order(ex, st):
    from contracts.sql import _mk_leaf, _ws1
    T = ex.W.T
    a = _name(ex, st, 'col')
    o = _mk_leaf(ex, st, None, 'ord', (T.Keyword.Order,), normalized='DESC')
    w1 = _ws1(ex, st, 'ws1')
    return _stmt_around(ex, st, [_ident(ex, st, 'cident', [a]), w1, o], {'COL': a, 'ORD': o, 'W1': w1})


MORE_PASS_SHAPE_CASES = []
for _pass, _mk, _what, _ens in (
    ('group_functions', _shape_function, 'f ( arg )',
     ['len(tlist.tokens) == 7', 'isinstance(tlist.tokens[2], sql.Function)', 'len(tlist.tokens[2].tokens) == 2',
      'tlist.tokens[2].tokens[0] is F', 'isinstance(tlist.tokens[2].tokens[1], sql.Parenthesis)',
      'tlist.tokens[2].tokens[1].tokens[1] is ARG', 'tlist.tokens[4] is FROM']),
    ('group_functions', _shape_function_ws, 'f <whitespace> ( arg )',
     ['len(tlist.tokens) == 7', 'isinstance(tlist.tokens[2], sql.Function)', 'len(tlist.tokens[2].tokens) == 3',
      'tlist.tokens[2].tokens[0] is F', 'tlist.tokens[2].tokens[1] is WF', 'isinstance(tlist.tokens[2].tokens[2], sql.Parenthesis)',
      'tlist.tokens[2].tokens[2].tokens[1] is ARG', 'tlist.tokens[4] is FROM']),
    ('group_comparison', _shape_comparison, 'a <op> literal',
     ['len(tlist.tokens) == 7', 'isinstance(tlist.tokens[2], sql.Comparison)', 'len(tlist.tokens[2].tokens) == 5',
      'tlist.tokens[2].tokens[0].tokens[0] is L', 'tlist.tokens[2].tokens[2] is OP', 'tlist.tokens[2].tokens[4] is R',
      'tlist.tokens[4] is FROM']),
    ('group_order', _shape_order, 'col DESC',
     ['len(tlist.tokens) == 7', 'isinstance(tlist.tokens[2], sql.Identifier)', 'len(tlist.tokens[2].tokens) == 3',
      'tlist.tokens[2].tokens[0].tokens[0] is COL', 'tlist.tokens[2].tokens[2] is ORD', 'tlist.tokens[4] is FROM']),
):
    _ns = {'__doc__': 'the pass %s on  SELECT %s FROM t : what it groups is exactly the written construct' % (_pass, _what),
           'exec_class': HeapExec, 'params': {'tlist': _mk}, 'requires': [], 'ensures': _ens, 'raises': [],
           'shape_case': True, 'serves': ['C13']}
    REG.add('sqlparse.engine.grouping.' + _pass, 'shape: ' + _what, type('pass_shape_' + _pass, (), _ns))
    MORE_PASS_SHAPE_CASES.append(('sqlparse.engine.grouping.' + _pass, 'shape: ' + _what))


# --------------------------------------------------------------------------------- align_comments on a WITH statement (C18)

def _shape_cte_comment(ex, st):
    """WITH ws Identifier(cte) <newline> Comment <newline> SELECT ...: a comment on its own line between the CTE definitions
    and the main keyword"""
    from contracts.sql import _mk_leaf, _mk_node, _ws1
    W = ex.W
    T, sql = W.T, W.sql
    wth = _mk_leaf(ex, st, None, 'kw_with', (T.Keyword.CTE,), normalized='WITH')
    dml = _mk_leaf(ex, st, None, 'kw_dml', (T.Keyword.DML,), normalized='SELECT')
    cte = _mk_leaf(ex, st, None, 'ctename', (T.Name,), name_leaf=True)
    ctxt = _mk_leaf(ex, st, None, 'comment_text', (T.Comment.Single, T.Comment.Multiline))
    comment = lambda g: _mk_node(ex, st, sql.Comment, 'comment', [ctxt], g)   # noqa: E731
    ident = lambda g: _mk_node(ex, st, sql.Identifier, 'cte', [cte], g)     # noqa: E731
    w1, w2, w3 = _ws1(ex, st, 'ws1'), _ws1(ex, st, 'ws2'), _ws1(ex, st, 'ws3')
    node = _mk_node(ex, st, sql.Statement, 'tlist', [wth, w1, ident, w2, comment, w3, dml])
    st.ghost.update({'WITH': wth, 'DML': dml, 'CTE': cte, 'CTXT': ctxt, 'W2': w2, 'W3': w3})
    return node


class align_comments_cte:
    """C18 "the DML keyword following the CTE definitions ... ignores comments": get_type() walks from the CTE definitions to
    the next non-whitespace child, so a comment between them and the main keyword must have been folded into the
    definitions' group by align_comments - whatever whitespace (blank or line break) separates them.  Afterwards the child
    that follows the definitions (skipping whitespace) is the DML keyword."""
    exec_class = HeapExec
    params = {'tlist': _shape_cte_comment}
    requires = []
    ensures = ['len(tlist.tokens) == 5', 'tlist.tokens[0] is WITH', 'isinstance(tlist.tokens[2], sql.Identifier)',
               'tlist.tokens[2].tokens[0] is CTE', 'len(tlist.tokens[2].tokens) == 3', 'tlist.tokens[2].tokens[1] is W2',
               'isinstance(tlist.tokens[2].tokens[2], sql.Comment)', 'tlist.tokens[3] is W3', 'tlist.tokens[4] is DML']
    raises = []
    shape_case = True
    serves = ['C18']


REG.add('sqlparse.engine.grouping.align_comments', 'shape: WITH cte <comment> SELECT', align_comments_cte)


# --------------------------------------------------------------------------------- remaining joiner passes on explicit shapes (C13, C03)

def _shape_operation(ex, st):
    from contracts.sql import _mk_leaf, _ws1
    T = ex.W.T
    a, b = _name(ex, st, 'lhs'), _name(ex, st, 'rhs')
    op = _mk_leaf(ex, st, None, 'op', (T.Operator, T.Wildcard))
    w1, w2 = _ws1(ex, st, 'ws1'), _ws1(ex, st, 'ws2')
    return _stmt_around(ex, st, [_ident(ex, st, 'lident', [a]), w1, op, w2, _ident(ex, st, 'rident', [b])],
                        {'L': a, 'OP': op, 'R': b})


def _shape_typecast(ex, st):
    from contracts.sql import _mk_leaf
    T = ex.W.T
    a = _name(ex, st, 'col')
    cc = _mk_leaf(ex, st, None, 'cast', (T.Punctuation,), value='::')
    ty = _mk_leaf(ex, st, None, 'type', (T.Name.Builtin, T.Name))
    return _stmt_around(ex, st, [_ident(ex, st, 'cident', [a]), cc, ty], {'COL': a, 'CAST': cc, 'TYPE': ty})


def _shape_typed_literal(ex, st):
    from contracts.sql import _mk_leaf, _ws1
    T, sql = ex.W.T, ex.W.sql
    kw = _mk_leaf(ex, st, None, 'kw_date', (T.Name.Builtin,), normalized='DATE')
    st.objs[kw.oid]['value'] = SStr(z3.StringVal('DATE'))
    st.objs[kw.oid]['TXT'] = SStr(z3.StringVal('DATE'))
    lit = _mk_leaf(ex, st, None, 'lit', (T.String.Single,))
    w1 = _ws1(ex, st, 'ws1')
    return _stmt_around(ex, st, [kw, w1, lit], {'KW': kw, 'LIT': lit, 'W1': w1})


def _shape_assignment(ex, st):
    from contracts.sql import _mk_leaf, _ws1
    T = ex.W.T
    a = _name(ex, st, 'var')
    asg = _mk_leaf(ex, st, None, 'assign', (T.Assignment,), value=':=')
    num = _mk_leaf(ex, st, None, 'num', (T.Number.Integer,))
    semi = _mk_leaf(ex, st, None, 'semi', (T.Punctuation,), value=';')
    w1, w2 = _ws1(ex, st, 'ws1'), _ws1(ex, st, 'ws2')
    from contracts.sql import _mk_node
    st.ghost.update({'VAR': a, 'ASG': asg, 'NUM': num, 'SEMI': semi})
    return _mk_node(ex, st, ex.W.sql.Statement, 'tlist', [_ident(ex, st, 'vident', [a]), w1, asg, w2, num, semi])


def _shape_comments(ex, st):
    from contracts.sql import _mk_leaf, _mk_node, _ws1
    T, sql = ex.W.T, ex.W.sql
    c1 = _mk_leaf(ex, st, None, 'c1', (T.Comment.Multiline, T.Comment.Single))
    c2 = _mk_leaf(ex, st, None, 'c2', (T.Comment.Multiline, T.Comment.Single))
    nl = _mk_leaf(ex, st, None, 'nl', (T.Newline,))
    st.objs[nl.oid]['is_whitespace'] = True
    st.objs[nl.oid]['is_newline'] = True
    x = _mk_leaf(ex, st, None, 'kw_select', (T.Keyword.DML,), normalized='SELECT')
    st.ghost.update({'C1': c1, 'C2': c2, 'NL': nl, 'X': x})
    return _mk_node(ex, st, sql.Statement, 'tlist', [c1, nl, c2, x])


MORE_JOINER_SHAPE_CASES = []
for _pass, _mk, _what, _ens in (
    ('group_operator', _shape_operation, 'a <operator> b',
     ['len(tlist.tokens) == 7', 'isinstance(tlist.tokens[2], sql.Operation)', 'len(tlist.tokens[2].tokens) == 5',
      'tlist.tokens[2].tokens[0].tokens[0] is L', 'tlist.tokens[2].tokens[2] is OP', 'tlist.tokens[2].tokens[4].tokens[0] is R',
      'OP.ttype is T.Operator', 'tlist.tokens[4] is FROM']),
    ('group_typecasts', _shape_typecast, 'col :: type',
     ['len(tlist.tokens) == 7', 'isinstance(tlist.tokens[2], sql.Identifier)', 'len(tlist.tokens[2].tokens) == 3',
      'tlist.tokens[2].tokens[0] is COL', 'tlist.tokens[2].tokens[1] is CAST', 'tlist.tokens[2].tokens[2] is TYPE',
      'tlist.tokens[4] is FROM']),
    ('group_assignment', _shape_assignment, 'var := 1 ;',
     ['len(tlist.tokens) == 1', 'isinstance(tlist.tokens[0], sql.Assignment)', 'len(tlist.tokens[0].tokens) == 6',
      'tlist.tokens[0].tokens[0].tokens[0] is VAR', 'tlist.tokens[0].tokens[2] is ASG', 'tlist.tokens[0].tokens[4] is NUM',
      'tlist.tokens[0].tokens[5] is SEMI']),
    ('group_comments', _shape_comments, 'comment <newline> comment X',
     ['len(tlist.tokens) == 2', 'isinstance(tlist.tokens[0], sql.Comment)', 'len(tlist.tokens[0].tokens) == 3',
      'tlist.tokens[0].tokens[0] is C1', 'tlist.tokens[0].tokens[1] is NL', 'tlist.tokens[0].tokens[2] is C2',
      'tlist.tokens[1] is X']),
):
    _ns = {'__doc__': 'the pass %s on an explicit statement containing  %s : what it groups is exactly the written construct'
                      % (_pass, _what),
           'exec_class': HeapExec, 'params': {'tlist': _mk}, 'requires': [], 'ensures': _ens, 'raises': [],
           'shape_case': True, 'serves': ['C13', 'C03']}
    REG.add('sqlparse.engine.grouping.' + _pass, 'shape: ' + _what, type('pass_shape_' + _pass, (), _ns))
    MORE_JOINER_SHAPE_CASES.append(('sqlparse.engine.grouping.' + _pass, 'shape: ' + _what))
