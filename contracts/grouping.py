"""Sidecar contracts for sqlparse/engine/grouping.py."""
import z3

from pyvc.spec import contract, REG
from pyvc.symex import SInt, SStr, SBool, STy, Rec, LRef, Opaque, Func, fresh, OutsideSubset
from pyvc.heap import HeapExec, bind_elem_or_none
from contracts.sql import make_group
from pyvc.models import lib


_PURE = {}


class _PureBool:
    """call-site model of a pure predicate on tokens (frame: no store; checked structurally): an uninterpreted
    function of the token's identity, so that a second evaluation gives the same answer"""

    @staticmethod
    def model(ex, self_val, args, kw, st):
        tok = args[-1]
        f = st.objs.get(tok.oid, {}) if isinstance(tok, Rec) else {}
        if '__pos__' in f:
            fn = _PURE.setdefault('is_delimiter', z3.Function('is_delimiter', z3.IntSort(), z3.IntSort(), z3.BoolSort()))
            return [(st, SBool(fn(z3.IntVal(f['__base__']), f['__pos__'])))]
        return [(st, SBool(fresh('pure_pred', z3.BoolSort())))]


class _SubtreeOnly:
    """recursive call on a child: its frame is that child's own subtree; the list being scanned is untouched.
    The call is recorded (ghost) so that coverage obligations can speak about it."""

    @staticmethod
    def model(ex, self_val, args, kw, st):
        child = args[0]
        if isinstance(child, Rec) and st.objs[child.oid].get('tokens') is not None:
            ex.havoc_list_ext(st, st.objs[child.oid]['tokens'].lid)
        if isinstance(child, Rec):
            st.ghost['RECURSED'] = st.ghost.get('RECURSED', frozenset()) | {child.oid}
        return [(st, None)]


def _recursed(ex, self_val, args, kw, st):
    tok = args[0]
    return [(st, isinstance(tok, Rec) and tok.oid in st.ghost.get('RECURSED', ()))]


REG['sqlparse.engine.grouping._is_delimiter'] = _PureBool
REG['sqlparse.engine.grouping._group_matching'] = _SubtreeOnly
REG['sqlparse.engine.grouping._group'] = _SubtreeOnly


def make_cls_const(name):
    def mk(ex, st):
        return getattr(ex.W.sql, name)
    return mk


GM_LOOP = {'iter_post': [
    # C09 "later kinds are matched inside groups of earlier kinds": every visited child that is a group of another
    # class (and neither whitespace nor a delimiter of the enclosing group) is descended into
    'WAS_RECURSED(token) if (token.is_group and not token.is_whitespace and not isinstance(token, cls) '
    'and not _is_delimiter(tlist, token)) else True'],
    'inv': [
    # the current child list is: some already processed prefix, then exactly the not yet visited part of the snapshot
    'SUFFIX(tlist, IT0.K - tidx_offset, IT0.SEQ, IT0.K)',
    '0 <= tidx_offset', 'tidx_offset <= IT0.K',
    # the stack of open positions: strictly increasing, non-negative, all below the current position
    'SORTED(opens)', 'UB(opens) <= IT0.K - tidx_offset',
]}


def _gm_contract(clsname):
    ns = {
        '__doc__': 'index bookkeeping of the bracket/block matcher for class %s: at every group_tokens call '
                   '0 <= open_idx <= close_idx < len(tlist.tokens); the current list always is a processed prefix '
                   'followed by the unvisited rest of the snapshot (so that tidx = idx - tidx_offset is the position '
                   'of the visited token); the stack of open positions stays sorted and below the current position; '
                   'no exception escapes' % clsname,
        'exec_class': HeapExec,
        'params': {'tlist': make_group, 'cls': make_cls_const(clsname)},
        'int_lists': ('opens',),
        # C09: the group ends with the visited closing token (its position in the current list is close_idx)
        'callsite_asserts': {'group_tokens': ['tlist.tokens[close_idx] is token', 'close_idx > open_idx']},
        'loops': {'0': GM_LOOP},
        'ghost_init': staticmethod(lambda ex, st: st.ghost.__setitem__('WAS_RECURSED', Func('spec.WAS_RECURSED', model=_recursed))),
        'requires': [], 'ensures': [], 'raises': [], 'serves': ['C03', 'C09', 'C02', 'C07'],
    }
    cls = type('group_matching_' + clsname, (), ns)
    REG.add('sqlparse.engine.grouping._group_matching', clsname, cls)
    return cls


for _n in ('Parenthesis', 'SquareBrackets', 'Case', 'If', 'For', 'Begin'):
    _gm_contract(_n)


# --------------------------------------------------------------------------------- the nine simple passes

def _pass_contract(name, loops=None, raises=(), tlist=None, extra=None, case=None):
    """call-site obligations of a simple grouping pass: at every group_tokens call 0 <= start <= end < len (so that the
    proved group_tokens contract applies: Inv and text preserved), and no exception escapes"""
    q = 'sqlparse.engine.grouping.' + name
    ns = {'__doc__': _pass_contract.__doc__, 'exec_class': HeapExec, 'params': {'tlist': tlist or make_group},
          'loops': loops or {}, 'requires': [], 'ensures': [], 'raises': list(raises), 'serves': ['C02', 'C03', 'C07']}
    ns.update(extra or {})
    cls = type('pass_' + name, (), ns)
    REG.add(q, case or 'call sites', cls)
    return cls


_W = {'0': {'bind': bind_elem_or_none('tlist', 'tidx', 'token')}}
_pass_contract('group_identifier', loops=_W)
_pass_contract('group_over', loops=_W)
_pass_contract('group_aliased', loops=_W)
_pass_contract('group_order', loops=_W)
_pass_contract('align_comments', loops=_W)
_pass_contract('group_comments', loops={'0': {
    'bind': bind_elem_or_none('tlist', 'tidx', 'token'),
    # established by token_next_by(t=T.Comment): the token at tidx is comment-typed
    'inv': ['token is None or token.ttype in T.Comment']}})
_pass_contract('group_values', loops={'0': {
    'bind': bind_elem_or_none('tlist', 'tidx', 'token'),
    'inv': ['tidx is None or (start_idx is not None and start_idx <= tidx)',
            'end_idx == -1 or (start_idx is not None and 0 <= start_idx and start_idx <= end_idx '
            'and end_idx < len(tlist.tokens))']}})
_pass_contract('group_functions', loops={'0': {'arbitrary': True}, '1': {'bind': bind_elem_or_none('tlist', 'tidx', 'token')}})


def make_plain_group(ex, st):
    """a group whose class uses the default _groupable_tokens (all children): Statement, Identifier, ... (not the
    bracket / block classes, whose variant excludes the delimiters and needs the bracket shape B)"""
    g = make_group(ex, st, 'tlist')
    W = ex.W
    sql = W.sql
    special = [k for k in W.classes if '_groupable_tokens' in vars(k) and k is not sql.TokenList]
    z = st.objs[g.oid]['CLS']
    for k in W.classes:
        if any(issubclass(k, s_) for s_ in special):
            st.assume(z != W.cls_const[k])
    return g


_pass_contract('group_where', loops=_W, tlist=make_plain_group)
