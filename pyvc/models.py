"""Call dispatch: builtins and library models (trusted, listed in evidence), repo functions by contract or inline."""
import ast
import inspect
import sys

import z3

from .symex import (Outcome, PyExc, OutsideSubset, Sym, SInt, SBool, SStr, STy, Rec, LRef, Opaque, Func, UNBOUND,
                    fresh, fresh_int, fresh_str, fresh_bool, State)
from . import smt
from .core import source

LIB_USED = set()     # names of trusted library models actually used in this run (reported in evidence)
CALLEE_MODELS_USED = set()   # repository functions replaced by a call-site model / contract at a call (modular use)


def lib(name):
    LIB_USED.add(name)


def qualname_of(fobj):
    mod = getattr(fobj, '__module__', None)
    qn = getattr(fobj, '__qualname__', None)
    if mod and qn and mod.startswith('sqlparse'):
        return mod + '.' + qn
    return None


def call(ex, f, args, kw, st, node=None):
    # ---- spec-only helpers
    if isinstance(f, Func):
        q = f.qualname
        if f.model is not None:
            return f.model(ex, f.self_val, args, kw, st)
        if q.startswith('str.'):
            return str_method(ex, f.self_val, q[4:], args, kw, st)
        if q.startswith('list.'):
            return list_method(ex, f.self_val, q[5:], args, kw, st)
        if q.startswith('dict.'):
            return dict_method(ex, f.self_val, q[5:], args, kw, st)
        if q.startswith('spec.'):
            return ex.spec_fn(q[5:], args, kw, st)
        if f.node is not None:
            return call_inline(ex, f, args, kw, st)
        return call_repo(ex, q, f.self_val, args, kw, st)
    if isinstance(f, Opaque):
        if isinstance(f.data, dict) and 'call' in f.data:
            return f.data['call'](ex, f, args, kw, st)
        h = getattr(ex, 'call_opaque', None)
        if h:
            return h(f, args, kw, st)
        raise OutsideSubset('call of opaque %s' % f.name)
    if isinstance(f, Sym):
        h = getattr(ex, 'call_opaque_scls', None)
        if h and type(f).__name__ == 'SCls':
            return h(f, args, kw, st)
        raise OutsideSubset('call of %r' % (f,))
    # ---- real python callables
    if f is super and not args:
        import sys as _sys
        parts = ex.fn.split('.')
        owner = None
        for i in range(len(parts) - 1, 0, -1):
            m = _sys.modules.get('.'.join(parts[:i]))
            if m is not None:
                owner = m
                for p_ in parts[i:-1]:
                    owner = getattr(owner, p_)
                break
        first = None
        node = source().get(ex.fn)
        if node is not None and node.args.args:
            first = st.env.get(node.args.args[0].arg)
        if owner is None or first is None:
            raise OutsideSubset('super() outside a method')
        return [(st, Opaque('super', {'cls': owner, 'self': first}))]
    if f is len:
        return [(st, py_len(ex, args[0], st))]
    if f is isinstance:
        return [(st, py_isinstance(ex, args[0], args[1], st))]
    if f is enumerate:
        lib('enumerate')
        return [(st, make_iter(ex, st, args[0], 'enum_iter'))]
    if f is reversed and len(args) == 1 and isinstance(args[0], LRef):
        lib('reversed(list)')
        items = st.lists[args[0].lid]
        if all(x[0] == 'el' for x in items):
            return [(st, ex.new_list(st, list(reversed(items))))]
        return [(st, Opaque('reversed', args[0]))]
    if f is iter:
        lib('iter')
        return [(st, make_iter(ex, st, args[0], 'seq_iter'))]
    if (f is max or f is min) and len(args) == 1:
        # max / min of a sequence with known elements (ints)
        seq = _concrete_seq(ex, args[0], st)
        if seq is None:
            raise OutsideSubset('%s of an unknown sequence' % f.__name__)
        if not seq:
            raise PyExc('ValueError', '%s() arg is an empty sequence' % f.__name__)
        if all(not isinstance(x, Sym) for x in seq):
            return [(st, f(seq))]
        acc = ex.z_int(seq[0])
        for x in seq[1:]:
            y = ex.z_int(x)
            acc = z3.If(acc >= y, acc, y) if f is max else z3.If(acc <= y, acc, y)
        return [(st, SInt(z3.simplify(acc)))]
    if f is map and len(args) == 2:
        # map(g, seq) over a sequence with known elements: the tuple of g(x) (g must not fork)
        seq = _concrete_seq(ex, args[1], st)
        if seq is None:
            raise OutsideSubset('map over an unknown sequence')
        out = []
        cur = st
        for x in seq:
            r = ex.call(args[0], [x], {}, cur)
            if len(r) != 1:
                raise OutsideSubset('map: the mapped function forks')
            cur, v = r[0]
            out.append(v)
        return [(cur, tuple(out))]
    if f is max or f is min:
        a, b = args
        if not isinstance(a, Sym) and not isinstance(b, Sym):
            return [(st, f(a, b))]
        x, y = ex.z_int(a), ex.z_int(b)
        return [(st, SInt(z3.If(x >= y, x, y) if f is max else z3.If(x <= y, x, y)))]
    if f is str:
        v = args[0] if args else ''
        if isinstance(v, (str, SStr)):
            return [(st, v)]
        h = getattr(ex, 'str_of', None)
        if h:
            return h(v, st)
        raise OutsideSubset('str(%r)' % (v,))
    if f is int:
        return py_int(ex, args[0], st)
    if f in (frozenset, set) and len(args) == 1 and isinstance(args[0], (tuple, frozenset)) \
            and all(isinstance(x, (str, int, type(None))) and not isinstance(x, Sym) for x in args[0]):
        return [(st, frozenset(args[0]))]
    if f is tuple:
        v = args[0] if args else ()
        if isinstance(v, tuple):
            return [(st, v)]
        h = getattr(ex, 'tuple_of', None)
        if h:
            return h(v, st)
        raise OutsideSubset('tuple(...)')
    if f is list:
        v = args[0] if args else ()
        h = getattr(ex, 'list_of', None)
        if h:
            r = h(v, st)
            if r is not NotImplemented:
                return r
        if isinstance(v, tuple):
            return [(st, ex.new_list(st, [('el', x) for x in v]))]
        if isinstance(v, LRef):
            return [(st, ex.new_list(st, list(st.lists[v.lid])))]
        raise OutsideSubset('list(%r)' % (v,))
    if f is all or f is any:
        return py_allany(ex, f is all, args[0], st)
    if f is getattr:
        o, name = args[0], args[1]
        if isinstance(name, Sym):
            raise OutsideSubset('getattr with symbolic name')
        try:
            return [(st, ex.getattr(o, name, st))]
        except PyExc:
            if len(args) > 2:
                return [(st, args[2])]
            raise
    if f is type:
        o = args[0]
        if isinstance(o, Rec):
            flds = st.objs[o.oid]
            if flds.get('__class__') is None and flds.get('CLS') is not None:
                # a token / group record: its class is the value of its CLS field when that is one known class
                import z3 as _z3
                zc = _z3.simplify(flds['CLS'])
                for k, c in ex.W.cls_const.items():
                    if _z3.eq(zc, c):
                        return [(st, k)]
                raise OutsideSubset('type() of a node whose class is not known')
            return [(st, flds.get('__class__'))]
        h = getattr(ex, 'type_of', None)
        if h:
            return h(o, st)
        raise OutsideSubset('type()')
    if f is next:
        return py_next(ex, args, st)
    if f is range:
        if all(not isinstance(a, Sym) for a in args):
            return [(st, tuple(range(*args)))]
        return [(st, Opaque('range', tuple(args)))]
    if f is reversed:
        v = args[0]
        if isinstance(v, tuple):
            return [(st, tuple(reversed(v)))]
        h = getattr(ex, 'reversed_of', None)
        if h:
            return h(v, st)
        raise OutsideSubset('reversed')
    if f is sum and len(args) == 1:
        # sum over a sequence / generator expression with known elements (ints)
        v = args[0]
        if isinstance(v, Opaque) and v.name == 'genexp':
            node = v.data[0]
            if len(node.generators) == 1 and not node.generators[0].ifs and isinstance(node.generators[0].target, ast.Name):
                g = node.generators[0]
                rr = ex.eval(g.iter, st)
                if len(rr) == 1:
                    seq = _concrete_seq(ex, rr[0][1], rr[0][0])
                    if seq is not None:
                        cur = rr[0][0]
                        saved = cur.env.get(g.target.id, UNBOUND)
                        acc = z3.IntVal(0)
                        for x in seq:
                            cur.env[g.target.id] = x
                            r1 = ex.eval(node.elt, cur)
                            if len(r1) != 1:
                                raise OutsideSubset('sum: forking element')
                            cur = r1[0][0]
                            acc = acc + ex.z_int(r1[0][1])
                        if saved is UNBOUND:
                            cur.env.pop(g.target.id, None)
                        else:
                            cur.env[g.target.id] = saved
                        return [(cur, SInt(z3.simplify(acc)))]
            raise OutsideSubset('sum over an unknown generator')
        seq = _concrete_seq(ex, v, st)
        if seq is None:
            raise OutsideSubset('sum of an unknown sequence')
        acc = z3.IntVal(0)
        for x in seq:
            acc = acc + ex.z_int(x)
        return [(st, SInt(z3.simplify(acc)))]
    if f is sum or f is sorted or f is zip:
        raise OutsideSubset(f.__name__)
    # itertools / collections used by utils.consume
    import itertools
    import collections
    if f is itertools.islice:
        lib('itertools.islice')
        it, n = args[0], args[1]
        res = []
        for s, b in ex.decide(st, ex.z_int(n) >= 0 if isinstance(n, Sym) else n >= 0):
            if b:
                res.append((s, ex.new_obj(s, 'islice', {'IT': it, 'CNT': n})))
            else:
                ex.raise_on(s, 'ValueError', 'islice negative')
        return res
    if f is collections.deque:
        lib('collections.deque')
        src = args[0]
        if isinstance(src, Rec) and src.kind == 'islice' and kw.get('maxlen') == 0:
            o = st.objs[src.oid]
            itr = o['IT']
            if isinstance(itr, Rec) and itr.kind in ('enum_iter', 'seq_iter'):
                io = st.objs[itr.oid]
                k, n, cnt = ex.z_int(io['K']), ex.z_int(io['N']), ex.z_int(o['CNT'])
                io['K'] = SInt(z3.simplify(z3.If(k + cnt <= n, k + cnt, n)))
                return [(st, ex.new_obj(st, 'deque', {}))]
        raise OutsideSubset('deque(...)')
    q = qualname_of(f) if (inspect.isfunction(f) or inspect.isclass(f) or inspect.ismethod(f)) else None
    if q:
        if inspect.isclass(f):
            return call_ctor(ex, f, q, args, kw, st)
        return call_repo(ex, q, None, args, kw, st)
    h = getattr(ex, 'call_ext', None)
    if h:
        r = h(f, args, kw, st)
        if r is not NotImplemented:
            return r
    if inspect.isclass(f) and issubclass(f, BaseException):
        return [(st, Opaque('exc:' + f.__name__))]
    raise OutsideSubset('call of %r' % (f,))


# ------------------------------------------------------------------------------- builtins

def py_len(ex, v, st):
    if isinstance(v, SStr):
        return SInt(z3.Length(v.z))
    if isinstance(v, LRef):
        return ex.list_len(st, v)
    if isinstance(v, Opaque) and v.name == 'strsplit':
        # number of words of s.split(): the same uninterpreted count that bounds the word indices
        zs = ex.z_str(v.data['of'])
        n = ex.W.nwords(zs)
        st.assume(n >= 0)
        return SInt(n)
    if isinstance(v, Rec) and v.kind == 'istack':
        return SInt(st.objs[v.oid]['len'])
    if isinstance(v, Sym):
        h = getattr(ex, 'len_of', None)
        if h:
            return h(v, st)
        raise OutsideSubset('len(%r)' % (v,))
    if v is None:
        raise PyExc('TypeError', 'len(None)')
    return len(v)


def py_isinstance(ex, v, cls, st):
    from io import TextIOBase
    if isinstance(cls, tuple):
        return ex.wrapb(ex.disj([_b(py_isinstance(ex, v, c, st)) for c in cls]))
    if isinstance(v, Sym):
        h = getattr(ex, 'isinstance_ext', None)
        if h and not isinstance(v, (SStr, SInt, SBool, STy, LRef)):
            r = h(v, cls, st)
            if r is not NotImplemented:
                return r
        if isinstance(v, SStr):
            return cls is str
        if isinstance(v, SInt):
            return cls is int
        if isinstance(v, SBool):
            return cls in (bool, int)
        if isinstance(v, STy):
            if cls is ex.W.T._TokenType or cls is tuple:
                return SBool(v.z != ex.W.tt_none)
            return False
        if isinstance(v, Rec):
            k = st.objs[v.oid].get('__class__')
            if k is not None:
                return inspect.isclass(cls) and issubclass(k, cls)
            return False
        if isinstance(v, LRef):
            return cls is list
        h = getattr(ex, 'isinstance_ext', None)
        if h:
            r = h(v, cls, st)
            if r is not NotImplemented:
                return r
        if isinstance(v, Opaque) and isinstance(v.data, dict) and 'classes' in v.data:
            import inspect as _i
            return _i.isclass(cls) and any(issubclass(k, cls) for k in v.data['classes'])
        if isinstance(v, (Func, Opaque)):
            return False
        raise OutsideSubset('isinstance(%r, %r)' % (v, cls))
    return isinstance(v, cls)


def _b(x):
    if isinstance(x, SBool):
        return x.z
    return x


def py_int(ex, v, st):
    if isinstance(v, (bool, int)) and not isinstance(v, Sym):
        return [(st, int(v))]
    if isinstance(v, (SInt, SBool)):
        return [(st, SInt(ex.z_int(v)))]
    h = getattr(ex, 'int_of', None)
    if h:
        r = h(v, st)
        if r is not NotImplemented:
            return r
    if v is None:
        raise PyExc('TypeError', 'int(None)')
    if isinstance(v, str):
        try:
            return [(st, int(v))]
        except ValueError:
            raise PyExc('ValueError', 'int(str)')
    if isinstance(v, SStr):
        r = fresh_int('int')
        s2 = st.fork()
        ex.raise_on(s2, 'ValueError', 'int(str)')
        return [(st, r)]
    raise OutsideSubset('int(%r)' % (v,))


def _concrete_seq(ex, v, st):
    """the elements of a tuple or of a list whose elements are all known; None otherwise"""
    if isinstance(v, tuple) and not ex.W.is_tt(v):
        return list(v)
    if isinstance(v, LRef):
        items = st.lists[v.lid]
        if all(it[0] == 'el' for it in items):
            return [it[1] for it in items]
    return None


def py_next(ex, args, st):
    it = args[0]
    if isinstance(it, Rec) and it.kind == 'aseq':
        # next() on a generator modelled as an abstract sequence: it becomes an iterator positioned at its start
        o = st.objs[it.oid]
        o.setdefault('K', 0)
        it = Rec(it.oid, 'seq_iter')
    if isinstance(it, Rec) and it.kind in ('enum_iter', 'seq_iter'):
        o = st.objs[it.oid]
        res = []
        for s, b in ex.decide(st, ex.z_int(o['K']) < ex.z_int(o['N'])):
            if b:
                o2 = s.objs[it.oid]
                k = o2['K']
                o2['K'] = SInt(z3.simplify(ex.z_int(k) + 1))
                for s1, e in o2['AT'](ex, s, k):
                    res.append((s1, (k, e) if it.kind == 'enum_iter' else e))
            elif len(args) > 1:
                res.append((s, args[1]))
            else:
                ex.raise_on(s, 'StopIteration')
        return res
    h = getattr(ex, 'next_ext', None)
    if h:
        r = h(args, st)
        if r is not NotImplemented:
            return r
    raise OutsideSubset('next(%r)' % (it,))


def py_allany(ex, is_all, gen, st):
    h = getattr(ex, 'allany_ext', None)
    if h:
        r = h(is_all, gen, st)
        if r is not NotImplemented:
            return r
    raise OutsideSubset('all/any')


def make_iter(ex, st, seq, kind):
    if isinstance(seq, (str, SStr)):
        zs = ex.z_str(seq)

        def at(ex_, s, k):
            return [(s, SStr(z3.SubString(zs, ex_.z_int(k), 1)))]
        return ex.new_obj(st, kind, {'SEQ': seq, 'K': 0, 'N': SInt(z3.Length(zs)) if isinstance(seq, SStr) else len(seq),
                                     'AT': at})
    h = getattr(ex, 'make_iter_ext', None)
    if h:
        r = h(st, seq, kind)
        if r is not NotImplemented:
            return r
    raise OutsideSubset('iter(%r)' % (seq,))


# ------------------------------------------------------------------------------- str methods

WS_CHARS = None


def str_method(ex, s, name, args, kw, st):
    W = ex.W
    conc = isinstance(s, str) and all(not isinstance(a, Sym) for a in args)
    if conc and name in ('upper', 'lower', 'capitalize', 'startswith', 'endswith', 'strip', 'rstrip', 'lstrip',
                         'split', 'splitlines', 'join', 'format', 'replace', 'isspace', 'isdigit'):
        try:
            if name == 'join':
                if isinstance(args[0], (tuple, list)) and all(isinstance(x, str) for x in args[0]):
                    return [(st, s.join(args[0]))]
            elif name == 'format':
                return [(st, fresh_str('fmt'))]
            else:
                r = getattr(s, name)(*args)
                if isinstance(r, list):
                    r = ex.new_list(st, [('el', x) for x in r])
                return [(st, r)]
        except Exception:
            raise OutsideSubset('str.%s failed concretely' % name)
    zs = ex.z_str(s) if isinstance(s, (str, SStr)) else None
    if name in ('upper', 'lower', 'capitalize'):
        lib('str.' + name + ' (uninterpreted, total)')
        return [(st, SStr(getattr(W, name)(zs)))]
    if name == 'startswith':
        a = args[0]
        if isinstance(a, tuple):
            return [(st, ex.wrapb(ex.disj([z3.PrefixOf(ex.z_str(x), zs) for x in a])))]
        return [(st, SBool(z3.PrefixOf(ex.z_str(a), zs)))]
    if name == 'endswith':
        a = args[0]
        if isinstance(a, tuple):
            return [(st, ex.wrapb(ex.disj([z3.SuffixOf(ex.z_str(x), zs) for x in a])))]
        return [(st, SBool(z3.SuffixOf(ex.z_str(a), zs)))]
    if name == 'format':
        return [(st, fresh_str('fmt'))]
    if name == 'replace' and len(args) == 2 and not kw and all(isinstance(a, (str, SStr)) for a in args):
        lib('str.replace(old, new) (total; the result is an unknown string)')
        return [(st, fresh_str('replaced'))]
    if name == 'split' and len(args) == 2 and not kw and isinstance(args[0], str) and args[0] and args[1] == 1:
        # s.split(sep, 1): [s] when sep does not occur in s, else [a, b] with s == a + sep + b and sep not in a
        lib('str.split(sep, 1) (one- or two-element list by whether sep occurs)')
        sep = z3.StringVal(args[0])
        out = []
        for s2, b in ex.decide(st, z3.Contains(zs, sep)):
            if b:
                a_, b_ = fresh('split_head', z3.StringSort()), fresh('split_tail', z3.StringSort())
                s2.assume(z3.And(zs == z3.Concat(a_, sep, b_), z3.Not(z3.Contains(a_, sep))))
                out.append((s2, ex.new_list(s2, [('el', SStr(a_)), ('el', SStr(b_))])))
            else:
                out.append((s2, ex.new_list(s2, [('el', s)])))
        return out
    if name == 'split' and not args and not kw:
        lib('str.split() (uninterpreted word count / words; IndexError beyond the count)')
        nw = W.nwords(zs)
        st.assume(nw >= 0)

        def sp_index(ex2, o, i, s2):
            if not isinstance(i, int) or i < 0:
                raise OutsideSubset('split()[sym]')
            res = []
            for s3, b in ex2.decide(s2, nw > i):
                if b:
                    res.append((s3, SStr(W.word(zs, z3.IntVal(i)))))
                else:
                    ex2.raise_on(s3, 'IndexError', 'split()[%d]' % i)
            return res
        return [(st, Opaque('strsplit', {'index': sp_index, 'of': s}))]
    if name == 'join' and isinstance(args[0], LRef) and all(it[0] == 'el' and isinstance(it[1], (str, SStr))
                                                              for it in st.lists[args[0].lid]):
        args = [tuple(it[1] for it in st.lists[args[0].lid])] + list(args[1:])
        if isinstance(s, str) and all(isinstance(x, str) for x in args[0]):
            return [(st, s.join(args[0]))]
    if name == 'join' and isinstance(args[0], Opaque) and args[0].name == 'strsplit':
        lib('sep.join(s.split()) (uninterpreted function of (sep, s): whitespace-collapsed s)')
        fn = z3.Function('join_split', z3.StringSort(), z3.StringSort(), z3.StringSort())
        return [(st, SStr(fn(zs, ex.z_str(args[0].data['of']))))]
    if name == 'join' and isinstance(args[0], tuple) and all(isinstance(x, (str, SStr)) for x in args[0]):
        parts = []
        for k, x in enumerate(args[0]):
            if k:
                parts.append(zs)
            parts.append(ex.z_str(x))
        if not parts:
            return [(st, '')]
        return [(st, SStr(z3.Concat(*parts) if len(parts) > 1 else parts[0]))]
    if name in ('strip', 'lstrip', 'rstrip') and len(args) == 1 and isinstance(args[0], (str, SStr)):
        lib('str.%s(chars) (uninterpreted; result is a contiguous piece of the argument)' % name)
        fn = z3.Function('py_' + name + '_chars', z3.StringSort(), z3.StringSort(), z3.StringSort())
        c = ex.z_str(args[0])
        r = fn(zs, c)
        st.assume(z3.Contains(zs, r))
        # for a one-character argument the result is pinned down: s == c* ++ r ++ c*, r neither starts nor ends with c
        pre, suf = fresh('strip_pre', z3.StringSort()), fresh('strip_suf', z3.StringSort())
        one = [zs == z3.Concat(pre, r, suf), z3.InRe(pre, z3.Star(z3.Re(c))), z3.InRe(suf, z3.Star(z3.Re(c)))]
        if name != 'rstrip':
            one.append(z3.Not(z3.PrefixOf(c, r)))
        else:
            one.append(pre == z3.StringVal(''))
        if name != 'lstrip':
            one.append(z3.Not(z3.SuffixOf(c, r)))
        else:
            one.append(suf == z3.StringVal(''))
        st.assume(z3.Implies(z3.Length(c) == 1, z3.And(*one)))
        return [(st, SStr(r))]
    if name in ('strip', 'lstrip', 'rstrip') and not args:
        lib('str.%s() (uninterpreted; result is a contiguous piece of the argument)' % name)
        fn = z3.Function('py_' + name, z3.StringSort(), z3.StringSort())
        r = fn(zs)
        st.assume(z3.Contains(zs, r))
        if getattr(getattr(ex, 'contract', None), 'precise_strip', False):
            # s == ws* ++ r ++ ws*, r neither starts nor ends with a whitespace character (str.isspace)
            pre, suf = fresh('strip_pre', z3.StringSort()), fresh('strip_suf', z3.StringSort())
            ws = ws_re()
            st.assume(z3.And(zs == z3.Concat(pre, r, suf), z3.InRe(pre, z3.Star(ws)), z3.InRe(suf, z3.Star(ws))))
            if name != 'rstrip':
                st.assume(z3.Not(starts_ws(r)))
            else:
                st.assume(pre == z3.StringVal(''))
            if name != 'lstrip':
                st.assume(z3.Not(ends_ws(r)))
            else:
                st.assume(suf == z3.StringVal(''))
        return [(st, SStr(r))]
    if name == 'join' and isinstance(args[0], Opaque) and args[0].name == 'genexp':
        return [(st, fresh_str('joined'))]
    if name == 'join':
        h = getattr(ex, 'str_join', None)
        if h:
            return h(s, args[0], st)
        raise OutsideSubset('str.join')
    h = getattr(ex, 'str_method_ext', None)
    if h:
        r = h(s, name, args, kw, st)
        if r is not NotImplemented:
            return r
    raise OutsideSubset('str.%s' % name)


_WS = None


def ws_re():
    """the one-character regular language of Python's str.isspace() (computed from the running interpreter)"""
    global _WS
    if _WS is None:
        chars = [chr(c) for c in range(0x30000) if chr(c).isspace()]
        _WS = z3.Union(*[z3.Re(z3.StringVal(c)) for c in chars])
    return _WS


def ends_ws(z):
    return z3.InRe(z, z3.Concat(z3.Full(z3.ReSort(z3.StringSort())), ws_re()))


def starts_ws(z):
    return z3.InRe(z, z3.Concat(ws_re(), z3.Full(z3.ReSort(z3.StringSort()))))


# ------------------------------------------------------------------------------- list / dict methods

def list_method(ex, l, name, args, kw, st):
    items = st.lists[l.lid]
    if name == 'append':
        aa = getattr(getattr(ex, 'contract', None), 'append_asserts', None)
        if aa:
            # obligations the caller's contract attaches to `<name>.append(x)` (evaluated in the caller's frame, `item`
            # = the appended value)
            for n, v in list(st.env.items()):
                if isinstance(v, LRef) and v.lid == l.lid:
                    for j, sp in enumerate(aa.get(n, [])):
                        ex.goal('%s/append[%s]#%d' % (ex.fn, n, j), st, ex.spec(sp, st, {'item': args[0]}), {'assert': sp})
        st.lists[l.lid] = items + (('el', args[0]),)
        st.ghost['__ver__%d' % l.lid] = st.ghost.get('__ver__%d' % l.lid, 0) + 1
        if hasattr(ex, 'is_tokens_list') and ex.is_tokens_list(st, l):
            ex.site('insert', st, elem=args[0])
        return [(st, None)]
    if name == 'pop' and not args:
        if items and items[-1][0] == 'el':
            st.lists[l.lid] = items[:-1]
            st.ghost['__ver__%d' % l.lid] = st.ghost.get('__ver__%d' % l.lid, 0) + 1
            return [(st, items[-1][1])]
        if not items:
            raise PyExc('IndexError', 'pop from empty list')
    h = getattr(ex, 'list_method_ext', None)
    if h:
        r = h(l, name, args, kw, st)
        if r is not NotImplemented:
            return r
    raise OutsideSubset('list.%s' % name)


def dict_method(ex, d, name, args, kw, st):
    if name == 'get':
        k = args[0]
        if isinstance(k, Sym):
            raise OutsideSubset('dict.get(sym)')
        h = getattr(ex, 'dict_get_ext', None)
        if h:
            r = h(d, args, st)
            if r is not NotImplemented:
                return r
        return [(st, d.get(k, args[1] if len(args) > 1 else None))]
    raise OutsideSubset('dict.%s' % name)


# ------------------------------------------------------------------------------- repo functions

def bind_params(ex, fnode, self_val, args, kw, st, defaults_env):
    """bind call arguments to parameters -> dict"""
    a = fnode.args
    names = [x.arg for x in a.posonlyargs + a.args]
    env = {}
    pos = list(args)
    if self_val is not None:
        pos = [self_val] + pos
    if len(pos) > len(names) and not a.vararg:
        raise PyExc('TypeError', 'too many arguments')
    for n, v in zip(names, pos):
        env[n] = v
    if a.vararg:
        env[a.vararg.arg] = tuple(pos[len(names):])
    kw = dict(kw)
    for n in names[len(pos):]:
        if n in kw:
            env[n] = kw.pop(n)
    for x in a.kwonlyargs:
        if x.arg in kw:
            env[x.arg] = kw.pop(x.arg)
    if a.kwarg:
        env[a.kwarg.arg] = kw
        kw = {}
    elif kw:
        raise PyExc('TypeError', 'unexpected keyword %s' % list(kw))
    # defaults
    ndef = len(a.defaults)
    for i, d in enumerate(a.defaults):
        n = names[len(names) - ndef + i]
        if n not in env:
            env[n] = defaults_env(d)
    for x, d in zip(a.kwonlyargs, a.kw_defaults):
        if x.arg not in env and d is not None:
            env[x.arg] = defaults_env(d)
    for n in names:
        if n not in env:
            raise PyExc('TypeError', 'missing argument %s' % n)
    return env


def call_inline(ex, f, args, kw, st, qual=None):
    """execute the body of a local closure / lambda / inline-marked repo function in place"""
    node = f.node
    saved = (ex.fn, ex.genv, ex.contract, ex.loop_ords)
    caller_env = st.env

    def dflt(d):
        tmp = State()
        tmp.env = dict(f.closure.env) if f.closure is not None else {}
        return ex.eval1(d, tmp) if False else _const_default(ex, d, f)
    env = bind_params(ex, node, f.self_val if not isinstance(node, ast.Lambda) else None, args, kw, st, dflt)
    frame = {}
    if f.closure is not None:
        # closures read their free variables from the defining frame (current values: late binding)
        frame = dict(_closure_env(f, st))
    frame.update(env)
    st.env = frame
    ex.inline_depth += 1
    if ex.inline_depth > 12:
        raise OutsideSubset('inline depth')
    try:
        if qual:
            from .core import loops_of
            ex.fn = qual
            ex.loop_ords = loops_of(node)
            ex.contract = ex.reg.get(qual)
            mod = sys.modules[qual.rsplit('.', 2)[0]] if False else None
        if isinstance(node, ast.Lambda):
            res = [(s, Outcome.RET, v) for s, v in ex.eval(node.body, st)]
        else:
            res = ex.exec_block(node.body, st)
    except BaseException:
        st.env = caller_env
        raise
    finally:
        ex.fn, ex.genv, ex.contract, ex.loop_ords = saved
        ex.inline_depth -= 1
    out = []
    for s, oc, val in res:
        callee_env = s.env
        # write back closure variables? closures here only read free variables (checked: nonlocal is rejected)
        s.env = _restore_env(caller_env, callee_env, f)
        if oc == Outcome.RET:
            out.append((s, val))
        elif oc == Outcome.NEXT:
            out.append((s, None))
        elif oc == Outcome.RAISE:
            ex.raise_on(s, val.cls_name, val.msg)
        else:
            raise OutsideSubset('break/continue leaving function')
    return out


def _closure_env(f, st):
    # free variables of a closure defined in the current function: resolve in the *current* caller env,
    # falling back to the env captured at definition time
    base = dict(f.closure.env) if f.closure is not None else {}
    base.update({k: v for k, v in st.env.items() if k in base})
    return base


def _restore_env(caller_env, callee_env, f):
    return dict(caller_env)      # one copy per resulting path (paths must not share an environment)


def _const_default(ex, d, f):
    if isinstance(d, ast.Constant):
        return d.value
    if isinstance(d, ast.UnaryOp) and isinstance(d.op, ast.USub) and isinstance(d.operand, ast.Constant):
        return -d.operand.value
    if isinstance(d, ast.Name):
        if d.id in ex.genv:
            return ex.genv[d.id]
    if isinstance(d, ast.Lambda):
        return Func('<default lambda>', node=d, closure=None)
    raise OutsideSubset('default value %s' % ast.unparse(d))


def repo_fn_node(q):
    return source().get(q)


def call_repo(ex, q, self_val, args, kw, st):
    """a function of the repository: by contract (modular) or inline if the sidecar says so"""
    c = ex.reg.get(q)
    node = repo_fn_node(q)
    if c is not None and getattr(c, 'model', None):
        CALLEE_MODELS_USED.add(q)
        return c.model(ex, self_val, args, kw, st)
    if c is not None and not getattr(c, 'inline', False):
        CALLEE_MODELS_USED.add(q)
        return apply_contract(ex, c, q, node, self_val, args, kw, st)
    if node is None:
        raise OutsideSubset('no source for %s' % q)
    if c is None and q not in ex.reg.inline_ok:
        # a helper without a sidecar contract: its body is executed in place (that IS its strongest contract) when it
        # is loop-free and not being inlined already; anything else needs a contract
        has_loop = any(isinstance(n, (ast.For, ast.While, ast.AsyncFor)) for n in ast.walk(node))
        stack = getattr(ex, '_auto_inline_stack', [])
        shape = getattr(getattr(ex, 'top_contract', None), 'shape_case', False)
        if (q in stack and not (shape and stack.count(q) < 4)) or len(stack) > 8:
            # (recursion over an explicit node shape is bounded by the depth of the shape)
            raise OutsideSubset('call of %s which has no contract' % q)
        lib('helper without a contract executed in place: ' + q)
        memo = memo_idiom(q, node)
        if memo is not None:
            # a memoising helper (module-level dict filled on a miss, only by this function, with a value computed from
            # the key alone): its result is the computed value; the cache invariant D[k] == E(k) is the idiom itself
            lib('memoisation idiom: %s returns %s (value depends on the key only; cache written nowhere else)'
                % (q, ast.unparse(memo.body[0].value)))
            node = memo
        ex._auto_inline_stack = stack + [q]
        # a helper with loops can only be executed in place if every loop runs over KNOWN elements (it is then unrolled);
        # a loop that would have to be cut needs an invariant, i.e. a contract
        saved_flag = getattr(ex, '_no_cut_loops', None)
        if has_loop:
            ex._no_cut_loops = q
        try:
            return call_repo_inline(ex, q, node, self_val, args, kw, st)
        finally:
            ex._auto_inline_stack = stack
            ex._no_cut_loops = saved_flag
    modname = q
    # find the module globals of the callee
    mod = None
    parts = q.split('.')
    for i in range(len(parts), 0, -1):
        m = sys.modules.get('.'.join(parts[:i]))
        if m is not None:
            mod = m
            break
    f = Func(q, node=node, closure=None, self_val=self_val)
    saved_genv = ex.genv
    ex.genv = vars(mod)
    try:
        return call_inline(ex, f, args, kw, st, qual=q)
    finally:
        ex.genv = saved_genv


def _names(e):
    return {n.id for n in ast.walk(e) if isinstance(n, ast.Name)}


def memo_idiom(q, node):
    """recognise   try: return D[K]  except KeyError: [r =] D[K] = E; return r|D[K]     and
                   if K not in D: D[K] = E      return D[K]
    where D is a module-level name bound once to an empty dict, stored to only inside this function, and E mentions only
    names of K (and module-level names): returns a copy of the FunctionDef whose body is `return E`, else None"""
    if not isinstance(node, ast.FunctionDef):
        return None
    body = [b for b in node.body if not (isinstance(b, ast.Expr) and isinstance(b.value, ast.Constant))]
    D = K = E = None
    # leading  name = <expression over the parameters>  statements (typically  key = (a, b) ) are substituted
    params0 = {a.arg for a in node.args.args + node.args.kwonlyargs}
    subst = {}
    while body and isinstance(body[0], ast.Assign) and len(body[0].targets) == 1 and isinstance(body[0].targets[0], ast.Name) \
            and _names(body[0].value) <= params0 and body[0].targets[0].id not in params0:
        subst[body[0].targets[0].id] = body[0].value
        body = body[1:]
    if subst:
        import copy

        class _Sub(ast.NodeTransformer):
            def visit_Name(self, n):
                if isinstance(n.ctx, ast.Load) and n.id in subst:
                    return copy.deepcopy(subst[n.id])
                return n
        body = [_Sub().visit(copy.deepcopy(b)) for b in body]
        if any(isinstance(n, ast.Name) and isinstance(n.ctx, ast.Store) and n.id in subst for b in body for n in ast.walk(b)):
            return None

    def sub(e):
        if isinstance(e, ast.Subscript) and isinstance(e.value, ast.Name):
            return e.value.id, e.slice
        return None, None
    same = lambda a, b: ast.dump(a) == ast.dump(b)    # noqa: E731
    if len(body) == 1 and isinstance(body[0], ast.Try) and not body[0].finalbody and not body[0].orelse \
            and len(body[0].body) == 1 and isinstance(body[0].body[0], ast.Return) and len(body[0].handlers) == 1:
        t = body[0]
        D, K = sub(t.body[0].value)
        h = t.handlers[0]
        if D is None or not (isinstance(h.type, ast.Name) and h.type.id == 'KeyError') or len(h.body) != 2:
            return None
        a, r = h.body
        if not (isinstance(a, ast.Assign) and isinstance(r, ast.Return) and r.value is not None):
            return None
        subs = [x for x in a.targets if isinstance(x, ast.Subscript)]
        nms = [x for x in a.targets if isinstance(x, ast.Name)]
        if len(subs) != 1 or len(subs) + len(nms) != len(a.targets):
            return None
        d2, k2 = sub(subs[0])
        if d2 != D or not same(k2, K):
            return None
        if isinstance(r.value, ast.Name):
            if r.value.id not in [x.id for x in nms]:
                return None
        else:
            d3, k3 = sub(r.value)
            if d3 != D or not same(k3, K):
                return None
        E = a.value
    elif len(body) == 2 and isinstance(body[0], ast.If) and not body[0].orelse and isinstance(body[1], ast.Return) \
            and body[1].value is not None:
        c = body[0].test
        if not (isinstance(c, ast.Compare) and len(c.ops) == 1 and isinstance(c.ops[0], ast.NotIn)
                and isinstance(c.comparators[0], ast.Name)):
            return None
        D, K = c.comparators[0].id, c.left
        if len(body[0].body) != 1 or not isinstance(body[0].body[0], ast.Assign) or len(body[0].body[0].targets) != 1:
            return None
        d2, k2 = sub(body[0].body[0].targets[0])
        d3, k3 = sub(body[1].value)
        if d2 != D or d3 != D or not (same(k2, K) or same(k2, ast.Tuple(elts=[], ctx=ast.Load())) and False) \
                or not same(k3, K):
            return None
        E = body[0].body[0].value
    else:
        return None
    # D: module-level, bound once to an empty dict, never stored to / mutated / rebound outside this function
    modq = q.rsplit('.', 1)[0]
    mod = sys.modules.get(modq)
    if mod is None or not getattr(mod, '__file__', None):
        return None
    tree = ast.parse(open(mod.__file__).read())
    binds = [n for n in tree.body if isinstance(n, ast.Assign) and any(isinstance(t, ast.Name) and t.id == D for t in n.targets)]
    if len(binds) != 1 or not (isinstance(binds[0].value, ast.Dict) and not binds[0].value.keys):
        return None
    params = {a.arg for a in node.args.args + node.args.kwonlyargs}
    if D in params or any(isinstance(n, (ast.Global, ast.Nonlocal)) for n in ast.walk(node)):
        return None
    uses_outside = 0
    mine = [n for n in ast.walk(tree) if isinstance(n, ast.FunctionDef) and n.name == node.name and n.lineno == node.lineno]
    if len(mine) != 1:
        return None
    inside = {id(n) for n in ast.walk(mine[0])}
    for n in ast.walk(tree):
        if isinstance(n, ast.Name) and n.id == D and id(n) not in inside and n is not binds[0].targets[0]:
            uses_outside += 1
    if uses_outside:
        return None
    # E depends on the key only (plus module-level names)
    if not (_names(E) - set(vars(mod))) <= (_names(K) & params):
        return None
    if not _names(K) <= params:
        return None
    new = ast.FunctionDef(name=node.name, args=node.args, body=[ast.Return(value=E)], decorator_list=[], returns=None,
                          type_comment=None, lineno=node.lineno, col_offset=node.col_offset)
    try:
        new.type_params = []
    except Exception:
        pass
    ast.fix_missing_locations(new)
    ast.copy_location(new.body[0], E)
    return new


def call_repo_inline(ex, q, node, self_val, args, kw, st):
    mod = None
    parts = q.split('.')
    for i in range(len(parts), 0, -1):
        m = sys.modules.get('.'.join(parts[:i]))
        if m is not None:
            mod = m
            break
    f = Func(q, node=node, closure=None, self_val=self_val)
    saved_genv = ex.genv
    ex.genv = vars(mod)
    try:
        return call_inline(ex, f, args, kw, st, qual=q)
    finally:
        ex.genv = saved_genv


def call_ctor(ex, cls, q, args, kw, st):
    c = ex.reg.get(q) or ex.reg.get(q + '.__init__')
    if c is not None and getattr(c, 'model', None):
        return c.model(ex, cls, args, kw, st)
    # generic: allocate a record, run __init__ inline if it has source and is allowed
    init_q = None
    for k in cls.__mro__:
        if '__init__' in vars(k):
            init_q = '%s.%s.__init__' % (k.__module__, k.__qualname__)
            break
    o = ex.new_obj(st, cls.__name__, {'__class__': cls})
    if init_q is None or not init_q.startswith('sqlparse'):
        return [(st, o)]
    res = call_repo(ex, init_q, o, args, kw, st)
    return [(s, o) for s, _ in res]


def apply_contract(ex, c, q, node, self_val, args, kw, st):
    """assert pre; havoc modifies; assume post"""
    env = bind_params(ex, node, self_val, args, kw, st, lambda d: _const_default(ex, d, None)) if node is not None \
        else {}
    pre = st.fork()
    pre.env = dict(env)
    for j, r in enumerate(getattr(c, 'requires', [])):
        ex.goal('%s/call:%s.pre#%d' % (ex.fn, q.split('.', 1)[1], j), st, ex.spec(r, pre), {'requires': r})
    outs = []
    for mod in getattr(c, 'modifies', []):
        pname, fld = mod.split('.')
        tgt = env[pname]
        if not isinstance(tgt, Rec):
            raise OutsideSubset('modifies on non-record %r' % (tgt,))
        from .loops import fresh_like
        nv = fresh_like(ex, st.objs[tgt.oid][fld], fld)
        if nv is None:
            raise OutsideSubset('cannot havoc %s' % mod)
        st.objs[tgt.oid][fld] = nv
    results = c.make_result(ex, st, env) if hasattr(c, 'make_result') else [(st, None)]
    if getattr(c, 'post_bind', None) and not hasattr(c, 'make_result'):
        raise OutsideSubset('call of %s by a contract whose result shape is not declared (make_result)' % q)
    for s, res in results:
        # post_bind ghosts of the callee's contract (values of pure query methods in the exit state), computed here in
        # the caller's state exactly as the verifier computes them at the callee's exits; may fork
        states = [(s, {'result': res})]
        for gname, gexpr in (getattr(c, 'post_bind', None) or {}).items():
            nxt = []
            for s_b, binds in states:
                tmp = s_b.fork()
                tmp.env = dict(env)
                tmp.env.update(binds)
                old_spec, ex._in_spec = getattr(ex, '_in_spec', False), True
                old_facts, ex._facts = getattr(ex, '_facts', None), None
                try:
                    rr = ex.eval(ast.parse(gexpr, mode='eval').body, tmp)
                finally:
                    ex._in_spec, ex._facts = old_spec, old_facts
                for s_r, v_r in rr:
                    if smt.feasible(s_r.pc):
                        b2 = dict(binds)
                        b2[gname] = v_r
                        s_r.env = dict(s_b.env)
                        nxt.append((s_r, b2))
            states = nxt
        for s_b, binds in states:
            post = s_b.fork()
            post.env = dict(env)
            post.env.update(binds)
            ex._old_state = pre
            for e in getattr(c, 'ensures', []):
                s_b.assume(_zz(ex.spec(e, post)))
            outs.append((s_b, res))
    for exc in getattr(c, 'may_raise', []):
        s2 = st.fork()
        ex.raise_on(s2, exc, 'from callee contract')
    return outs


def _zz(t):
    return z3.BoolVal(t) if isinstance(t, bool) else t
