"""Heap model for the token tree (DESIGN 3.3): lists in segment normal form, lazily materialised token objects,
ghost text summaries; no quantifier ever reaches the solver.

  * a list is a tuple of items  ('el', value) | ('seg', segid);  st.segs[segid] = {'len': z3 Int, 'txt': z3 String,
    'uni': {field: value}}  is an opaque run of anonymous token objects with a symbolic length, a ghost text summary
    (concatenation of the texts of its elements) and *uniform* field facts (e.g. every element has parent == P);
  * indexing at a symbolic position splits the segment that contains it and materialises that one element as a
    record whose fields come from the uniform facts (lazy initialisation); slices split at two boundaries;
  * `for x in L: <body>` over a list with opaque segments is summarised by executing the body once on a generic
    representative of each segment (allowed only when the body writes nothing but fields of x itself);
  * every token record carries the ghost field TXT (= str() of the node); for a group the local invariant is
    TXT == concatenation of the children's TXT == value (I4/I5), parent of every child == the group (I1).
"""
import ast
import itertools

import z3

from . import smt
from .dyn import DynExec
from .symex import (Outcome, PyExc, OutsideSubset, Sym, SInt, SBool, SStr, STy, Rec, LRef, Opaque, Func, UNBOUND,
                    fresh, fresh_int, fresh_str, fresh_bool, World)

_ids = itertools.count(1)

TOKEN_FIELDS = ('ttype', 'value', 'parent', 'is_group', 'is_whitespace', 'is_keyword', 'is_newline', 'normalized')


class SCls(Sym):
    """a class value that is only known symbolically (sub-class of sql.TokenList)"""

    def __init__(self, z):
        self.z = z

    def __repr__(self):
        return 'SCls(%s)' % self.z


class ORef(Sym):
    """an object reference that may be None or one of several records: (z3 Int id); only used for `parent` of
    anonymous elements"""

    def __init__(self, z):
        self.z = z


def subclass_formula(W, zc, cls):
    """z3 formula: class tag zc denotes a subclass of the real class cls"""
    subs = [k for k in W.classes if issubclass(k, cls)]
    if not subs:
        return z3.BoolVal(False)
    return z3.Or(*[zc == W.cls_const[k] for k in subs])


class HeapExec(DynExec):

    # ------------------------------------------------------------------ segments
    def segs(self, st):
        if not hasattr(st, 'segs_') or st.segs_ is None:
            st.segs_ = {}
        return st.segs_

    def new_seg(self, st, length=None, txt=None, uni=None, name='seg', base=None, lo=None, hi=None):
        """an opaque run of elements.  A segment is a view (base, lo, hi) of an abstract base sequence: its ghost text
        is the uninterpreted SEGTXT(base, lo, hi), so that the same piece obtained by different splits has the same
        text term; the concatenation law is instantiated at every split."""
        sid = next(_ids)
        if base is None:
            base = next(_ids)
            lo = z3.IntVal(0)
            hi = length if length is not None else fresh(name + '_len', z3.IntSort())
        ln = z3.simplify(hi - lo)
        st.assume(ln >= 0)          # (branch-local: follows from where the split position lies)
        t = SEGTXT(z3.IntVal(base), lo, hi)
        if txt is not None:
            self.add_fact(st, t == txt)
        self.segs(st)[sid] = {'len': ln, 'txt': t, 'uni': dict(uni or {}), 'base': base, 'lo': lo, 'hi': hi}
        return sid

    def split_seg(self, st, sid, off):
        """split segment sid at offset off (0 <= off <= len): two views of the same base + the concatenation law"""
        seg = self.segs(st)[sid]
        mid = z3.simplify(seg['lo'] + off)
        s1 = self.new_seg(st, uni=seg['uni'], base=seg['base'], lo=seg['lo'], hi=mid)
        s2 = self.new_seg(st, uni=seg['uni'], base=seg['base'], lo=mid, hi=seg['hi'])
        # concatenation law of SEGTXT, guarded by its side condition so that it is valid unconditionally
        self.add_fact(st, z3.Implies(z3.And(seg['lo'] <= mid, mid <= seg['hi']),
                                     seg['txt'] == z3.Concat(self.segs(st)[s1]['txt'], self.segs(st)[s2]['txt'])))
        return s1, s2

    def item_len(self, st, it):
        return z3.IntVal(1) if it[0] == 'el' else self.segs(st)[it[1]]['len']

    def list_semantic_key(self, st, lref):
        return _canon_items(st, st.lists[lref.lid])

    def list_len(self, st, lref):
        items = st.lists[lref.lid]
        n, sym = 0, []
        for it in items:
            if it[0] == 'el':
                n += 1
            else:
                sym.append(self.segs(st)[it[1]]['len'])
        if not sym:
            return n
        return SInt(z3.simplify(z3.Sum(*sym) + n if len(sym) > 1 else sym[0] + n))

    def suffix_items(self, st, lref, pos):
        """items of the list from absolute position pos on (splitting a segment there if needed)"""
        k = self.split_at(st, lref, pos)
        return st.lists[lref.lid][k:]

    def items_equal(self, st, a, b):
        """z3 formula: two item sequences denote the same sequence of elements (views of the same base compared by
        their bounds, materialised elements by identity); a conservative `False` when the shapes differ"""
        ca, cb = _merge_views(st, a), _merge_views(st, b)
        if len(ca) != len(cb):
            return z3.BoolVal(False)
        parts = []
        for x, y in zip(ca, cb):
            if x[0] != y[0]:
                return z3.BoolVal(False)
            if x[0] == 'seg':
                if x[1] != y[1]:
                    return z3.BoolVal(False)
                parts += [x[2] == y[2], x[3] == y[3]]
            elif x[1] != y[1]:
                return z3.BoolVal(False)
        return z3.And(*parts) if parts else z3.BoolVal(True)

    def zlen(self, st, lref):
        n = self.list_len(st, lref)
        return self.z_int(n)

    # ------------------------------------------------------------------ token records
    def new_token(self, st, fields, kind='Token'):
        f = {'TXT': None}
        f.update(fields)
        return self.new_obj(st, kind, f)

    def materialise(self, st, sid, tag='e', off=None):
        """a record standing for the element at offset `off` (default 0) of segment sid.  Pristine field values are
        uninterpreted functions of (base, position): re-materialising the same position gives the same terms."""
        W = self.W
        seg = self.segs(st)[sid]
        uni = seg['uni']
        b = z3.IntVal(seg['base'])
        pos = z3.simplify(seg['lo'] + (off if off is not None else 0))
        F = elem_functions(W)
        val = SStr(F['value'](b, pos))
        isg = SBool(F['is_group'](b, pos))
        cls = F['cls'](b, pos)
        tt = STy(F['ttype'](b, pos))
        f = {'CLS': cls, 'value': val, 'TXT': val, 'is_group': isg, 'ttype': tt,
             'parent': uni.get('parent', Opaque('unknown-parent')),
             'is_whitespace': SBool(self._b(self.contains(tt, W.T.Whitespace, st))),
             'is_keyword': SBool(self._b(self.contains(tt, W.T.Keyword, st))),
             'is_newline': SBool(self._b(self.contains(tt, W.T.Newline, st))),
             'normalized': SStr(F['normalized'](b, pos)), '__base__': seg['base'], '__pos__': pos}
        if uni.get('__class_axioms__'):
            # class invariants of the constructors (stated precondition of the segment): a node of a TokenList class is a
            # group without a token type; a plain Token is a leaf
            zg = subclass_formula(W, cls, W.sql.TokenList)
            st.assume(isg.z == zg)
            st.assume(z3.Implies(zg, tt.z == W.tt_none))
        for k, v in uni.items():
            if k == '__class_axioms__':
                continue
            if k == '__all_groups__':
                # stated shape of the segment: every element is a group node (e.g. the chain of ancestors of a token)
                st.assume(isg.z)
                continue
            if k == '__ttype_in__':
                # stated shape of the segment: every element's token type lies in the given family (e.g. whitespace runs)
                st.assume(self._b(self.contains(tt, v, st)))
                continue
            if k == '__values_nonempty__':
                # stated invariant of the segment: every element's value is non-empty (C01 for leaves, I3/I4 for groups)
                st.assume(z3.Length(val.z) >= 1)
                continue
            f[k] = v
        for k in st.ghost.get('__taint__', ()):
            # this field was written for some element in an earlier (abstract) loop iteration: value unknown
            if k in f and k not in uni:
                from .loops import fresh_like
                nv = fresh_like(self, f[k], tag + '_' + k)
                if nv is not None:
                    f[k] = nv
                    if k == 'value':
                        f['TXT'] = None
        r = self.new_obj(st, 'Token', f)
        # class facts: groups are TokenList instances with ttype None; leaves are plain Tokens with a ttype
        is_list = subclass_formula(W, cls, W.sql.TokenList)
        self.add_fact(st, isg.z == is_list)
        self.add_fact(st, z3.Implies(isg.z, tt.z == W.tt_none))
        self.add_fact(st, z3.Implies(z3.Not(isg.z), z3.And(tt.z != W.tt_none, cls == W.cls_const[W.sql.Token])))
        return r

    def _b(self, x):
        return z3.BoolVal(x) if isinstance(x, bool) else x

    def ensure_tokens(self, st, rec):
        """the children list of a group record (lazily created: one opaque segment whose elements have parent=rec
        and whose text is the group's text)"""
        o = st.objs[rec.oid]
        if o.get('tokens') is None:
            if '#children' in st.ghost.get('__taint__', ()):
                # children lists were modified in an earlier (abstract) loop iteration: nothing is known about them
                sid = self.new_seg(st, name='children')
                o['tokens'] = self.new_list(st, [('seg', sid)])
                return o['tokens']
            txt = self.z_str(o['TXT']) if o.get('TXT') is not None else None
            sid = self.new_seg(st, txt=txt, uni={'parent': rec}, name='children')
            # I3: a group is never empty
            st.assume(self.segs(st)[sid]['len'] >= 1)
            o['tokens'] = self.new_list(st, [('seg', sid)])
        return o['tokens']

    def getattr(self, o, name, st):
        if isinstance(o, Rec) and o.kind == 'Token' and name == 'tokens' and st.objs[o.oid].get('tokens') is None \
                and 'tokens' not in st.objs[o.oid].get('__absent__', ()):
            isg = st.objs[o.oid].get('is_group')
            if isg is True or (isinstance(isg, SBool) and smt.entails(st.pc, isg.z)):
                return self.ensure_tokens(st, o)
            if isg is False or (isinstance(isg, SBool) and smt.entails(st.pc, z3.Not(isg.z))):
                raise PyExc('AttributeError', 'tokens of a leaf')
            raise OutsideSubset('.tokens of a node that may be a leaf')
        if isinstance(o, Rec) and o.kind == 'Token' and name not in st.objs[o.oid]:
            m = self.token_method(o, name, st)
            if m is not None:
                return m
        return super().getattr(o, name, st)

    def token_method(self, o, name, st):
        """method / property lookup on a token record whose class is only known symbolically: resolved over the
        real class hierarchy of sqlparse.sql; ambiguous names are dispatched on what the path condition knows"""
        import types
        from .symex import PropertyCall
        W = self.W
        definers = [k for k in list(W.classes) + [W.sql.NameAliasMixin] if name in vars(k)]
        if not definers:
            return None
        fo = st.objs[o.oid]
        cands = []
        provmap = {k: next((b for b in k.__mro__ if name in vars(b)), None) for k in W.classes}
        distinct = {p_ for p_ in provmap.values() if p_ is not None}
        if len(distinct) == 1:
            cands = list(distinct)       # the same class provides it for every receiver: no solver query needed
        for k in (W.classes if not cands else ()):
            # the class whose MRO provides `name` for an instance of k
            prov = next((b for b in k.__mro__ if name in vars(b)), None)
            if prov is None:
                continue
            if smt.feasible(st.pc + [fo['CLS'] == W.cls_const[k]]):
                cands.append(prov)
        provs = []
        for p_ in cands:
            if p_ not in provs:
                provs.append(p_)
        if not provs:
            # the path condition is unsatisfiable here (a branch that will be pruned): any provider will do
            provs = definers[:1]
        if len(provs) > 1:
            # several providers with textually identical definitions (e.g. _groupable_tokens of the bracket and block
            # classes): any of them is the definition that runs
            from .core import source
            dumps = set()
            for p_ in provs:
                nd = source().get('%s.%s.%s' % (p_.__module__, p_.__qualname__, name))
                dumps.add(ast.dump(nd) if nd is not None else id(p_))
            if len(dumps) == 1:
                provs = provs[:1]
        if len(provs) > 1 and all(isinstance(vars(p_)[name], types.FunctionType) for p_ in provs):
            # dynamic dispatch on a receiver whose class is only known symbolically: one branch per provider, under the
            # assumption that the receiver's class resolves the name to that provider
            from . import models

            def dispatch(ex_, self_val, args, kw, s, provs=tuple(provs)):
                out = []
                for p_ in provs:
                    ks = [k for k in W.classes if provmap.get(k) is p_]
                    s1 = s.fork()
                    s1.assume(z3.Or(*[s1.objs[o.oid]['CLS'] == W.cls_const[k] for k in ks]))
                    if not smt.feasible(s1.pc):
                        continue
                    q_ = '%s.%s.%s' % (p_.__module__, p_.__qualname__, name)
                    out.extend(models.call_repo(ex_, q_, o, list(args), dict(kw), s1))
                return out
            return Func('dispatch.' + name, model=dispatch)
        if len(provs) != 1:
            raise OutsideSubset('method %s is provided by several classes for this receiver: %s'
                                % (name, [p_.__name__ for p_ in provs]))
        k = provs[0]
        fn = vars(k)[name]
        q = '%s.%s.%s' % (k.__module__, k.__qualname__, name)
        if isinstance(fn, staticmethod):
            return Func(q, self_val=None)
        if isinstance(fn, types.FunctionType):
            return Func(q, self_val=o)
        if isinstance(fn, property):
            from . import models
            r = models.call_repo(self, q, o, [], {}, st)
            if len(r) != 1:
                from .symex import Forked
                return Forked(r)
            return r[0][1]
        return fn

    # ------------------------------------------------------------------ ghost text
    def item_txt(self, st, it):
        if it[0] == 'seg':
            return self.segs(st)[it[1]]['txt']
        v = it[1]
        if isinstance(v, Rec):
            if st.objs[v.oid].get('tokens') is not None:
                # I4: the text of a group is, by definition, the text of its current children
                vis = getattr(self, '_txt_visiting', None)
                if vis is None:
                    vis = self._txt_visiting = set()
                if v.oid in vis:
                    # a node that contains itself: not a tree; its text is left unconstrained (obligations fail)
                    return fresh('cyclic_txt', z3.StringSort())
                vis.add(v.oid)
                try:
                    return self.list_txt(st, st.objs[v.oid]['tokens'])
                finally:
                    vis.discard(v.oid)
            t = st.objs[v.oid].get('TXT')
            if t is None:
                # value overwritten in a loop (field taint): the text of this element is unknown
                t = st.objs[v.oid]['TXT'] = fresh_str('unknown_txt')
            return self.z_str(t)
        raise OutsideSubset('text of %r' % (v,))

    def list_txt(self, st, lref):
        parts = [self.item_txt(st, it) for it in st.lists[lref.lid]]
        if not parts:
            return z3.StringVal('')
        return z3.Concat(*parts) if len(parts) > 1 else parts[0]

    def str_of(self, v, st):
        if isinstance(v, Rec) and v.kind == 'Token':
            o = st.objs[v.oid]
            if o.get('tokens') is not None:
                # TokenList.__str__ contract: the join of the flattened leaves' values = text of the children
                return [(st, SStr(self.list_txt(st, o['tokens'])))]
            if o.get('is_group') is False:
                return [(st, o['value'])]
            if o.get('TXT') is not None:
                return [(st, SStr(self.z_str(o['TXT'])))]
        if isinstance(v, (str, SStr)):
            return [(st, v)]
        if v is None:
            return [(st, 'None')]
        if isinstance(v, SInt):
            return [(st, fresh_str('int_as_str'))]
        raise OutsideSubset('str(%r)' % (v,))

    # ------------------------------------------------------------------ positions
    def split_at(self, st, lref, pos, strict=False):
        """make sure there is an item boundary at absolute position pos; returns the index of the first item at/after
        the boundary.  strict: pos must be the position of an existing element (pos < len), so the item that contains
        it is located exactly; otherwise 0 <= pos <= len and a boundary at the end of a segment is acceptable."""
        items = list(st.lists[lref.lid])
        cum = z3.IntVal(0)
        cx = smt.Ctx(st.pc)
        for k, it in enumerate(items):
            ln = self.item_len(st, it)
            if cx.entails(pos >= cum + ln):
                cum = z3.simplify(cum + ln)
                continue
            if cx.entails(pos == cum):
                if strict and it[0] == 'seg' and not cx.entails(ln >= 1):
                    # an empty segment at this position: the element is further right
                    raise _NeedCase(z3.simplify(pos - cum), k, cum, ln, [ln == 0, ln >= 1])
                return k
            inside = z3.And(pos >= cum, pos < cum + ln) if strict else z3.And(pos >= cum, pos <= cum + ln)
            if not cx.entails(inside):
                raise _NeedCase(z3.simplify(pos - cum), k, cum, ln,
                                [z3.And(pos >= cum, pos < cum + ln), pos >= cum + ln] if strict else
                                [pos == cum, z3.And(pos > cum, pos < cum + ln), pos >= cum + ln])
            if it[0] == 'el':
                # either directly before or directly after this single element
                raise _NeedCase(z3.simplify(pos - cum), k, cum, ln, [pos == cum, pos >= cum + 1])
            off = z3.simplify(pos - cum)
            s1, s2 = self.split_seg(st, it[1], off)
            self._replace_seg_everywhere(st, it[1], [('seg', s1), ('seg', s2)])
            return [i for i, x in enumerate(st.lists[lref.lid]) if x == ('seg', s2)][0]
        if not strict and cx.entails(pos == cum):
            return len(items)
        raise OutsideSubset('position beyond the list')

    def _replace_seg_everywhere(self, st, sid, new_items):
        """a segment may occur in snapshot copies of the same list: refine it consistently everywhere"""
        for lid, items in list(st.lists.items()):
            if ('seg', sid) in items:
                out = []
                for x in items:
                    if x == ('seg', sid):
                        out.extend(new_items)
                    else:
                        out.append(x)
                st.lists[lid] = tuple(out)

    def split_with_cases(self, st, lref, pos, strict=False):
        """like split_at but forks on where pos falls when the path condition does not decide it"""
        try:
            return [(st, self.split_at(st, lref, pos, strict))]
        except _NeedCase as nc:
            res = []
            for cond in nc.cases:
                if smt.feasible(st.pc + [cond]):
                    s = st.fork()
                    s.assume(cond)
                    res.extend(self.split_with_cases(s, lref, pos, strict))
            return res

    def elem_at(self, st, lref, pos):
        """materialise the element at absolute position pos (0 <= pos < len entailed); returns [(state, value)]"""
        out = []
        if not smt.feasible(st.pc):
            return []          # dead path
        for s, k in self.split_with_cases(st, lref, pos, True):
            items = s.lists[lref.lid]
            if k >= len(items):
                raise OutsideSubset('index at the end of the list')
            it = items[k]
            if it[0] == 'el':
                out.append((s, it[1]))
                continue
            seg = self.segs(s)[it[1]]
            if not smt.entails(s.pc, seg['len'] >= 1):
                raise OutsideSubset('index into a possibly empty segment')
            e = self.materialise(s, it[1])
            s1, rest = self.split_seg(s, it[1], z3.IntVal(1))
            try:
                self.add_fact(s, self.segs(s)[s1]['txt'] == self.item_txt(s, ('el', e)))
            except OutsideSubset:
                pass        # the element's value was overwritten earlier in a loop (field taint): text unknown
            self._replace_seg_everywhere(s, it[1], [('el', e), ('seg', rest)])
            out.append((s, e))
        return out

    def norm_index(self, st, i, n, for_slice):
        """python index normalisation; returns [(state, z3 position)] (raises IndexError paths for subscripts)"""
        zi = self.z_int(i)
        res = []
        if for_slice:
            for s, neg in self.decide(st, zi < 0):
                if neg:
                    for s2, under in self.decide(s, zi + n < 0):
                        res.append((s2, z3.IntVal(0) if under else z3.simplify(zi + n)))
                else:
                    for s2, over in self.decide(s, zi > n):
                        res.append((s2, n if over else zi))
            return res
        for s, ok in self.decide(st, z3.And(zi >= -n, zi < n)):
            if not ok:
                self.raise_on(s, 'IndexError', 'list index out of range')
                continue
            for s2, neg in self.decide(s, zi < 0):
                res.append((s2, z3.simplify(zi + n) if neg else zi))
        return res

    # ------------------------------------------------------------------ list operations
    def index_ext(self, o, i, st):
        if isinstance(o, Rec) and o.kind == 'Token' and st.objs[o.oid].get('is_group') is not False:
            # TokenList.__getitem__ delegates to self.tokens
            return self.index(self.getattr(o, 'tokens', st), i, st)
        if isinstance(o, LRef) and self.is_intlike(i):
            n = self.zlen(st, o)
            out = []
            for s, pos in self.norm_index(st, i, n, False):
                out.extend(self.elem_at(s, o, pos))
            return out
        return super().index_ext(o, i, st)

    def _slice_bounds(self, st, o, lo, hi):
        n = self.zlen(st, o)
        res = []
        los = [(st, z3.IntVal(0))] if lo is None else self.norm_index(st, lo, n, True)
        for s, a in los:
            his = [(s, n)] if hi is None else self.norm_index(s, hi, n, True)
            for s2, b in his:
                for s3, empty in self.decide(s2, b < a):
                    res.append((s3, a, a if empty else b))
        return res

    def slice_ext(self, o, lo, hi, st):
        if isinstance(o, LRef):
            out = []
            for s, a, b in self._slice_bounds(st, o, lo, hi):
                for s1, ka in self.split_with_cases(s, o, a):
                    for s2, kb in self.split_with_cases(s1, o, b):
                        ka2 = self.split_at(s2, o, a)
                        items = s2.lists[o.lid][ka2:kb]
                        out.append((s2, self.new_list(s2, list(items))))
            return out
        return super().slice_ext(o, lo, hi, st)

    def store_slice_ext(self, o, sl, v, st):
        if not isinstance(o, LRef):
            raise OutsideSubset('slice store on %r' % (o,))
        if not isinstance(v, LRef):
            raise OutsideSubset('slice store of non-list')
        res = []
        los = self.eval(sl.lower, st) if sl.lower is not None else [(st, None)]
        for s, lo in los:
            his = self.eval(sl.upper, s) if sl.upper is not None else [(s, None)]
            for s1, hi in his:
                for s2, a, b in self._slice_bounds(s1, o, lo, hi):
                    for s3, ka in self.split_with_cases(s2, o, a):
                        for s4, kb in self.split_with_cases(s3, o, b):
                            ka2 = self.split_at(s4, o, a)
                            items = s4.lists[o.lid]
                            s4.lists[o.lid] = items[:ka2] + tuple(s4.lists[v.lid]) + items[kb:]
                            bump(s4, o.lid)
                            res.append(s4)
        return res

    def delete_ext(self, stmt, st):
        out = []
        cur = [st]
        for tgt in stmt.targets:
            nxt = []
            for s in cur:
                if not isinstance(tgt, ast.Subscript):
                    raise OutsideSubset('del of non-subscript')
                for s1, o in self.eval(tgt.value, s):
                    if isinstance(o, Rec) and o.kind == 'Token':
                        o = self.getattr(o, 'tokens', s1)
                    if not isinstance(o, LRef):
                        raise OutsideSubset('del on %r' % (o,))
                    if isinstance(tgt.slice, ast.Slice):
                        los = self.eval(tgt.slice.lower, s1) if tgt.slice.lower is not None else [(s1, None)]
                        for s2, lo in los:
                            his = self.eval(tgt.slice.upper, s2) if tgt.slice.upper is not None else [(s2, None)]
                            for s3, hi in his:
                                for s4, a, b in self._slice_bounds(s3, o, lo, hi):
                                    for s5, ka in self.split_with_cases(s4, o, a):
                                        for s6, kb in self.split_with_cases(s5, o, b):
                                            ka2 = self.split_at(s6, o, a)
                                            items = s6.lists[o.lid]
                                            s6.lists[o.lid] = items[:ka2] + items[kb:]
                                            bump(s6, o.lid)
                                            nxt.append(s6)
                    else:
                        for s2, i in self.eval(tgt.slice, s1):
                            n = self.zlen(s2, o)
                            for s3, pos in self.norm_index(s2, i, n, False):
                                for s4, e in self.elem_at(s3, o, pos):
                                    items = s4.lists[o.lid]
                                    k = [j for j, x in enumerate(items) if x[0] == 'el' and x[1] is e]
                                    if len(k) != 1:
                                        raise OutsideSubset('del: element not unique')
                                    s4.lists[o.lid] = items[:k[0]] + items[k[0] + 1:]
                                    bump(s4, o.lid)
                                    self.site('remove', s4, elem=e)
                                    nxt.append(s4)
            cur = nxt
        return [(s, Outcome.NEXT, None) for s in cur]

    def list_method_ext(self, l, name, args, kw, st):
        items = st.lists[l.lid]
        if name == 'extend' and isinstance(args[0], LRef):
            st.lists[l.lid] = items + tuple(st.lists[args[0].lid])
            bump(st, l.lid)
            return [(st, None)]
        if name == 'insert':
            n = self.zlen(st, l)
            out = []
            for s, pos in self.norm_index(st, args[0], n, True):
                for s1, k in self.split_with_cases(s, l, pos):
                    it = s1.lists[l.lid]
                    s1.lists[l.lid] = it[:k] + (('el', args[1]),) + it[k:]
                    bump(s1, l.lid)
                    if self.is_tokens_list(s1, l):
                        self.site('insert', s1, elem=args[1])
                    out.append((s1, None))
            return out
        if name == 'pop' and not args and items and items[-1][0] == 'iseg':
            sg = self.segs(st)[items[-1][1]]
            out = []
            for s, nonempty in self.decide(st, sg['len'] > 0):
                if not nonempty:
                    self.raise_on(s, 'IndexError', 'pop from empty list')
                    continue
                e = fresh('popped', z3.IntSort())
                s.assume(z3.And(e >= 0, e < sg['ub']))
                sid = next(_ids)
                # the rest is still sorted, and all of it lies below the popped (largest) entry
                self.segs(s)[sid] = {'len': z3.simplify(sg['len'] - 1), 'ub': e, 'uni': {}, 'txt': None}
                s.lists[l.lid] = s.lists[l.lid][:-1] + (('iseg', sid),)
                bump(s, l.lid)
                out.append((s, SInt(e)))
            return out
        if name == 'pop':
            n = self.zlen(st, l)
            idx = args[0] if args else -1
            out = []
            for s, ok in self.decide(st, n > 0):
                if not ok:
                    self.raise_on(s, 'IndexError', 'pop from empty list')
                    continue
                for s1, pos in self.norm_index(s, idx, n, False):
                    for s2, e in self.elem_at(s1, l, pos):
                        it = s2.lists[l.lid]
                        k = [j for j, x in enumerate(it) if x[0] == 'el' and x[1] is e]
                        if len(k) != 1:
                            raise OutsideSubset('pop: element not unique')
                        s2.lists[l.lid] = it[:k[0]] + it[k[0] + 1:]
                        bump(s2, l.lid)
                        if self.is_tokens_list(s2, l):
                            self.site('remove', s2, elem=e)
                        out.append((s2, e))
            return out
        if name == 'remove':
            x = args[0]
            k = [j for j, it in enumerate(items) if it[0] == 'el' and isinstance(it[1], Rec) and isinstance(x, Rec)
                 and it[1].oid == x.oid]
            if k:
                # identity equality (assumption 4) and no duplicates (I2): the first occurrence is the only one
                st.lists[l.lid] = items[:k[0]] + items[k[0] + 1:]
                bump(st, l.lid)
                if self.is_tokens_list(st, l):
                    self.site('remove', st, elem=x)
                return [(st, None)]
            # the element is not known to be at a particular position: afterwards the list is "the same list with
            # one occurrence of x removed" = an unknown list; ValueError if x is not a member
            s_err = st.fork()
            self.raise_on(s_err, 'ValueError', 'list.remove(x): x not in list')
            if self.is_tokens_list(st, l):
                self.site('remove', st, elem=x)
            uni = {}
            segs_ = [self.segs(st)[it[1]]['uni'] for it in items if it[0] == 'seg']
            if segs_ and all(it[0] == 'seg' for it in items):
                common = set.intersection(*[set(u) for u in segs_])
                uni = {k: segs_[0][k] for k in common if all(u[k] is segs_[0][k] for u in segs_)}
            sid = self.new_seg(st, uni=uni, name='after_remove')
            st.lists[l.lid] = (('seg', sid),)
            bump(st, l.lid)
            return [(st, None)]
        if name == 'index':
            x = args[0]
            cum = z3.IntVal(0)
            for it in items:
                if it[0] == 'el' and isinstance(it[1], Rec) and isinstance(x, Rec) and it[1].oid == x.oid:
                    return [(st, SInt(z3.simplify(cum)))]
                cum = cum + self.item_len(st, it)
            if all(it[0] == 'el' for it in items) and (x is None or isinstance(x, Rec)):
                # every element of the list is known and none is x (objects compare by identity)
                raise PyExc('ValueError', 'list.index(x): x not in list')
            raise OutsideSubset('list.index of an element that is not materialised in the list')
        return NotImplemented

    def list_semantically_changed(self, before, after, lid):
        return _canon_items(before, before.lists[lid]) != _canon_items(after, after.lists[lid])

    def list_of(self, v, st):
        if isinstance(v, Rec) and v.kind == 'Token':
            v = self.getattr(v, 'tokens', st)      # list(tlist) iterates tlist.tokens (TokenList.__iter__)
        if isinstance(v, LRef):
            return [(st, self.new_list(st, list(st.lists[v.lid])))]
        if isinstance(v, Opaque) and v.name == 'generator':
            # list(<read-only generator of tokens>): a new list of unknown tokens
            return [(st, self.new_list(st, [('seg', self.new_seg(st, name='from_generator'))]))]
        return NotImplemented

    def len_of(self, v, st):
        raise OutsideSubset('len(%r)' % (v,))

    def truth(self, v, st):
        if isinstance(v, LRef):
            n = self.list_len(st, v)
            return (n > 0) if isinstance(n, int) else n.z > 0
        if isinstance(v, ORef):
            return v.z != 0
        return super().truth(v, st)

    # ------------------------------------------------------------------ classes
    def isinstance_ext(self, v, cls, st):
        import inspect
        W = self.W
        if isinstance(v, Rec) and v.kind == 'Token':
            o = st.objs[v.oid]
            if isinstance(cls, SCls):
                return SBool(z3.Or(*[z3.And(o['CLS'] == W.cls_const[a], cls.z == W.cls_const[b])
                                    for a in W.classes for b in W.classes if issubclass(a, b)]))
            if inspect.isclass(cls) and issubclass(cls, W.sql.Token) or cls is W.sql.NameAliasMixin:
                return SBool(subclass_formula(W, o['CLS'], cls))
            return False
        if isinstance(v, Rec):
            return NotImplemented
        return super().isinstance_ext(v, cls, st)

    def setattr(self, o, name, v, st):
        if isinstance(o, Rec) and o.kind == 'Token' and name in TOKEN_FIELDS:
            if '__pos__' in st.objs[o.oid]:
                # a store to an element that came out of a list (not to an object created in this function)
                self.site('store:' + name, st, obj=o, new=v)
                st.ghost['__taint__'] = st.ghost.get('__taint__', frozenset()) | {name}
        return super().setattr(o, name, v, st)

    # ------------------------------------------------------------------ per-site obligations (C06 / C08)
    def is_tokens_list(self, st, lref):
        return any(isinstance(f.get('tokens'), LRef) and f['tokens'].lid == lref.lid for f in st.objs.values())

    def site(self, kind, st, **bind):
        """a mutation site of the tree was reached on this path: emit the contract's obligations for that kind"""
        sites = getattr(self.contract, 'sites', None) if self.contract is not None else None
        if not sites:
            # inside a helper that is executed in place (insert_before, insert_after ...) the obligations are those of the
            # function under verification
            sites = getattr(getattr(self, 'top_contract', None), 'sites', None)
        if not sites:
            return
        n = st.ghost.get('__nsites__', 0)
        st.ghost['__nsites__'] = n + 1
        for j, e in enumerate(sites.get(kind, sites.get(kind.split(':')[0] + ':*', []))):
            self.goal('%s/site[%s]#%d' % (self.fn, kind, j), st, self.spec(e, st, bind), {'site': kind, 'must': e})
        if kind not in sites and kind.split(':')[0] + ':*' not in sites and kind.split(':')[0] in ('store', 'remove', 'insert'):
            if sites.get('__closed__'):
                self.goal('%s/site[%s]/no such mutation is allowed here' % (self.fn, kind), st, False, {'site': kind})

    def call(self, f, args, kw, st, node=None):
        W = self.W
        if f is W.sql.Token:
            # constructor of a leaf: allocate, then run the real Token.__init__ in place (its contract is verified
            # separately); the ghost text of a leaf is its value
            o = self.new_obj(st, 'Token', {'CLS': W.cls_const[W.sql.Token], 'TXT': None})
            from . import models
            out = []
            for s, _ in models.call_repo(self, 'sqlparse.sql.Token.__init__', o, list(args), dict(kw), st):
                s.objs[o.oid]['TXT'] = s.objs[o.oid]['value']
                s.objs[o.oid]['__fresh__'] = True
                out.append((s, o))
            return out
        return super().call(f, args, kw, st, node)

    def with_ext(self, stmt, st):
        """`with indent(self, n):` / `with offset(self, n):` (generator-based context managers of utils.py, executed
        from their own source: statements before the yield, the block, the statements after the yield; as in the
        real code nothing is undone when the block raises)"""
        from .core import source
        from . import models
        cur = [st]
        exits = []
        for item in stmt.items:
            ce = item.context_expr
            if not (isinstance(ce, ast.Call) and isinstance(ce.func, ast.Name) and ce.func.id in ('indent', 'offset')
                    and item.optional_vars is None):
                raise OutsideSubset('with %s' % ast.unparse(ce))
            node = source().get('sqlparse.utils.' + ce.func.id)
            if node is None:
                raise OutsideSubset('context manager source not found')
            ys = [i for i, b in enumerate(node.body) if isinstance(b, ast.Expr) and isinstance(b.value, ast.Yield)]
            if len(ys) != 1:
                raise OutsideSubset('context manager shape')
            before, after = node.body[:ys[0]], node.body[ys[0] + 1:]
            nxt = []
            for s in cur:
                argsets = [(s, [])]
                for a in ce.args:
                    argsets = [(s2, acc + [v]) for s1, acc in argsets for s2, v in self.eval(a, s1)]
                for s1, vals in argsets:
                    env = models.bind_params(self, node, None, vals, {}, s1, lambda d: models._const_default(self, d, None))
                    saved = s1.env
                    s1.env = dict(env)
                    res = self.exec_block(before, s1)
                    for s2, oc, _v in res:
                        if oc != Outcome.NEXT:
                            raise OutsideSubset('context manager entry does not fall through')
                        cm_env = s2.env
                        s2.env = dict(saved)
                        nxt.append((s2, cm_env, after))
            cur_pairs = nxt
            exits.append(None)
            cur = [p[0] for p in cur_pairs]
            self._cm_stack = getattr(self, '_cm_stack', []) + [cur_pairs]
        out = []
        pairs_stack = self._cm_stack[-len(stmt.items):]
        self._cm_stack = self._cm_stack[:-len(stmt.items)]
        for s in cur:
            for s2, oc, val in self.exec_block(stmt.body, s):
                if oc == Outcome.RAISE:
                    out.append((s2, oc, val))
                    continue
                # leave the managers innermost first
                ok = [s2]
                for pairs in reversed(pairs_stack):
                    after = pairs[0][2]
                    cm_env = pairs[0][1]
                    nxt = []
                    for s3 in ok:
                        saved = s3.env
                        s3.env = dict(cm_env)
                        for s4, oc4, _v in self.exec_block(after, s3):
                            if oc4 != Outcome.NEXT:
                                raise OutsideSubset('context manager exit does not fall through')
                            s4.env = dict(saved)
                            nxt.append(s4)
                    ok = nxt
                out.extend((s5, oc, val) for s5 in ok)
        return out

    def allany_ext(self, is_all, gen, st):
        """all(...) / any(...) over a generator expression: an unknown boolean (over-approximation; the element
        expressions of the generator are assumed pure - they are tests on tokens)"""
        if isinstance(gen, Opaque) and gen.name == 'genexp':
            if getattr(getattr(self, 'top_contract', None), 'shape_case', False):
                # explicit node shapes: the elements are known, the generator is evaluated element by element
                r = self._allany_concrete(is_all, gen.data[0], st)
                if r is not None:
                    return r
            r = None if is_all else self._any_over_slice(gen.data[0], st)
            if r is not None:
                return r
            r = self._allany_concrete(is_all, gen.data[0], st)
            if r is not None:
                return r
            kind = 'UNEVALUATED'
            try:
                # a test over the children of a node that nothing has looked at yet (their list comes into being with
                # this very expression): no fact of the path constrains them, so both outcomes are realisable inputs -
                # a FREE boolean, which a counter-model may use (unlike an UNEVALUATED one, see spec.discharge)
                node = gen.data[0]
                if len(node.generators) == 1 and not node.generators[0].ifs:
                    probe = st.fork()
                    before = set(probe.lists)
                    rr = self.eval(node.generators[0].iter, probe)
                    if len(rr) == 1 and isinstance(rr[0][1], LRef) and rr[0][1].lid not in before:
                        kind = 'FREE'
            except (OutsideSubset, PyExc):
                pass
            return [(st, SBool(fresh('%s_%s' % (kind, 'all' if is_all else 'any'), z3.BoolSort())))]
        if isinstance(gen, tuple):
            parts = [self.truth(x, st) for x in gen]
            r = self.conj(parts) if is_all else self.disj(parts)
            return [(st, self.wrapb(r))]
        return NotImplemented

    def _any_over_slice(self, node, st):
        """any(P(t) for t in <token list>[a:b])  ==  not NOMATCH(P, list, a', b')  with the slice bounds normalised as
        Python does.  P is the generator's element expression as a predicate of t (a closure over the current frame);
        it is published as the ghost GENPRED<k> (k = ordinal of the generator expression in the function) so that the
        sidecar contract can speak about the same predicate."""
        from .symex import ClosureEnv
        if len(node.generators) != 1 or node.generators[0].ifs or not isinstance(node.generators[0].target, ast.Name):
            return None
        g = node.generators[0]
        if not (isinstance(g.iter, ast.Subscript) and isinstance(g.iter.slice, ast.Slice) and g.iter.slice.step is None):
            return None
        try:
            base = self.eval1(g.iter.value, st)
        except (OutsideSubset, PyExc):
            return None
        if isinstance(base, Rec) and base.kind == 'Token':
            base = self.getattr(base, 'tokens', st)
        if not (isinstance(base, LRef) and self.is_tokens_list(st, base)):
            return None
        cache = self.__dict__.setdefault('_genpred_nodes', {})
        if id(node) not in cache:
            lam = ast.Lambda(args=ast.arguments(posonlyargs=[], args=[ast.arg(arg=g.target.id)], kwonlyargs=[],
                                                kw_defaults=[], defaults=[]), body=node.elt)
            ast.fix_missing_locations(lam)
            gens = [n for n in ast.walk(self.fn_node) if isinstance(n, ast.GeneratorExp)] if getattr(self, 'fn_node', None) else []
            k = [i for i, n in enumerate(gens) if n is node]
            cache[id(node)] = (lam, 'GENPRED%d' % (k[0] if k else len(cache)))
        lam, gname = cache[id(node)]
        pred = Func(self.fn + '.<genexp-predicate>', node=lam, closure=ClosureEnv(st.env))
        st.ghost[gname] = pred
        n = self.zlen(st, base)
        sl = g.iter.slice
        out = []
        try:
            lows = [(st, z3.IntVal(0))] if sl.lower is None else [
                x for s1, v in self.eval(sl.lower, st) for x in self.norm_index(s1, v, n, True)]
            for s1, lo in lows:
                highs = [(s1, n)] if sl.upper is None else [
                    x for s2, v in self.eval(sl.upper, s1) for x in self.norm_index(s2, v, n, True)]
                for s2, hi in highs:
                    s2.ghost[gname] = pred
                    nm = self.spec_fn('NOMATCH', [pred, base, SInt(lo), SInt(hi)], {}, s2)[0][1]
                    out.append((s2, SBool(z3.Not(nm.z))))
        except OutsideSubset:
            return None
        return out

    def call_ext(self, f, args, kw, st):
        import re as _re
        if f is _re.search:
            from .models import lib
            lib('re.search(pattern, text): None or a match object whose groups are strings (pure)')
            s_none = st.fork()

            def groups(ex_, self_, a, k, s):
                return [(s, (fresh_str('group'),))]

            def group(ex_, self_, a, k, s):
                return [(s, fresh_str('group'))]
            m = self.new_obj(st, 'match', {'__methods__': {'groups': groups, 'group': group}})
            return [(s_none, None), (st, m)]
        if getattr(f, '__name__', None) in ('search', 'split') and isinstance(getattr(f, '__self__', None), _re.Pattern):
            # a method of a module-level compiled pattern (a constant of the module)
            from .models import lib
            pobj = f.__self__
            zt = self.z_str(args[0])
            RS = z3.Function('RE_SEARCH', z3.StringSort(), z3.IntSort(), z3.StringSort(), z3.BoolSort())
            found = RS(z3.StringVal(pobj.pattern), z3.IntVal(int(pobj.flags)), zt)
            if f.__name__ == 'search':
                lib('<compiled pattern>.search(text): pure, uninterpreted predicate RE_SEARCH(p, flags, text)')
                out = []
                for s1, b in self.decide(st, found):
                    out.append((s1, self.new_obj(s1, 'match', {}) if b else None))
                return out
            if len(args) == 2 and args[1] == 1:
                # pattern.split(text, 1): [text] when the pattern is not found in the text, else two parts (unknown texts)
                lib('<compiled pattern>.split(text, 1): one element iff not RE_SEARCH(p, flags, text), else two')
                out = []
                for s1, b in self.decide(st, found):
                    if b:
                        out.append((s1, self.new_list(s1, [('el', fresh_str('resplit_head')), ('el', fresh_str('resplit_tail'))])))
                    else:
                        out.append((s1, self.new_list(s1, [('el', args[0])])))
                return out
            raise OutsideSubset('pattern.split with maxsplit != 1')
        if f is _re.compile:
            # re.compile(pattern, flags) -> a pattern object; pattern.search(text) is None or a match object, decided by
            # the uninterpreted predicate RE_SEARCH(pattern, flags, text)  (CPython's re engine is trusted, pure)
            from .models import lib
            lib('re.compile(p, flags).search(text): pure, uninterpreted predicate RE_SEARCH(p, flags, text)')
            pat = args[0]
            flags = args[1] if len(args) > 1 else kw.get('flags', 0)
            zf = self.z_int(SInt(z3.IntVal(int(flags)))) if not isinstance(flags, Sym) else self.z_int(flags)
            zp = self.z_str(pat)
            RS = z3.Function('RE_SEARCH', z3.StringSort(), z3.IntSort(), z3.StringSort(), z3.BoolSort())

            def search(ex_, self_, a, k, s):
                found = RS(zp, zf, ex_.z_str(a[0]))
                out = []
                for s1, b in ex_.decide(s, found):
                    out.append((s1, ex_.new_obj(s1, 'match', {}) if b else None))
                return out
            return [(st, self.new_obj(st, 'pattern', {'__methods__': {'search': search}}))]
        if f is setattr:
            o, name, val = args
            if isinstance(name, Sym):
                raise OutsideSubset('setattr with computed name')
            self.setattr(o, name, val, st)
            return [(st, None)]
        return NotImplemented

    def call_opaque_scls(self, cls, args, kw, st):
        """grp_cls(subtokens): constructor of a symbolic TokenList subclass = TokenList.__init__ (no subclass defines
        __init__: side-condition obligation) by its contract"""
        c = self.reg.get('sqlparse.sql.TokenList.__init__')
        if c is None:
            raise OutsideSubset('no contract for TokenList.__init__')
        return c.construct(self, cls, args, kw, st)

    # ------------------------------------------------------------------ foreach over lists with opaque segments
    def for_ext(self, stmt, st, it, key, lc):
        if isinstance(it, Opaque) and it.name == 'range':
            a = it.data
            if len(a) == 1:
                lo, hi, step = 0, a[0], 1
            elif len(a) == 2:
                lo, hi, step = a[0], a[1], 1
            else:
                lo, hi, step = a
            if step not in (1, -1):
                raise OutsideSubset('range step')
            zlo, zhi = self.z_int(lo), self.z_int(hi)
            n = z3.If(zhi - zlo > 0, zhi - zlo, z3.IntVal(0)) if step == 1 else \
                z3.If(zlo - zhi > 0, zlo - zhi, z3.IntVal(0))

            def at(ex_, s, k):
                zk = ex_.z_int(k)
                return [(s, SInt(z3.simplify(zlo + zk if step == 1 else zlo - zk)))]
            itr = self.new_obj(st, 'seq_iter', {'SEQ': it, 'K': 0, 'N': SInt(z3.simplify(n)), 'AT': at})
            from . import loops
            return loops._for_over(self, stmt, st, itr, key, lc)
        if isinstance(it, Rec) and it.kind == 'Token':
            it = self.getattr(it, 'tokens', st)
        if isinstance(it, Opaque) and it.name == 'reversed' and lc and lc.get('cut') and isinstance(it.data, LRef):
            # reversed(L) iterated in order under a loop invariant: the K-th visited element is L[len(L) - 1 - K]
            seq = it.data
            n = self.zlen(st, seq)

            def at_rev(ex_, s, k):
                return ex_.elem_at(s, seq, z3.simplify(n - 1 - ex_.z_int(k)))
            itr = self.new_obj(st, 'seq_iter', {'SEQ': seq, 'K': 0, 'N': SInt(z3.simplify(n)), 'AT': at_rev})
            from . import loops
            return loops._for_over(self, stmt, st, itr, key, lc)
        if isinstance(it, Opaque) and it.name == 'reversed':
            if not (lc and lc.get('arbitrary')):
                raise OutsideSubset('for over reversed(list) outside an arbitrary-element loop')
            it = it.data        # an arbitrary element of reversed(L) is an arbitrary element of L
        if not isinstance(it, LRef):
            return NotImplemented
        items = st.lists[it.lid]
        if all(x[0] == 'el' for x in items):
            return NotImplemented
        if lc and lc.get('cut'):
            return NotImplemented
        if stmt.orelse:
            raise OutsideSubset('for/else over opaque list')
        if not (lc and lc.get('arbitrary')):
            try:
                probe = st.fork()
                marks = len(self.goals)
                return self.foreach_uniform(stmt.target, stmt.body, probe, it)
            except OutsideSubset:
                del self.goals[marks:]
        return self.foreach_arbitrary(stmt, st, it, key, lc)

    def foreach_arbitrary(self, stmt, st, lref, key, lc):
        """sound over-approximation of `for x in L: body` for per-site obligations: every iteration is executed for an
        ARBITRARY element of L in a state where everything the body can write on a continuing path has been havoc'ed
        (variables, lists, and - through the field taint - token fields); after the loop that havoc'ed state continues.
        No invariant is needed for obligations that only speak about the local state of a mutation site."""
        from . import loops
        go = fresh('iterate', z3.BoolSort())

        def guard(s):
            return fresh('iterate', z3.BoolSort())

        def bind(s):
            n = self.zlen(s, lref)
            k = fresh('k', z3.IntSort())
            res = []
            for s1, ok in self.decide(s, n > 0):
                if not ok:
                    continue
                s1.assume(z3.And(k >= 0, k < n))
                for s2, e in self.elem_at(s1, lref, k):
                    res.extend(self.assign(stmt.target, e, s2))
            return res

        def advance(s):
            pass
        return loops.run_cut_loop(self, stmt, st, key, dict(lc or {}), guard, bind, advance, self.fn)

    def make_iter_ext(self, st, seq, kind):
        if isinstance(seq, Rec) and seq.kind == 'Token':
            seq = self.getattr(seq, 'tokens', st)
        if isinstance(seq, LRef):
            n = self.list_len(st, seq)

            def at(ex_, s, k):
                return ex_.elem_at(s, seq, ex_.z_int(k))
            return self.new_obj(st, kind, {'SEQ': seq, 'K': 0, 'N': n if isinstance(n, SInt) else n, 'AT': at})
        return NotImplemented

    # ------------------------------------------------------------------ integer stacks (e.g. `opens`)
    # an item ('iseg', sid) is an opaque run of ints that is strictly increasing, with all entries in [0, ub)
    def is_int_list(self, st, lref):
        items = st.lists[lref.lid]
        return bool(items) and all((it[0] == 'iseg') or (it[0] == 'el' and self.is_intlike(it[1])) for it in items)

    def havoc_int_list(self, st, name):
        sid = next(_ids)
        ln = fresh(name + '_len', z3.IntSort())
        ub = fresh(name + '_ub', z3.IntSort())
        st.assume(z3.And(ln >= 0, ub >= 0, z3.Implies(ln > 0, ub >= ln)))
        self.segs(st)[sid] = {'len': ln, 'ub': ub, 'uni': {}, 'txt': None}
        return self.new_list(st, [('iseg', sid)])

    def int_list_ub(self, st, lref):
        """exclusive upper bound of the entries (0 for the empty list), assuming the list is sorted"""
        items = st.lists[lref.lid]
        if not items:
            return z3.IntVal(0)
        last = items[-1]
        if last[0] == 'el':
            return z3.simplify(self.z_int(last[1]) + 1)
        return z3.If(self.segs(st)[last[1]]['len'] > 0, self.segs(st)[last[1]]['ub'], z3.IntVal(0)) \
            if len(items) == 1 else self.segs(st)[last[1]]['ub']

    def int_list_sorted(self, st, lref):
        items = st.lists[lref.lid]
        parts = []
        prev_ub = z3.IntVal(0)
        for it in items:
            if it[0] == 'iseg':
                sg = self.segs(st)[it[1]]
                # (an iseg is sorted with entries in [0, ub) by construction; it may only come first)
                if it is not items[0]:
                    return z3.BoolVal(False)
                prev_ub = z3.If(sg['len'] > 0, sg['ub'], z3.IntVal(0))
            else:
                x = self.z_int(it[1])
                parts.append(x >= prev_ub)
                prev_ub = x + 1
        return z3.And(*parts) if parts else z3.BoolVal(True)

    def havoc_list_var(self, st, name):
        """a local variable that holds a list and is re-bound / extended in a loop: an unknown list of tokens (or, for
        a list of ints such as the stack of open positions, an unknown sorted list of non-negative ints)"""
        cur = st.env.get(name)
        if isinstance(cur, LRef) and (name in (getattr(self.contract, 'int_lists', ()) or ()) or self.is_int_list(st, cur)):
            return self.havoc_int_list(st, name)
        sid = self.new_seg(st, name='havoc_' + name)
        return self.new_list(st, [('seg', sid)])

    def assume_inv(self, inv, st):
        """loop invariants of the form ALL(list, 'field', value) are assumed by installing the uniform fact"""
        try:
            node = ast.parse(inv.strip(), mode='eval').body
        except SyntaxError:
            return False
        if isinstance(node, ast.Call) and isinstance(node.func, ast.Name) and node.func.id == 'SUFFIX' \
                and len(node.args) == 4:
            tmp = st.fork()
            old, self._in_spec = getattr(self, '_in_spec', False), True
            try:
                c, p_, s_, k_ = [self.eval1(a, tmp) for a in node.args]
            finally:
                self._in_spec = old
            if isinstance(c, Rec):
                c = self.getattr(c, 'tokens', st)
            zp, zk = self.z_int(p_), self.z_int(k_)
            st.assume(zp >= 0)
            # the list is: an unknown prefix of p elements, then exactly the snapshot from k on
            tail = self.suffix_items(st, s_, zk)
            owner = [Rec(oid, 'Token') for oid, f in st.objs.items()
                     if isinstance(f.get('tokens'), LRef) and f['tokens'].lid == c.lid]
            uni = {'parent': owner[0]} if owner else {}
            g = self.new_seg(st, length=zp, uni=uni, name='prefix')
            st.lists[c.lid] = (('seg', g),) + tuple(tail)
            bump(st, c.lid)
            return True
        if isinstance(node, ast.Call) and isinstance(node.func, ast.Name) and node.func.id == 'ENDS_WITH' \
                and len(node.args) == 2:
            # ENDS_WITH(C, e): the (havoc'ed) list C is an unknown run of elements followed by the known element e
            tmp = st.fork()
            old, self._in_spec = getattr(self, '_in_spec', False), True
            try:
                c, e_ = [self.eval1(a, tmp) for a in node.args]
            finally:
                self._in_spec = old
            if isinstance(c, Rec):
                c = self.getattr(c, 'tokens', st)
            items = st.lists[c.lid]
            if not (items and items[-1][0] == 'seg' and isinstance(e_, Rec)) or any(
                    it[0] == 'el' and isinstance(it[1], Rec) and it[1].oid == e_.oid for it in items):
                return False
            # the trailing unknown run (length n >= 1) is an unknown run of n - 1 elements followed by e
            old_seg = self.segs(st)[items[-1][1]]
            st.assume(old_seg['len'] >= 1)
            owner = [Rec(oid, 'Token') for oid, f in st.objs.items()
                     if isinstance(f.get('tokens'), LRef) and f['tokens'].lid == c.lid]
            uni = dict(old_seg['uni'])
            if owner:
                uni.setdefault('parent', owner[0])
            g = self.new_seg(st, length=z3.simplify(old_seg['len'] - 1), uni=uni, name='prefix')
            st.lists[c.lid] = tuple(items[:-1]) + (('seg', g), ('el', e_))
            return True
        if not (isinstance(node, ast.Call) and isinstance(node.func, ast.Name) and node.func.id == 'ALL'
                and len(node.args) == 3):
            return False
        tmp = st.fork()
        old, self._in_spec = getattr(self, '_in_spec', False), True
        try:
            lst = self.eval1(node.args[0], tmp)
            field = self.eval1(node.args[1], tmp)
            val = self.eval1(node.args[2], tmp)
        finally:
            self._in_spec = old
        if not isinstance(lst, LRef):
            return False
        for it in st.lists[lst.lid]:
            if it[0] == 'seg':
                seg = dict(self.segs(st)[it[1]])
                seg['uni'] = dict(seg['uni'])
                seg['uni'][field] = val
                self.segs(st)[it[1]] = seg
            elif isinstance(it[1], Rec):
                have = st.objs[it[1].oid].get(field)
                t = self.eq(have, val, st)
                st.assume(z3.BoolVal(t) if isinstance(t, bool) else t)
        return True

    def havoc_list_ext(self, st, lid):
        """a list that is structurally modified inside a loop: at the loop head it is an unknown list of tokens"""
        names = [n for n, v in st.env.items() if isinstance(v, LRef) and v.lid == lid]
        if any(n in (getattr(self.contract, 'int_lists', ()) or ()) for n in names) or \
                (st.lists.get(lid) and self.is_int_list(st, LRef(lid))):
            tmp = self.havoc_int_list(st, names[0] if names else 'ints')
            st.lists[lid] = st.lists.pop(tmp.lid)
            bump(st, lid)
            return
        sid = self.new_seg(st, name='havoc')
        st.lists[lid] = (('seg', sid),)
        bump(st, lid)

    def store_index_ext(self, o, i, v, st):
        if isinstance(o, Rec) and o.kind == 'Token':
            o = self.getattr(o, 'tokens', st)
        if isinstance(o, LRef) and self.is_intlike(i):
            n = self.zlen(st, o)
            out = []
            for s, pos in self.norm_index(st, i, n, False):
                for s2, e in self.elem_at(s, o, pos):
                    items = s2.lists[o.lid]
                    k = [j for j, x in enumerate(items) if x[0] == 'el' and x[1] is e]
                    if len(k) != 1:
                        raise OutsideSubset('item store: element not unique')
                    s2.lists[o.lid] = items[:k[0]] + (('el', v),) + items[k[0] + 1:]
                    bump(s2, o.lid)
                    if self.is_tokens_list(s2, o):
                        self.site('remove', s2, elem=e)
                        self.site('insert', s2, elem=v)
                    out.append(s2)
            return out
        return super().store_index_ext(o, i, v, st)

    def foreach_uniform(self, target, body, st, lref):
        """summarise `for x in L: body`: explicit elements are executed in order; for an opaque segment the body is
        executed once on a generic representative and its effect is lifted to the whole segment.  Side conditions
        (checked): on the representative the body only writes fields of x (and loop-local variables it also
        initialises itself), does not fork, raise, break, continue or return."""
        cur = st
        for it in list(st.lists[lref.lid]):
            if it[0] == 'el':
                res = []
                for s in self.assign(target, it[1], cur):
                    res.extend(self.exec_block(body, s))
                if len(res) != 1 or res[0][1] != Outcome.NEXT:
                    raise OutsideSubset('foreach body forks or leaves the loop')
                cur = res[0][0]
                continue
            sid = it[1]
            probe = cur.fork()
            rep = self.materialise(probe, sid, 'rep')
            before = {k: v for k, v in probe.objs[rep.oid].items()}
            env_before = dict(probe.env)
            objs_before = {oid: dict(f) for oid, f in probe.objs.items()}
            lists_before = dict(probe.lists)
            res = []
            for s in self.assign(target, rep, probe):
                res.extend(self.exec_block(body, s))
            if len(res) != 1 or res[0][1] != Outcome.NEXT:
                raise OutsideSubset('foreach body forks or leaves the loop on a generic element')
            after = res[0][0]
            for oid, f in after.objs.items():
                if oid == rep.oid:
                    continue
                if oid in objs_before and any(f.get(k) is not objs_before[oid].get(k) for k in f):
                    raise OutsideSubset('foreach body writes to an object other than the element')
            for lid, v in after.lists.items():
                if lid in lists_before and lists_before[lid] is not v:
                    raise OutsideSubset('foreach body modifies a list')
            tnames = {n.id for n in ast.walk(target) if isinstance(n, ast.Name)}
            for n, v in after.env.items():
                if n in tnames:
                    continue
                if n not in env_before or env_before[n] is not v:
                    raise OutsideSubset('foreach body assigns a loop-carried variable')
            # lift: fields written on the representative become uniform facts of the segment
            seg = dict(self.segs(cur)[sid])
            uni = dict(seg['uni'])
            for k, v in after.objs[rep.oid].items():
                if before.get(k) is not v:
                    if isinstance(v, Sym) and not isinstance(v, Rec):
                        raise OutsideSubset('foreach body stores an element-dependent value')
                    uni[k] = v
            seg['uni'] = uni
            self.segs(cur)[sid] = seg
            for n in tnames:
                cur.env[n] = Opaque('loop-variable-after-foreach')
        return [(cur, Outcome.NEXT, None)]

    def listcomp_ext(self, node, st):
        """[f(x) for x in L] used for its side effect"""
        if len(node.generators) != 1 or node.generators[0].ifs:
            raise OutsideSubset('list comprehension shape')
        g = node.generators[0]
        out = []
        for s, it in self.eval(g.iter, st):
            if isinstance(it, Rec) and it.kind == 'Token':
                it = self.getattr(it, 'tokens', s)
            if isinstance(it, LRef) and s.lists[it.lid] and all(x[0] == 'el' for x in s.lists[it.lid]) \
                    and not self.is_tokens_list(s, it):
                # a local list with known elements (e.g. the (condition, value) pairs returned by get_cases on a known
                # shape): element-wise, in order; the target may be a tuple pattern
                saved_env = dict(s.env)
                work = [(s, [])]        # (state, values so far): an element that forks multiplies the paths
                for x in [e[1] for e in s.lists[it.lid]]:
                    nxt = []
                    for cur, vals in work:
                        bound = self.assign(g.target, x, cur)
                        if len(bound) != 1:
                            raise OutsideSubset('forking list comprehension target')
                        for s_r, v_r in self.eval(node.elt, bound[0]):
                            nxt.append((s_r, vals + [v_r]))
                    if len(nxt) > 64:
                        raise OutsideSubset('list comprehension with more than 64 paths')
                    work = nxt
                for cur, vals in work:
                    for n in ast.walk(g.target):
                        if isinstance(n, ast.Name):
                            if n.id in saved_env:
                                cur.env[n.id] = saved_env[n.id]
                            else:
                                cur.env.pop(n.id, None)
                    out.append((cur, self.new_list(cur, [('el', v) for v in vals])))
                continue
            if isinstance(it, (tuple, list)) and not self.W.is_tt(it) and isinstance(g.target, ast.Name):
                # [expr for x in <concrete sequence>]: evaluate element-wise (late binding: each closure captures the
                # value x has when it is created, because closures snapshot their environment)
                vals = []
                name = g.target.id
                for x in it:
                    s.env[name] = x
                    rr = self.eval(node.elt, s)
                    if len(rr) != 1:
                        raise OutsideSubset('forking list comprehension element')
                    vals.append(rr[0][1])
                out.append((s, self.new_list(s, [('el', v) for v in vals])))
                continue
            if isinstance(it, Opaque) and it.name == 'sublists' and isinstance(g.target, ast.Name):
                # [f(child) for child in node.get_sublists()] used for its effect on the children: the element
                # expression is evaluated for an ARBITRARY group child (calls go through the callee's contract);
                # the node's own list is not touched by work on a child's list (I1)
                from contracts.sql import make_group
                s2 = s.fork()
                s2.env[g.target.id] = make_group(self, s2, 'child')
                self.eval(node.elt, s2)        # obligations (call preconditions, sites) are generated here
                out.append((s, Opaque('listcomp-result')))
                continue
            if not isinstance(it, LRef):
                raise OutsideSubset('list comprehension over %r' % (it,))
            body = [ast.Expr(value=node.elt)]
            ast.fix_missing_locations(body[0])
            saved = {n.id: s.env.get(n.id, UNBOUND) for n in ast.walk(g.target) if isinstance(n, ast.Name)}
            for s2, oc, _v in self.foreach_uniform(g.target, body, s, it):
                for n, v in saved.items():
                    if v is UNBOUND:
                        s2.env.pop(n, None)
                    else:
                        s2.env[n] = v
                out.append((s2, Opaque('listcomp-result')))
        return out

    # ------------------------------------------------------------------ spec functions for contracts
    def spec_fn(self, name, args, kw, st):
        if name in ('STACKID', 'REACHED_LOOP'):
            return super().spec_fn(name, args, kw, st)
        if name == 'FRESH':
            # the object was allocated by a constructor call executed in this activation (not a parameter's element,
            # not an attribute of a class or module, not a value returned by an unverified callee)
            v = args[0]
            return [(st, bool(isinstance(v, Rec) and st.objs[v.oid].get('__fresh__') is True))]
        if name == 'TXT':
            v = args[0]
            if isinstance(v, LRef):
                return [(st, SStr(self.list_txt(st, v)))]
            if isinstance(v, Rec):
                return [(st, SStr(self.item_txt(st, ('el', v))))]
        if name == 'ALL':
            # ALL(list, field, value): every element of the list has field == value (uniform facts / elements)
            lref, field, val = args
            parts = []
            for it in st.lists[lref.lid]:
                if it[0] == 'el':
                    have = st.objs[it[1].oid].get(field) if isinstance(it[1], Rec) else None
                else:
                    if smt.entails(st.pc, self.segs(st)[it[1]]['len'] == 0):
                        continue
                    have = self.segs(st)[it[1]]['uni'].get(field)
                if have is None:
                    return [(st, False)]
                parts.append(self.eq(have, val, st))
            return [(st, self.wrapb(self.conj(parts)))]
        if name in ('MATCH', 'NOMATCH'):
            # MATCH(funcs, lst, i): the predicate `funcs` holds for the element at index i of lst
            # NOMATCH(funcs, lst, lo, hi): it holds for no index in [lo, hi)   (interval summary; its two unfolding
            # laws are instantiated by loop lemmas in the sidecar contracts)
            funcs, lst = args[0], args[1]
            pid = pred_id(funcs)
            snap = snapshot_id(st, lst)
            zp, zs = z3.IntVal(pid), z3.IntVal(snap)
            reg = st.ghost.setdefault('__mfacts__', {'M': [], 'N': []})
            reg = st.ghost['__mfacts__'] = {'M': list(reg['M']), 'N': list(reg['N'])}
            if name == 'MATCH':
                j = self.z_int(args[2])
                for (p2, s2, lo, hi) in reg['N']:
                    if (p2, s2) == (pid, snap):
                        self.add_fact(st, z3.Implies(z3.And(NOMATCHF(zp, zs, lo, hi), lo <= j, j < hi),
                                                     z3.Not(MATCHF(zp, zs, j))))
                reg['M'].append((pid, snap, j))
                return [(st, SBool(MATCHF(zp, zs, j)))]
            lo, hi = self.z_int(args[2]), self.z_int(args[3])
            self.add_fact(st, z3.Implies(lo >= hi, NOMATCHF(zp, zs, lo, hi)))      # empty interval
            for (p2, s2, j) in reg['M']:
                if (p2, s2) == (pid, snap):
                    # interval law instantiated at a known index: NOMATCH(lo,hi) and lo <= j < hi  =>  not MATCH(j)
                    self.add_fact(st, z3.Implies(z3.And(NOMATCHF(zp, zs, lo, hi), lo <= j, j < hi),
                                                 z3.Not(MATCHF(zp, zs, j))))
            for (p2, s2, lo2, hi2) in reg['N']:
                if (p2, s2) == (pid, snap) and not (z3.eq(lo2, lo) and z3.eq(hi2, hi)):
                    # concatenation of adjacent intervals (valid law of the summary): [lo,hi) ++ [lo2,hi2)
                    self.add_fact(st, z3.Implies(z3.And(NOMATCHF(zp, zs, lo, hi), NOMATCHF(zp, zs, lo2, hi2), hi == lo2),
                                                 NOMATCHF(zp, zs, lo, hi2)))
                    self.add_fact(st, z3.Implies(z3.And(NOMATCHF(zp, zs, lo2, hi2), NOMATCHF(zp, zs, lo, hi), hi2 == lo),
                                                 NOMATCHF(zp, zs, lo2, hi)))
                    # sub-interval
                    self.add_fact(st, z3.Implies(z3.And(NOMATCHF(zp, zs, lo2, hi2), lo2 <= lo, hi <= hi2),
                                                 NOMATCHF(zp, zs, lo, hi)))
            for (p2, s2, j) in reg['M']:
                if (p2, s2) == (pid, snap):
                    # extension by one non-matching position at either end
                    self.add_fact(st, z3.Implies(z3.And(NOMATCHF(zp, zs, lo, j), z3.Not(MATCHF(zp, zs, j)), hi == j + 1),
                                                 NOMATCHF(zp, zs, lo, hi)))
                    # split at a known non-matching position: [lo,j) ++ {j} ++ [j+1,hi)
                    self.add_fact(st, z3.Implies(z3.And(lo <= j, j < hi, NOMATCHF(zp, zs, lo, j), z3.Not(MATCHF(zp, zs, j)),
                                                        NOMATCHF(zp, zs, j + 1, hi)), NOMATCHF(zp, zs, lo, hi)))
                    self.add_fact(st, z3.Implies(lo >= j, NOMATCHF(zp, zs, lo, j)))
                    self.add_fact(st, z3.Implies(j + 1 >= hi, NOMATCHF(zp, zs, j + 1, hi)))
            reg['N'].append((pid, snap, lo, hi))
            return [(st, SBool(NOMATCHF(zp, zs, lo, hi)))]
        if name == 'NEXTBY_PRED':
            # the predicate closure that TokenList.token_next_by(i=, m=, t=) hands to _token_matching: the real lambda
            # of the current source with these captured values (same code + same captures = same predicate identity)
            from .core import source
            from .symex import ClosureEnv
            fn = source().get('sqlparse.sql.TokenList.token_next_by')
            lams = [n for n in ast.walk(fn) if isinstance(n, ast.Lambda)] if fn is not None else []
            if len(lams) != 1:
                raise OutsideSubset('token_next_by no longer builds exactly one lambda')
            env = {'i': kw.get('i'), 'm': kw.get('m'), 't': kw.get('t')}
            return [(st, Func('sqlparse.sql.TokenList.token_next_by.<locals>.<lambda>', node=lams[0], closure=ClosureEnv(env)))]
        if name == 'ALLWS':
            # ALLWS(S, lo, hi): every element of the (never modified) snapshot list S at a position in [lo, hi) is a
            # whitespace token.  S must be a pristine view of one base from position 0 (checked structurally), so the
            # summary is kept in base coordinates: ALLWSF(base, lo, hi).
            lst = args[0]
            b = self.pristine_base(st, lst)
            lo, hi = self.z_int(args[1]), self.z_int(args[2])
            return [(st, SBool(self.allws_term(st, b, lo, hi)))]
        if name == 'UB':
            return [(st, SInt(self.int_list_ub(st, args[0])))]
        if name == 'SORTED':
            return [(st, SBool(self.int_list_sorted(st, args[0])))]
        if name == 'SUFFIX':
            # SUFFIX(C, p, S, k): the list C from position p on is the list S from position k on (same elements)
            c, p_, s_, k_ = args
            if isinstance(c, Rec):
                c = self.getattr(c, 'tokens', st)
            out = []
            try:
                for s1, _k in self.split_with_cases(st, c, self.z_int(p_)):
                    for s2, _k2 in self.split_with_cases(s1, s_, self.z_int(k_)):
                        a = self.suffix_items(s2, c, self.z_int(p_))
                        b = self.suffix_items(s2, s_, self.z_int(k_))
                        out.append((s2, SBool(self.items_equal(s2, a, b))))
            except OutsideSubset:
                # a position that provably lies outside the list: the lists cannot be related this way
                return [(st, False)]
            return out or [(st, False)]
        if name == 'ENDS_WITH':
            c, e_ = args
            if isinstance(c, Rec):
                c = self.getattr(c, 'tokens', st)
            n = self.zlen(st, c)
            if not smt.entails(st.pc, n >= 1):
                return [(st, False)]
            out = []
            for s1, last in self.elem_at(st, c, z3.simplify(n - 1)):
                out.append((s1, bool(isinstance(last, Rec) and isinstance(e_, Rec) and last.oid == e_.oid)))
            return out
        if name == 'SAME_ITEMS':
            a, b = args
            return [(st, st.lists[a.lid] == st.lists[b.lid])]
        raise OutsideSubset('spec function %s' % name)

    def transfer_nomatch_prefix(self, st, old_snap, new_snap, k):
        """the list was modified at positions >= k only: interval summaries that lie entirely below k stay valid for
        the new contents (instances of: same elements at the same positions => same MATCH values)"""
        reg = st.ghost.get('__mfacts__')
        if not reg:
            return
        reg = st.ghost['__mfacts__'] = {'M': list(reg['M']), 'N': list(reg['N'])}
        zo, zn = z3.IntVal(old_snap), z3.IntVal(new_snap)
        for (pid, s2, lo, hi) in list(reg['N']):
            if s2 == old_snap:
                zp = z3.IntVal(pid)
                st.assume(z3.Implies(z3.And(NOMATCHF(zp, zo, lo, hi), hi <= k), NOMATCHF(zp, zn, lo, hi)))
                reg['N'].append((pid, new_snap, lo, hi))
        for (pid, s2, j) in list(reg['M']):
            if s2 == old_snap:
                zp = z3.IntVal(pid)
                st.assume(z3.Implies(j < k, MATCHF(zp, zn, j) == MATCHF(zp, zo, j)))
                reg['M'].append((pid, new_snap, j))

    def pristine_base(self, st, lst):
        """base id of a list that is exactly the view [0, n) of one base (segments / materialised elements in order)"""
        if not isinstance(lst, LRef):
            raise OutsideSubset('ALLWS of a non-list')
        base, pos = None, z3.IntVal(0)
        for it in st.lists[lst.lid]:
            if it[0] == 'el':
                f = st.objs.get(it[1].oid, {}) if isinstance(it[1], Rec) else {}
                if '__pos__' not in f:
                    raise OutsideSubset('ALLWS: the list is not a pristine view')
                b, lo, hi = f['__base__'], f['__pos__'], z3.simplify(f['__pos__'] + 1)
            else:
                sg = self.segs(st)[it[1]]
                b, lo, hi = sg['base'], sg['lo'], sg['hi']
            if base is None:
                base = b
            if b != base or not z3.eq(z3.simplify(lo), z3.simplify(pos)):
                if b != base or not smt.entails(st.pc, lo == pos):
                    raise OutsideSubset('ALLWS: the list is not a pristine view from position 0')
            pos = hi
        if base is None:
            raise OutsideSubset('ALLWS of an empty concrete list')
        return base

    def allws_term(self, st, base, lo, hi):
        """ALLWSF(base, lo, hi) with its laws instantiated against the terms already known in this state"""
        zb = z3.IntVal(base)
        t = ALLWSF(zb, lo, hi)
        W = self.W
        F = elem_functions(W)
        # (L1) empty interval
        self.add_fact(st, z3.Implies(lo >= hi, t))
        # (L2) unfolding at the lower end: the element at position lo is whitespace
        ws_lo = self._b(self.contains(STy(F['ttype'](zb, z3.simplify(lo))), W.T.Whitespace, st))
        self.add_fact(st, z3.Implies(z3.And(t, lo < hi), ws_lo))
        reg = st.ghost.setdefault('__allws__', ())
        for (b2, lo2, hi2) in reg:
            if b2 == base:
                t2 = ALLWSF(zb, lo2, hi2)
                # (L3) sub-interval law, both directions between known terms
                self.add_fact(st, z3.Implies(z3.And(t2, lo2 <= lo, hi <= hi2), t))
                self.add_fact(st, z3.Implies(z3.And(t, lo <= lo2, hi2 <= hi), t2))
        if not any(b2 == base and z3.eq(lo2, lo) and z3.eq(hi2, hi) for (b2, lo2, hi2) in reg):
            st.ghost['__allws__'] = reg + ((base, lo, hi),)
        return t

    def eq(self, a, b, st):
        if isinstance(a, Rec) and isinstance(b, Rec):
            if a.oid == b.oid:
                return True
            fa, fb = st.objs.get(a.oid, {}), st.objs.get(b.oid, {})
            if '__pos__' in fa and '__pos__' in fb and fa.get('__base__') == fb.get('__base__'):
                return fa['__pos__'] == fb['__pos__']
            return False
        if (isinstance(a, Rec) and b is None) or (isinstance(b, Rec) and a is None):
            return False
        return super().eq(a, b, st)


_EF = {}


def elem_functions(W):
    if not _EF:
        I = z3.IntSort()
        _EF.update({'value': z3.Function('EL_value', I, I, z3.StringSort()),
                    'normalized': z3.Function('EL_normalized', I, I, z3.StringSort()),
                    'is_group': z3.Function('EL_is_group', I, I, z3.BoolSort()),
                    'cls': z3.Function('EL_cls', I, I, W.CLS),
                    'ttype': z3.Function('EL_ttype', I, I, W.TT)})
    return _EF


ALLWSF = z3.Function('ALLWSF', z3.IntSort(), z3.IntSort(), z3.IntSort(), z3.BoolSort())
MATCHF = z3.Function('MATCHF', z3.IntSort(), z3.IntSort(), z3.IntSort(), z3.BoolSort())
NOMATCHF = z3.Function('NOMATCHF', z3.IntSort(), z3.IntSort(), z3.IntSort(), z3.IntSort(), z3.BoolSort())
_PIDS = {}
_SNAPS = {}


def pred_id(f):
    """identity of a predicate: an opaque predicate by its id; a closure by its code and the values it captured
    (two closures made from the same lambda/def with the same captured values are the same predicate)"""
    if isinstance(f, Opaque) and isinstance(f.data, dict) and 'pid' in f.data:
        return f.data['pid']
    if isinstance(f, (tuple, list)) and len(f) == 1:
        return pred_id(f[0])
    if isinstance(f, Func) and f.node is not None:
        used = {n.id for n in ast.walk(f.node) if isinstance(n, ast.Name)}
        env = f.closure.env if f.closure is not None else {}
        cap = []
        for name in sorted(used):
            if name in env:
                v = env[name]
                if isinstance(v, Rec):
                    cap.append((name, 'rec', v.oid))
                elif hasattr(v, 'z'):
                    cap.append((name, 'z', str(v.z)))
                elif isinstance(v, Func):
                    cap.append((name, 'fn', id(v.node)))
                else:
                    cap.append((name, 'c', repr(v)))
        k = ('closure', id(f.node), tuple(cap))
    else:
        k = ('obj', id(f))
    if k not in _PIDS:
        _PIDS[k] = (next(_ids), f)
    return _PIDS[k][0]


def snapshot_id(st, lst):
    """identity of the current contents of a list: (list object, number of semantic modifications so far);
    refinements of the representation (splitting segments, materialising elements) do not change it"""
    if isinstance(lst, Rec):
        lst = st.objs[lst.oid]['tokens']
    key = (lst.lid, st.ghost.get('__ver__%d' % lst.lid, 0))
    if key not in _SNAPS:
        _SNAPS[key] = next(_ids)
    return _SNAPS[key]


def bump(st, lid):
    st.ghost['__ver__%d' % lid] = st.ghost.get('__ver__%d' % lid, 0) + 1


def _merge_views(st, items):
    """item sequence with adjacent views of the same base merged; entries ('seg', base, lo, hi) | ('el', oid)"""
    out = []
    for it in items:
        if it[0] == 'seg':
            sg = st.segs_[it[1]]
            x = ('seg', sg['base'], sg['lo'], sg['hi'])
        elif it[0] == 'el' and isinstance(it[1], Rec) and '__pos__' in st.objs.get(it[1].oid, {}):
            f = st.objs[it[1].oid]
            x = ('seg', f['__base__'], f['__pos__'], z3.simplify(f['__pos__'] + 1))
        elif it[0] == 'el':
            x = ('el', getattr(it[1], 'oid', id(it[1])))
        else:
            x = ('other', id(it))
        if out and x[0] == 'seg' and out[-1][0] == 'seg' and out[-1][1] == x[1] \
                and z3.is_true(z3.simplify(out[-1][3] == x[2])):
            out[-1] = ('seg', x[1], out[-1][2], x[3])
        else:
            out.append(x)
    # drop views that are syntactically empty
    return [x for x in out if not (x[0] == 'seg' and z3.is_true(z3.simplify(x[2] == x[3])))]


def _canon_items(st, items):
    out = []
    for it in items:
        if it[0] == 'iseg':
            sg = st.segs_[it[1]]
            out.append(('iseg', str(sg['len']), str(sg['ub'])))
            continue
        if it[0] == 'seg':
            sg = st.segs_[it[1]]
            out.append(('seg', sg['base'], str(sg['lo']), str(sg['hi'])))
        else:
            v = it[1]
            f = st.objs.get(v.oid, {}) if isinstance(v, Rec) else {}
            if '__pos__' in f:
                out.append(('seg', f['__base__'], str(f['__pos__']), str(z3.simplify(f['__pos__'] + 1))))
            else:
                out.append(('el', getattr(v, 'oid', id(v))))
    # merge adjacent views of the same base
    merged = []
    for x in out:
        if merged and x[0] == 'seg' and merged[-1][0] == 'seg' and merged[-1][1] == x[1] and merged[-1][3] == x[2]:
            merged[-1] = ('seg', x[1], merged[-1][2], x[3])
        else:
            merged.append(x)
    return tuple(merged)


SEGTXT = z3.Function('SEGTXT', z3.IntSort(), z3.IntSort(), z3.IntSort(), z3.StringSort())


def bind_elem_or_none(list_expr, idx_name, tok_name):
    """loop-head binding for the pattern `idx, token = tlist.token_next_by(...)` / `while token:`: after the havoc
    the pair is (None, None) or (i, list[i]) for an arbitrary valid index i"""
    def bind(ex, head):
        s_none = head.fork()
        s_none.env[idx_name] = None
        s_none.env[tok_name] = None
        r = ex.eval(ast.parse(list_expr, mode='eval').body, head)
        out = [s_none]
        for s, lst in r:
            if isinstance(lst, Rec):
                lst = ex.getattr(lst, 'tokens', s)
            n = ex.zlen(s, lst)
            k = fresh(idx_name, z3.IntSort())
            for s1, ok in ex.decide(s, n > 0):
                if not ok:
                    continue
                s1.assume(z3.And(k >= 0, k < n))
                for s2, e in ex.elem_at(s1, lst, k):
                    s2.env[idx_name] = SInt(k)
                    s2.env[tok_name] = e
                    out.append(s2)
        return out
    return bind


INT_LIST_NAMES = {'opens'}


class _NeedCase(Exception):
    def __init__(self, off, k, cum, ln, cases):
        self.off, self.k, self.cum, self.ln, self.cases = off, k, cum, ln, cases


def install(st):
    st.segs_ = {}
