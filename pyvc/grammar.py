"""Structural induction over the verification grammar (DESIGN 3.5, 4.5) for the statement splitter.

For every production  X ::= s1 ... sk  and every context family F of X the obligation is a Hoare triple over the
REAL code of StatementSplitter.process (its loop body, executed symbolically token by token, with
_change_splitlevel / _reset executed in place):

   from any splitter state in F, feeding the terminals (token form obtained by running the real lexer on the
   terminal's spelling) and assuming the summaries of the non-terminals, no statement boundary is produced inside,
   the level never drops below the entry level, and the state at the end equals the entry state.

Summary of every non-terminal ("balanced"): the splitter state (flags, depth, level, consume_ws) is unchanged.
Context families (subsets of the splitter's state invariant; see ProductionChecker.in_family):
   TOP / TOPP : outside any block (_begin_depth == 0), level >= 0 / >= 1
   XB         : expression or plain statement inside CREATE .. BEGIN (any CASE depth, any loop-header flag)
   BODY       : procedural statement level inside CREATE .. BEGIN (not directly inside a branch of a CASE statement, no pending loop header)
   PROC0/DECL : after the CREATE header, before BEGIN / inside a DECLARE section
A production whose triple fails yields a concrete script (the production instantiated with minimal bodies).
"""
import ast

import z3

from . import smt
from .core import Obl, DISCHARGED, FAILED, UNDECIDED, STALE, source, loops_of
from .symex import (Exec, State, Outcome, PyExc, OutsideSubset, Sym, SInt, SBool, SStr, STy, Rec, LRef, Opaque,
                    World, fresh)

PROCESS = 'sqlparse.engine.statement_splitter.StatementSplitter.process'

# ------------------------------------------------------------------------------------------- the grammar
# lower-case words that are keys = non-terminals; UPPER words and punctuation = spelled terminals ('_' = blank);
# NAME NUM STR QNAME OP CMP STAR = opaque terminal classes (any token that is neither keyword nor punctuation).
CLASSES = {'NAME': 'a', 'NUM': '1', 'STR': "'s'", 'QNAME': '"q"', 'OP': '+', 'CMP': '=', 'STAR': '*', 'TYPE': 'int'}

EXPR = '''
items     : item | items , item
item      : expr | expr NAME | expr AS NAME
objname   : NAME | NAME . NAME | QNAME | QNAME . QNAME | NAME . QNAME
cond      : expr CMP expr | expr LIKE expr | cond AND cond | cond OR cond | NOT cond | expr BETWEEN atom AND atom | expr IN ( items ) | ( cond ) | expr IS NULL
expr      : atom | expr OP atom | expr STAR atom
atom      : objname | NUM | STR | STAR | ( expr ) | NAME ( ) | NAME ( items ) | IF( items ) | atom :: TYPE | DATE STR | TIMESTAMP STR | INTERVAL STR unit | anyparen
unit      : DAY | HOUR | MINUTE | MONTH | SECOND | YEAR
anyparen  : ( junk )
junk      : | junk ; | junk NAME | junk , | junk STR | junk NUM | junk OP | junk anyparen
whens     : when | whens when
when      : WHEN cond THEN expr
'''

# case-free copies (x...) are generated from EXPR; the CASE productions are added on top
CASE = '''
atom      : caseexpr | ( query )
cond      : expr IN ( query )
caseexpr  : CASE xwhens END | CASE xexpr xwhens END | CASE xwhens ELSE xexpr END | CASE xexpr xwhens ELSE xexpr END
xatom     : nestedcase
nestedcase: caseexpr
'''

PLAIN = '''
stmt      : query | insert | update | delete | ddl
query     : select | WITH ctes select | query setop select
ctes      : cte | ctes , cte
cte       : NAME AS ( query )
setop     : UNION | UNION_ALL | EXCEPT
select    : SELECT selopt selitems fromopt whereopt groupopt orderopt limitopt
selopt    : | DISTINCT
selitems  : items | STAR
fromopt   : | FROM refs
refs      : ref | refs , ref | refs join ref | refs join ref ON cond
join      : JOIN | INNER_JOIN | LEFT_JOIN | LEFT_OUTER_JOIN | CROSS_JOIN | NATURAL_JOIN | FULL_OUTER_JOIN
ref       : objname | objname NAME | objname AS NAME | ( query ) NAME | ( query ) AS NAME
whereopt  : | WHERE cond
groupopt  : | GROUP_BY items | GROUP_BY items HAVING cond
orderopt  : | ORDER_BY oitems
oitems    : oitem | oitems , oitem
oitem     : expr | expr ASC | expr DESC
limitopt  : | LIMIT NUM
insert    : INSERT INTO objname VALUES tuples | INSERT INTO objname ( items ) VALUES tuples | INSERT INTO objname query | INSERT INTO objname ( items ) query
tuples    : ( items ) | tuples , ( items )
update    : UPDATE objname SET assigns whereopt
assigns   : assign | assigns , assign
assign    : NAME CMP expr
delete    : DELETE FROM objname whereopt
ddl       : CREATE TABLE objname ( coldefs ) | CREATE TABLE IF NOT EXISTS objname ( coldefs ) | CREATE INDEX IF NOT EXISTS NAME ON objname ( items ) | DROP TABLE IF EXISTS objname | DROP VIEW IF EXISTS objname | CREATE VIEW objname AS query | CREATE_OR_REPLACE VIEW objname AS query | CREATE INDEX NAME ON objname ( items ) | DROP TABLE objname | DROP VIEW objname | ALTER TABLE objname ADD coldef
coldefs   : coldef | coldefs , coldef
coldef    : NAME TYPE | NAME TYPE ( NUM ) | NAME TYPE NOT_NULL | NAME TYPE PRIMARY_KEY
'''

PROC = '''
block     : BEGIN pstmts END
pstmts    : pstmt ; | pstmts pstmt ;
pstmt     : stmt | NAME := expr | block | RETURN expr | ifstmt | whiledo | loopstmt | forloop | whileloop | casestmt
ifstmt    : IF cond THEN pstmts END_IF | IF cond THEN pstmts ELSE pstmts END_IF
whiledo   : WHILE cond DO pstmts END_WHILE
loopstmt  : LOOP pstmts END_LOOP
forloop   : FOR NAME IN NUM .. NUM LOOP pstmts END_LOOP
whileloop : WHILE cond LOOP pstmts END_LOOP
casestmt  : CASE swhens END_CASE | CASE xexpr swhens END_CASE
swhens    : swhen | swhens swhen
swhen     : WHEN xcond THEN pstmts
'''

# productions from the reset state (statement level); checked with dedicated pre/post conditions
TOPLEVEL = '''
plain_terminated : stmt ;
proc_terminated  : prochdr block ;
proc_declare     : prochdr DECLARE decls BEGIN pstmts END ;
prochdr   : CREATE prockind NAME ( params ) returnsopt asopt | CREATE_OR_REPLACE prockind NAME ( params ) returnsopt asopt
prockind  : FUNCTION | PROCEDURE | TRIGGER
params    : | NAME TYPE | params , NAME TYPE
returnsopt: | RETURNS TYPE
asopt     : | AS
decls     : | decls NAME TYPE ;
'''


def parse_rules(text):
    """'lhs : alt | alt ...' per line; an empty alternative (leading '|' or nothing) is the empty production"""
    rules = []
    for line in text.strip().splitlines():
        line = line.strip()
        if not line:
            continue
        import re as _re
        m = _re.match(r'^(\w+)\s*:(.*)$', line)
        lhs, rhs = m.group(1), m.group(2).strip()
        alts = [a.strip() for a in (' ' + rhs + ' ').split(' | ')] if rhs else ['']
        if rhs.startswith('|'):
            alts = [''] + [a.strip() for a in (' ' + rhs[1:] + ' ').split(' | ')]
        for alt in alts:
            rules.append((lhs, tuple(alt.split())))
    return rules


def build_grammar():
    """returns (rules: list of (lhs, rhs tuple), families: {nonterminal: set of families})"""
    expr = parse_rules(EXPR)
    case = parse_rules(CASE)
    plain = parse_rules(PLAIN)
    proc = parse_rules(PROC)
    exprnts = {l for l, _ in expr}
    # case-free copies
    xrules = []
    for l, r in expr:
        xrules.append(('x' + l, tuple(('x' + s) if s in exprnts else s for s in r)))
    rules = []
    fam = {}
    for l, r in expr + case:
        if l.startswith('x') or l == 'nestedcase':
            continue
        rules.append((l, r))
        fam.setdefault(l, {'TOP', 'XB'})
    for l, r in xrules:
        rules.append((l, r))
        fam.setdefault(l, {'TOP', 'XB'})
    fam['junk'] = {'TOPP', 'XB'}
    fam['xjunk'] = {'TOPP', 'XB'}
    for l, r in case:
        if l == 'xatom':
            rules.append((l, r))
        elif l == 'nestedcase':
            rules.append((l, r))
            fam[l] = {'TOP', 'XB'}
    fam['caseexpr'] = {'TOP', 'XB'}
    for l, r in plain:
        rules.append((l, r))
        fam.setdefault(l, {'TOP', 'XB'})
    for l, r in proc:
        rules.append((l, r))
        # BODY: statement level of a body outside any CASE statement; BODYC: inside the branches of a CASE statement
        # (the CASE counter is >= 1 there)
        fam.setdefault(l, {'BODY', 'BODYC'})
    fam['block'] = {'PROC0', 'BODY', 'BODYC'}
    for l, r in parse_rules(TOPLEVEL):
        if l in ('plain_terminated', 'proc_terminated', 'proc_declare'):
            continue
        rules.append((l, r))
        fam.setdefault(l, {'TOP'})
    fam['decls'] = {'DECL'}
    # de-duplicate
    seen, out = set(), []
    for lr in rules:
        if lr not in seen:
            seen.add(lr)
            out.append(lr)
    return out, fam


def terminal_tokens(spelling):
    """token form of a spelled terminal: the real lexer run on the spelling in a blank-delimited context"""
    from sqlparse import lexer, tokens as T
    text = spelling.replace('_', ' ')
    toks = [(t, v) for t, v in lexer.tokenize(' ' + text + ' ') if t not in T.Whitespace]
    return toks


# ------------------------------------------------------------------------------------------- production checker

ESTABLISHES_CREATE = {'prochdr'}
FIELDS = ('_in_declare', '_case_levels', '_is_create', '_begin_depth', 'level', 'consume_ws', '_in_loop_header', '_in_ddl')
# _case_levels: the stack of levels at which the CASE blocks that raised the level were opened (an abstract integer stack:
# length, top and a version number; "unchanged" means the same version, i.e. the same sequence of entries).
# _in_ddl ("inside a DDL statement of a body": its IF [NOT] EXISTS is not a block opener) is set by a DDL keyword inside a
# body and cleared by the ';' that ends the statement.  Non-terminals that can derive a DDL statement may leave it in any
# state; non-terminals whose productions all end with ';' leave it cleared; every other non-terminal never sets it (a ';'
# inside parentheses may clear it).
MAY_SET_DDL = {'ddl', 'stmt', 'pstmt'}
SEMI_ENDING = {'pstmts', 'decls'}


_CONCRETE_STACK_IDS = {}


class ProductionChecker:
    def __init__(self, reg, prop):
        from contracts import splitter as cs
        self.cs = cs
        self.reg = reg
        self.prop = prop
        self.W = World.get()
        self.node = source().get(PROCESS)
        self.rules, self.fam = build_grammar()
        self.nts = set(self.fam) | {l for l, _ in parse_rules(TOPLEVEL)}
        self._term_cache = {}
        if self.node is not None:
            lo = loops_of(self.node)
            self.loop = lo.get('0')
            self.prefix = []
            for st in self.node.body:
                if st is self.loop:
                    break
                self.prefix.append(st)
        else:
            self.loop = None

    def stale(self):
        return self.node is None or self.loop is None or not isinstance(self.loop, ast.For)

    # ---- symbolic splitter in a family
    def new_exec(self):
        from .spec import module_globals
        ex = Exec(self.reg, module_globals(PROCESS), PROCESS, None)
        ex.loop_ords = loops_of(self.node)
        ex.fn_node = self.node
        return ex

    def in_family(self, st, me, fam):
        """context families (all subsets of the state invariant INV of contracts/splitter.py)"""
        o = st.objs[me.oid]

        def zz(n):
            v = o[n]
            if isinstance(v, bool):
                return z3.BoolVal(v)
            if isinstance(v, int):
                return z3.IntVal(v)
            return v.z
        stk = o.get('_case_levels')
        if isinstance(stk, LRef) and all(it[0] == 'el' for it in st.lists[stk.lid]):
            items = st.lists[stk.lid]
            slen = z3.IntVal(len(items))
            stop = (items[-1][1].z if hasattr(items[-1][1], 'z') else z3.IntVal(items[-1][1])) if items else z3.IntVal(0)
        elif isinstance(stk, Rec) and stk.kind == 'istack':
            so = st.objs[stk.oid]
            slen, stop = so['len'], so['top']
        else:
            raise OutsideSubset('the splitter has no stack of open CASE blocks (_case_levels)')
        # every recorded level lies below the current level (the CASE raised it); `direct`: the innermost opener that an
        # END would close is a CASE (nothing closed by END was opened since)
        stack_inv = z3.And(slen >= 0, z3.Implies(slen > 0, z3.And(stop >= 0, stop <= zz('level') - 1)))
        direct = z3.And(slen > 0, stop == zz('level') - 1)
        nocase = slen == 0
        anycase = stack_inv
        hdr = zz('_in_loop_header') if '_in_loop_header' in o else z3.BoolVal(False)
        ddl = zz('_in_ddl') if '_in_ddl' in o else z3.BoolVal(False)
        cs = [z3.Not(zz('consume_ws'))]
        if fam in ('TOP', 'TOPP'):
            # (_in_case == 0 follows from INV: _in_case > 0 => _begin_depth >= 1)
            cs += [zz('_begin_depth') == 0, z3.Not(zz('_in_declare')), zz('level') >= (1 if fam == 'TOPP' else 0),
                   nocase, z3.Not(ddl)]
        elif fam == 'PROC0':
            cs += [zz('_is_create'), zz('_begin_depth') == 0, z3.Not(zz('_in_declare')), nocase, zz('level') >= 0,
                   z3.Not(hdr), z3.Not(ddl)]
        elif fam == 'DECL':
            cs += [zz('_is_create'), zz('_begin_depth') == 0, zz('_in_declare'), zz('level') >= 1, nocase, z3.Not(ddl)]
        elif fam == 'XB':       # expression / plain statement inside a procedural body
            cs += [zz('_is_create'), zz('_begin_depth') >= 1, z3.Not(zz('_in_declare')), zz('level') >= 1, anycase]
        elif fam == 'BODY':     # procedural statement level inside a body, not directly inside a CASE statement's branch
            cs += [zz('_is_create'), zz('_begin_depth') >= 1, z3.Not(zz('_in_declare')), zz('level') >= 1, stack_inv,
                   z3.Not(direct), z3.Not(hdr), z3.Not(ddl)]
        elif fam == 'BODYC':    # procedural statement level inside a branch of a CASE statement
            cs += [zz('_is_create'), zz('_begin_depth') >= 1, z3.Not(zz('_in_declare')), zz('level') >= 1, stack_inv,
                   direct, z3.Not(hdr), z3.Not(ddl)]
        elif fam == 'RESET':
            cs += [zz('_begin_depth') == 0, z3.Not(zz('_in_declare')), zz('level') == 0, nocase,
                   z3.Not(zz('_is_create')), z3.Not(hdr), z3.Not(ddl)]
        elif fam == 'AFTER_TERMINATOR':
            cs = [zz('consume_ws'), zz('_begin_depth') >= 0, anycase]
        else:
            raise ValueError(fam)
        return z3.And(*cs)

    def start(self, fam, sfx=''):
        ex = self.new_exec()
        st = State()
        me = self.cs.make_splitter(ex, st, sfx=sfx)
        st.env['self'] = me
        st.env['stream'] = Opaque('stream')
        st.assume(self.in_family(st, me, fam))
        res = ex.exec_block(self.prefix, st)
        sts = [s for s, oc, _ in res if oc == Outcome.NEXT]
        if len(sts) != 1:
            raise OutsideSubset('prefix of process forks')
        return ex, sts[0], me

    def field_z(self, st, me, n):
        v = st.objs[me.oid][n]
        if isinstance(v, Rec) and v.kind == 'istack':
            # (the empty stack has one identity, however it came about)
            so = st.objs[v.oid]
            return z3.If(so['len'] == 0, z3.IntVal(0), z3.IntVal(so['vid']))
        if isinstance(v, LRef):
            # a concrete list (e.g. the `[]` that _reset() assigns): identified by its entries; the empty list is 0
            items = st.lists[v.lid]
            if not items:
                return z3.IntVal(0)
            key = tuple(str(getattr(it[1], 'z', it[1])) for it in items)
            return z3.IntVal(-1 - _CONCRETE_STACK_IDS.setdefault(key, len(_CONCRETE_STACK_IDS)))
        if isinstance(v, bool):
            return z3.BoolVal(v)
        if isinstance(v, int):
            return z3.IntVal(v)
        return v.z

    def step(self, ex, states, me, ttype, value, events):
        """feed one token through the real loop body"""
        out = []
        for st in states:
            st.env['__yielded__'] = False
            for s in ex.assign(self.loop.target, (ttype, value), st):
                for s2, oc, val in ex.exec_block(self.loop.body, s):
                    if oc in (Outcome.NEXT, Outcome.CONT):
                        out.append(s2)
                    elif oc == Outcome.RAISE:
                        events.append(('raise', val.cls_name, s2))
                    else:
                        events.append(('control', oc, s2))
        return out

    def symbols_tokens(self, sym, ex, states):
        """list of (ttype, value) for a terminal symbol; class terminals are symbolic"""
        if sym in CLASSES:
            t = STy(fresh('cls_' + sym, self.W.TT))
            v = SStr(fresh('val_' + sym, z3.StringSort()))
            for st in states:
                kw = ex.contains(t, self.W.T.Keyword, st)
                st.assume(z3.Not(kw))
                st.assume(t.z != self.W.tt(self.W.T.Punctuation))
                st.assume(t.z != self.W.tt_none)
            return [(t, v)]
        if sym not in self._term_cache:
            self._term_cache[sym] = terminal_tokens(sym)
        return list(self._term_cache[sym])

    def check(self, lhs, rhs, fam, mode='balanced'):
        """returns Obl for production lhs ::= rhs in family fam"""
        name = '%s/grammar[%s]/%s ::= %s' % (self.prop, fam, lhs, ' '.join(rhs) if rhs else 'ε')
        ob = Obl(name, PROCESS, kind='smt', backend='z3')
        if self.stale():
            ob.status, ob.detail = STALE, {'reason': 'StatementSplitter.process or its token loop not found'}
            return ob
        import time
        t0 = time.time()
        try:
            ex, st, me = self.start(fam)
            entry = {n: self.field_z(st, me, n) for n in FIELDS}
            goals = []     # (label, pc, formula)
            yields = []

            ex.on_yield_hook = lambda s_, v_: yields.append(list(s_.pc))
            states = [st]
            events = []
            for k, sym in enumerate(rhs):
                if sym in self.nts:
                    fams = self.fam.get(sym, set())
                    for s in states:
                        pre = z3.Or(*[self.in_family(s, me, f) for f in sorted(fams)]) if fams else z3.BoolVal(False)
                        goals.append(('pre(%s)@%d' % (sym, k), list(s.pc), pre))
                        # summary of a non-terminal: state unchanged, except that _is_create may have been set
                        old_c = self.field_z(s, me, '_is_create')
                        new_c = fresh('is_create_after_' + sym, z3.BoolSort())
                        s.objs[me.oid]['_is_create'] = SBool(new_c)
                        s.assume(z3.Implies(old_c, new_c))
                        if sym in ESTABLISHES_CREATE:
                            s.assume(new_c)
                        if '_in_ddl' in s.objs[me.oid]:
                            old_d = self.field_z(s, me, '_in_ddl')
                            if sym in SEMI_ENDING:
                                s.objs[me.oid]['_in_ddl'] = SBool(z3.BoolVal(False))
                            elif sym in MAY_SET_DDL:
                                s.objs[me.oid]['_in_ddl'] = SBool(fresh('in_ddl_after_' + sym, z3.BoolSort()))
                            else:
                                # never set; a ';' inside parentheses (junk) may clear it
                                new_d = fresh('in_ddl_after_' + sym, z3.BoolSort())
                                s.objs[me.oid]['_in_ddl'] = SBool(new_d)
                                s.assume(z3.Implies(new_d, old_d))
                    continue
                for tt, val in self.symbols_tokens(sym, ex, states):
                    states = self.step(ex, states, me, tt, val, events)
                    for s in states:
                        lvl = self.field_z(s, me, 'level')
                        cw = self.field_z(s, me, 'consume_ws')
                        last = (k == len(rhs) - 1)
                        if not (mode != 'balanced' and last):
                            goals.append(('level>=entry after %s@%d' % (sym, k), list(s.pc), lvl >= entry['level']))
                            goals.append(('no boundary after %s@%d' % (sym, k), list(s.pc), z3.Not(cw)))
            for y_pc in yields:
                goals.append(('no statement yielded inside', y_pc, z3.BoolVal(False)))
            for kind, what, s in events:
                goals.append(('no %s %s' % (kind, what), list(s.pc), z3.BoolVal(False)))
            for s in states:
                if mode == 'balanced':
                    for n in FIELDS:
                        if n == '_is_create':
                            goals.append(('_is_create only ever set', list(s.pc),
                                          z3.Implies(entry[n], self.field_z(s, me, n))))
                            if lhs in ESTABLISHES_CREATE:
                                goals.append(('_is_create established', list(s.pc), self.field_z(s, me, n)))
                            continue
                        if n == '_in_ddl' and lhs in SEMI_ENDING:
                            goals.append(('_in_ddl cleared by the final ;', list(s.pc), z3.Not(self.field_z(s, me, n))))
                            continue
                        if n == '_in_ddl' and lhs in MAY_SET_DDL:
                            continue
                        if n == '_in_ddl':
                            goals.append(('_in_ddl never set here', list(s.pc), z3.Implies(self.field_z(s, me, n), entry[n])))
                            continue
                        goals.append(('%s unchanged' % n, list(s.pc), self.field_z(s, me, n) == entry[n]))
                elif mode == 'terminated':
                    goals.append(('boundary set at the final ;', list(s.pc), self.field_z(s, me, 'consume_ws')))
                    goals.append(('level == 0 at the final ;', list(s.pc), self.field_z(s, me, 'level') == 0))
            if not states:
                goals.append(('some path reaches the end', [], z3.BoolVal(False)))
        except OutsideSubset as e:
            ob.status, ob.detail = UNDECIDED, {'reason': 'outside the verified subset: %s' % e}
            return ob
        except PyExc as e:
            ob.status, ob.detail = UNDECIDED, {'reason': 'exception %s %s' % (e.cls_name, e.msg)}
            return ob
        status, detail = DISCHARGED, {'goals': len(goals)}
        secs = 0.0
        for label, pc, f in goals:
            v, be, dt, m = smt.check(pc, f)
            secs += dt
            if v == 'unsat':
                continue
            if v == 'sat':
                status = FAILED
                detail.update({'verdict': 'sat', 'goal': label, 'model': smt.model_to_dict(m)})
                break
            status = UNDECIDED
            detail.update({'verdict': 'unknown', 'goal': label, 'reason': str(m)[:200]})
        ob.status, ob.detail, ob.seconds = status, detail, secs
        ob.detail['vc_generation_s'] = round(time.time() - t0 - secs, 3)
        return ob


class _YieldRecorder:
    """contract stand-in that records the path condition of every yield executed inside a production"""

    def __init__(self, sink):
        self.sink = sink
        self.loops = {}
        self.yield_asserts = []
        self.yield_site_asserts = {}
        self.on_yield = None

    def __getattr__(self, n):
        raise AttributeError(n)


def minimal_script(lhs, rhs, rules, fam='TOP'):
    """a concrete script instantiating the production with minimal bodies (for replay)"""
    mins = {}
    changed = True
    rl = {}
    for l, r in rules:
        rl.setdefault(l, []).append(r)
    # minimal expansion by fixpoint
    while changed:
        changed = False
        for l, alts in rl.items():
            for r in alts:
                try:
                    parts = []
                    for s in r:
                        if s in rl:
                            parts.append(mins[s])
                        elif s in CLASSES:
                            parts.append(CLASSES[s])
                        else:
                            parts.append(s.replace('_', ' '))
                    cand = ' '.join(p for p in parts if p)
                except KeyError:
                    continue
                if l not in mins or len(cand) < len(mins[l]):
                    mins[l] = cand
                    changed = True
    parts = []
    for s in rhs:
        if s in rl:
            parts.append(mins.get(s, ''))
        elif s in CLASSES:
            parts.append(CLASSES[s])
        else:
            parts.append(s.replace('_', ' '))
    return ' '.join(p for p in parts if p), mins


# ------------------------------------------------------------------------------------------- statement level

def _sym_token(pc_, ex, st, kind):
    """a symbolic token of the given kind, as the PROPERTY draws the line (C05: "blanks and `--` comments after the
    terminator stay"): 'trivia' = a blank (type Whitespace itself; a line break is not a blank) or a single-line comment
    of any kind (Comment.Single and its optimizer-hint subtype); 'other' = anything else"""
    W = pc_.W
    t = STy(fresh('tok_t', W.TT))
    v = SStr(fresh('tok_v', z3.StringSort()))
    eos = z3.Or(t.z == W.tt(W.T.Whitespace), *[t.z == W.tt(x) for x in W.subtypes(W.T.Comment.Single)])
    st.assume(t.z != W.tt_none)
    st.assume(eos if kind == 'trivia' else z3.Not(eos))
    # lexer fact (bounded/assumed, C14): a keyword token's value contains at least one word
    st.assume(z3.Implies(ex.contains(t, W.T.Keyword, st), W.nwords(v.z) >= 1))
    return t, v


def check_after_terminator(pc_, prop, kind):
    """process-loop body from a state with consume_ws set:
       trivia  -> no statement is yielded, the token joins the finished statement, nothing else changes;
       other   -> exactly one statement is yielded, it is built from the list collected so far, the splitter
                  continues with a fresh list, and the token is processed exactly as from the reset state."""
    name = '%s/process-body[after terminator, %s token]' % (prop, kind)
    ob = Obl(name, PROCESS, kind='smt', backend='z3')
    if pc_.stale():
        ob.status, ob.detail = STALE, {'reason': 'process or its loop not found'}
        return ob
    try:
        ex, st, me = pc_.start('AFTER_TERMINATOR')
        tok = _sym_token(pc_, ex, st, kind)
        if kind == 'other':
            # keyword values contain at least one word (lexer fact, see C14); needed for value.split()[0]
            st.env['__kw_has_word__'] = True
        entry = {n: pc_.field_z(st, me, n) for n in FIELDS}
        tokens0 = st.objs[me.oid]['tokens']
        ylds = []
        ex.on_yield_hook = lambda s_, v_: (s_.notes.append('yield'), ylds.append((list(s_.pc), v_, s_)))
        events = []
        finals = pc_.step(ex, [st], me, tok[0], tok[1], events)
        goals = []
        for kind_, what, s in events:
            goals.append(('no %s %s' % (kind_, what), list(s.pc), z3.BoolVal(False)))
        if kind == 'trivia':
            for y_pc, _v, _s in ylds:
                goals.append(('no statement yielded', y_pc, z3.BoolVal(False)))
            for s in finals:
                for n in FIELDS:
                    goals.append(('%s unchanged' % n, list(s.pc), pc_.field_z(s, me, n) == entry[n]))
                goals.append(('token joined the same list', list(s.pc),
                              z3.BoolVal(s.objs[me.oid]['tokens'].lid == tokens0.lid)))
        else:
            for s in finals:
                goals.append(('exactly one statement yielded', list(s.pc), z3.BoolVal(s.notes.count('yield') == 1)))
                goals.append(('the splitter continues with a different list object', list(s.pc),
                              z3.BoolVal(s.objs[me.oid]['tokens'].lid != tokens0.lid)))
                goals.append(('the yielded list is not written afterwards', list(s.pc),
                              z3.BoolVal(s.lists[tokens0.lid] == st0_items(ylds, tokens0))))
            for y_pc, v, s_y in ylds:
                ok = isinstance(v, Rec) and s_y.objs[v.oid].get('tokens') is not None and \
                    s_y.objs[v.oid]['tokens'].lid == tokens0.lid
                goals.append(('the yielded statement is built from the collected list', y_pc, z3.BoolVal(ok)))
            # second run: same token from the reset state; final states must agree
            ex2, st2, me2 = pc_.start('RESET', sfx='_second_run')
            st2.lists[st2.objs[me2.oid]['tokens'].lid] = ()
            for c in st.pc:
                pass
            ev2 = []
            finals2 = pc_.step(ex2, [st2], me2, tok[0], tok[1], ev2)
            base2 = len(st2.pc)
            for s in finals:
                for s2 in finals2:
                    both = list(s.pc) + list(s2.pc)
                    goals.append(('same flags, depth, level and boundary flag as from the reset state', both,
                                  z3.And(*[pc_.field_z(s, me, n) == pc_.field_z(s2, me2, n) for n in FIELDS])))
                    goals.append(('same number of collected tokens as from the reset state', both,
                                  z3.BoolVal(len(s.lists[s.objs[me.oid]['tokens'].lid]) ==
                                             len(s2.lists[s2.objs[me2.oid]['tokens'].lid]))))
        if not finals:
            goals.append(('some path reaches the end', [], z3.BoolVal(False)))
    except OutsideSubset as e:
        ob.status, ob.detail = UNDECIDED, {'reason': 'outside the verified subset: %s' % e}
        return ob
    except PyExc as e:
        ob.status, ob.detail = UNDECIDED, {'reason': 'exception %s %s' % (e.cls_name, e.msg)}
        return ob
    status, detail, secs = DISCHARGED, {'goals': len(goals)}, 0.0
    for label, pcx, f in goals:
        v, be, dt, m = smt.check(pcx, f)
        secs += dt
        if v == 'unsat':
            continue
        if v == 'sat':
            status = FAILED
            detail.update({'verdict': 'sat', 'goal': label, 'model': smt.model_to_dict(m)})
            break
        status = UNDECIDED
        detail.update({'verdict': 'unknown', 'goal': label, 'reason': str(m)[:200]})
    ob.status, ob.detail, ob.seconds = status, detail, secs
    return ob


def st0_items(ylds, tokens0):
    """items of the collected list at the moment it was handed over"""
    if not ylds:
        return None
    return ylds[0][2].lists[tokens0.lid]


def check_terminator(pc_, prop):
    """which tokens end a statement: from a state with consume_ws clear, after the loop body consume_ws is set iff
    (level <= 0 and the token is the punctuation ';') or the token is a keyword whose first word is GO"""
    name = '%s/process-body[terminator condition, non-keyword token]' % prop
    ob = Obl(name, PROCESS, kind='smt', backend='z3')
    if pc_.stale():
        ob.status, ob.detail = STALE, {'reason': 'process or its loop not found'}
        return ob
    try:
        ex, st, me = pc_.start('TOP')
        W = pc_.W
        t = STy(fresh('tok_t', W.TT))
        v = SStr(fresh('tok_v', z3.StringSort()))
        st.assume(t.z != W.tt_none)
        st.assume(z3.Not(ex.contains(t, W.T.Keyword, st)))
        events = []
        finals = pc_.step(ex, [st], me, t, v, events)
        goals = []
        for kind_, what, s in events:
            goals.append(('no %s %s' % (kind_, what), list(s.pc), z3.BoolVal(False)))
        for s in finals:
            lvl = pc_.field_z(s, me, 'level')
            is_semi = z3.And(t.z == W.tt(W.T.Punctuation), v.z == z3.StringVal(';'))
            goals.append(('boundary iff ; at level <= 0', list(s.pc),
                          pc_.field_z(s, me, 'consume_ws') == z3.And(is_semi, lvl <= 0)))
        if not finals:
            goals.append(('some path reaches the end', [], z3.BoolVal(False)))
    except OutsideSubset as e:
        ob.status, ob.detail = UNDECIDED, {'reason': 'outside the verified subset: %s' % e}
        return ob
    except PyExc as e:
        ob.status, ob.detail = UNDECIDED, {'reason': 'exception %s %s' % (e.cls_name, e.msg)}
        return ob
    status, detail, secs = DISCHARGED, {'goals': len(goals)}, 0.0
    for label, pcx, f in goals:
        vv, be, dt, m = smt.check(pcx, f)
        secs += dt
        if vv == 'unsat':
            continue
        if vv == 'sat':
            status = FAILED
            detail.update({'verdict': 'sat', 'goal': label, 'model': smt.model_to_dict(m)})
            break
        status = UNDECIDED
        detail.update({'verdict': 'unknown', 'goal': label, 'reason': str(m)[:200]})
    ob.status, ob.detail, ob.seconds = status, detail, secs
    return ob


# ------------------------------------------------------------------------------------------- lexical independence
# The induction treats every spelled terminal as ONE fixed token sequence (terminal_tokens: the real lexer on the
# spelling alone).  That is only right if the lexer cannot fuse a terminal with the token that follows it in a derivation.
# follow_sets() gives, for every terminal, the terminals that can follow it in a sentential form of the grammar.

def follow_sets():
    rules, _fam = build_grammar()
    rules = list(rules) + [(l, r) for l, r in parse_rules(TOPLEVEL)]
    nts = {l for l, _ in rules}
    first = {n: set() for n in nts}
    nullable = set()
    changed = True
    while changed:
        changed = False
        for l, r in rules:
            allnull = True
            for s in r:
                add = first[s] if s in nts else {s}
                if not add <= first[l]:
                    first[l] |= add
                    changed = True
                if not (s in nts and s in nullable):
                    allnull = False
                    break
            if allnull and l not in nullable:
                nullable.add(l)
                changed = True
    follow = {}
    changed = True
    nt_follow = {n: set() for n in nts}
    while changed:
        changed = False
        for l, r in rules:
            for i, s in enumerate(r):
                acc = set()
                rest_null = True
                for t in r[i + 1:]:
                    acc |= first[t] if t in nts else {t}
                    if not (t in nts and t in nullable):
                        rest_null = False
                        break
                if rest_null:
                    acc |= nt_follow[l]
                tgt = nt_follow[s] if s in nts else follow.setdefault(s, set())
                if not acc <= tgt:
                    tgt |= acc
                    changed = True
    # what follows the LAST terminal of a non-terminal: terminals at the end of a production inherit the lhs' follow set
    # (handled above through nt_follow); resolve terminals only
    return follow, first, nullable
