"""Native oracles (executable transcriptions of the property statements) and bounded case generators.
Split over three files; this module re-exports them for pyvc.bounded."""
try:
    from pyvc.oracles_a import *  # noqa: F401,F403  C01-C05, C09, C14, C17
except ImportError:
    pass
try:
    from pyvc.oracles_b import *  # noqa: F401,F403  C06, C07, C08, C10
except ImportError:
    pass
try:
    from pyvc.oracles_c import *  # noqa: F401,F403  C11, C12, C13, C15, C18, C19, C20
except ImportError:
    pass

# cases that start a child interpreter each: small chunks so that the pool actually runs them in parallel
CHUNK_C15 = 2
CHUNK_C19 = 20
CHUNK_C20 = 20

# class predicates of the open known findings (maintained by hand, see pyvc/findings.py) override the placeholders
from pyvc.findings import *  # noqa: F401,F403,E402
