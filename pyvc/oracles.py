"""Native oracles (executable transcriptions of the property statements) and bounded case generators.
Split over three files; this module re-exports them for pyvc.bounded."""
try:
    from pyvc.oracles_a import *  # noqa: F401,F403  C01-C05, C09, C14, C17
except ImportError:
    pass
try:
    from pyvc.oracles_b import *  # noqa: F401,F403  C06, C07, C08, C10
except ImportError:
    pass
try:
    from pyvc.oracles_c import *  # noqa: F401,F403  C11, C12, C13, C15, C18, C19, C20
except ImportError:
    pass

# cases that start a child interpreter each: small chunks so that the pool actually runs them in parallel
CHUNK_C15 = 2
CHUNK_C19 = 20
CHUNK_C20 = 20

# class predicates of the open known findings (maintained by hand, see pyvc/findings.py) override the placeholders
from pyvc.findings import *  # noqa: F401,F403,E402


# ---- additional case family for C06 (maintainer): line-separator-like characters that str.splitlines() honours but
# the SQL lexer / the serializer's own line splitting do not, placed inside quote-free opaque regions
_ODD_SEPS = ['\x0b', '\x0c', '\x1c', '\x1d', '\x1e', '\x85', ' ', ' ']
_base_cases_C06 = cases_C06  # noqa: F821


def cases_C06(tier, seed):  # noqa: F811
    for ch in _ODD_SEPS:
        for tmpl in ('select 1 -- c%sx\nfrom t', 'select 1 /* a%sb */ from t', 'select `na%sme` from t',
                     'select $$d%se$$ from t', 'select [br%sx] from t', 'select a%sfrom t'):
            text = tmpl % ch
            for opts in ((), (('reindent', True),), (('strip_whitespace', True),), (('use_space_around_operators', True),)):
                yield (text, opts)
    # quoted identifiers other than "..." that contain a line break (the serializer protects only '...' and "..."): the
    # class of the open finding C06:bounded:line-break-inside-bracket-or-backtick-name
    for ch in ('\n', '\r\n', ' \n', '\r'):
        for tmpl in ('select [br%sx] from t', 'select `na%sme` from t', 'select a, [x%sy] as c from [t%s1]'):
            text = tmpl.replace('%s', ch)
            for opts in ((), (('reindent', True),), (('strip_whitespace', True),)):
                yield (text, opts)
    # a comment-only statement behind the last terminator (class of C06:bounded:comment-only-statement-joined-to-previous)
    for tail in ('-- c\n ', '--+ h\n', '-- c\n-- d\n'):
        for opts in ((('strip_whitespace', True),), (('reindent', True),)):
            yield ('select 1;\n' + tail, opts)
    yield from _base_cases_C06(tier, seed)


# ---- additional case families (maintainer), added after independently seeded changes were missed by the first domains.
# They are families, not single inputs: each varies the surrounding construct.

from pyvc import oracles_c as _oc  # noqa: E402
from pyvc import oracles_a as _oa  # noqa: E402

# C12: quoted names whose content itself begins / ends with a doubled (escaped) quote
_oc._C12_NAMES += [('""hi""', ('"',)), ('say ""hi""', ('"',)), ('""x', ('"',)), ('``tbl``', ('`',)), ('t``', ('`',))]

# C12: references inside a subquery / CTE that is itself named with AS (the grouping passes reach them through an
# Identifier node), and aliases spelled exactly like the name they rename
_oc._C12_CONTEXTS.update({
    'subq_as': 'select * from (select {R} from t1 u) as d',
    'subq_as_from': 'select * from (select 1 from {R}) as d',
    'cte': 'with c as (select {R} from t) select * from c',
    'cte_from': 'with c as (select 1 from {R}) select 1',
})

_base_oracle_C12, _base_cases_C12 = oracle_C12, cases_C12  # noqa: F821


def cases_C12(tier, seed):  # noqa: F811
    # whitespace before / after the dot of a qualified name (aliased forms; the un-aliased `a .b` is a known oddity of
    # the alias heuristic and outside the property's "written as name or qualifier.name")
    for q, qq in (('s', ''), ('db', '"'), ('sch', '`')):
        for n, nq in (('col', ''), ('tbl', '"'), ('x1', '`')):
            for dot in (' .', '\n.', '\t .', ' . ', '. '):
                for alias in (' c', ' AS x', '\nas "Al"'):
                    for tmpl in ('select %s from t', 'select a, %s, b from t', 'select * from %s', 'select * from o join %s on 1 = 1'):
                        ref = qq + q + qq + dot + nq + n + nq + alias
                        yield ('wsdot', tmpl % ref, qq + q + qq + dot + nq + n + nq, q, n,
                               alias.split()[-1].strip('"'))
    for ctx in ('sel1', 'sel_mid:0', 'from1', 'join', 'update', 'subquery', 'subq_as', 'cte'):
        for name, quotes in _oc._C12_NAMES[:8]:
            for nq in quotes:
                for qual, qq in _oc._C12_QUALS:
                    for akind in ('as', 'bare'):
                        yield (ctx, qual, qq, name, nq, akind, name, nq, ' ')       # alias == name
    for ctx in ('subq_as', 'subq_as_from', 'cte', 'cte_from'):
        for name, quotes in _oc._C12_NAMES:
            for nq in quotes:
                for qual, qq in _oc._C12_QUALS:
                    for akind, alias, aq in _oc._C12_ALIASES:
                        yield (ctx, qual, qq, name, nq, akind, alias, aq, ' ')
    yield from _base_cases_C12(tier, seed)


def oracle_C12(case):  # noqa: F811
    if case and case[0] == 'wsdot':
        _k, text, ref, qual, name, alias = case
        try:
            import sqlparse
            from sqlparse import sql as S
            want = ''.join(ref.split())
            hits = []

            def walk(t):
                for c in t.tokens:
                    if isinstance(c, S.Identifier) and ''.join(str(c).split()).startswith(want):
                        hits.append(c)
                    if c.is_group:
                        walk(c)
            for st in sqlparse.parse(text):
                walk(st)
            if not hits:
                return {'what': 'no-identifier', 'input': text, 'observed': None, 'expected': ref}
            n = hits[0]
            obs = {'get_real_name': n.get_real_name(), 'get_parent_name': n.get_parent_name(), 'get_alias': n.get_alias(),
                   'get_name': n.get_name(), 'has_alias': n.has_alias()}
            exp = {'get_real_name': name, 'get_parent_name': qual, 'get_alias': alias, 'get_name': alias, 'has_alias': True}
            bad = [k for k in exp if obs[k] != exp[k]]
            if bad:
                return {'what': 'accessor:' + bad[0], 'input': text, 'observed': {k: obs[k] for k in bad},
                        'expected': {k: exp[k] for k in bad}}
            return None
        except Exception as e:
            return {'what': 'exception:' + type(e).__name__, 'input': text, 'observed': str(e)[:100], 'expected': 'accessors'}
    return _base_oracle_C12(case)


# C09: openers two or more group levels below the level being scanned
_base_cases_C09 = cases_C09  # noqa: F821


def cases_C09(tier, seed):  # noqa: F811
    inner = ['case when a then b end', 'case when a then 1 else 2 end', 'if a then b END IF', 'begin x end',
             'for x in y loop z end loop', '[ 1 ]', 'case when a then case when b then c end end']
    wraps = ['( ( %s ) )', 'f ( ( %s ) , 0 )', '( [ ( %s ) ] )', 'coalesce ( ( %s ) , 0 )', '( ( ( %s ) ) )',
             'case when ( ( %s ) ) then 1 end', 'begin ( ( %s ) ) end', '( a , ( b , ( %s ) ) )', 'x [ ( ( %s ) ) ]']
    for w in wraps:
        for i in inner:
            yield w % i
            yield 'select ' + (w % i) + ' from t'
    yield from _base_cases_C09(tier, seed)


# C04 / C05: a statement that ends at a non-zero nesting level (unmatched parenthesis before ; or GO) followed by others
_base_cases_C04 = cases_C04  # noqa: F821


def cases_C04(tier, seed):  # noqa: F811
    firsts = ['select (1', 'select 1)', 'select f((a)', 'insert into t values (1, (2', 'select a] ', 'select ((1)']
    terms = ['\nGO\n', ' GO\n', ';\n', '; ']
    rests = ['select 2;\nselect 3;', 'select 2; select 3', 'insert into t3 (a, b) values (1, 2);\nselect 4;',
             'select (2);\nselect (3);']
    for f in firsts:
        for t in terms:
            for r in rests:
                yield f + t + r
    yield from _base_cases_C04(tier, seed)


# C13: two WHERE clauses on one level; constructs behind a long run of grouped siblings
_base_cases_C13, _base_oracle_C13 = cases_C13, oracle_C13  # noqa: F821


def cases_C13(tier, seed):  # noqa: F811
    for op in ('union', 'union all', 'except'):
        for w1 in ('x = 1', 'x = 1 and y = 2', 'x = 1 and y = 2 and z between 3 and 4 or w like \'a\''):
            for w2 in ('z = 3', 'q < 2 and r > 1'):
                for wrap in ('%s', 'select * from ( %s ) s', 'insert into t %s'):
                    yield ('two-where', wrap % ('select a from t where %s %s select b from u where %s' % (w1, op, w2)),
                           ('where ' + w1, 'where ' + w2))
    for n in (20, 99, 120):
        cols = ', '.join('c%d' % i for i in range(n))
        yield ('long', 'select %s from t where a = 1 and b < 2' % cols, ('Comparison', 2))
        yield ('long', 'select %s, f(p, q) from t where d > DATE \'2020-01-01\'' % cols, ('Comparison', 1))
    # list items that the lexer types as keywords (column names such as type / owner / year, TRUE, CURRENT_DATE ...)
    for kwitem in (('type',), ('owner',), ('year',), ('level',), ('TRUE',), ('false',), ('CURRENT_DATE',), ('user',),
                   ('data',), ('role',), ('NULL',)):
        for pos in (0, 1, 2):
            items = [('a',), ('b', 'AS', 'x'), ('c',)]
            items[pos] = kwitem
            for prefix, rest in ((('SELECT',), ('FROM', 't')), (('SELECT', '*', 'FROM', '(', 'SELECT'), ('FROM', 't', ')', 's'))):
                yield ('idlist', prefix, tuple(items), rest, ' ')
    yield from _base_cases_C13(tier, seed)


def oracle_C13(case):  # noqa: F811
    if case and case[0] in ('two-where', 'long'):
        try:
            import sqlparse
            from sqlparse import sql as S
            text = case[1]
            nodes = []

            def walk(t):
                for c in t.tokens:
                    nodes.append(c)
                    if c.is_group:
                        walk(c)
            for st in sqlparse.parse(text):
                walk(st)
            if case[0] == 'two-where':
                got = [' '.join(str(n).split()) for n in nodes if isinstance(n, S.Where)]
                want = [' '.join(w.split()) for w in case[2]]
                if got != want:
                    return {'what': 'where-extent', 'input': text, 'observed': got, 'expected': want}
                return None
            cls, cnt = case[2]
            got = sum(1 for n in nodes if type(n).__name__ == cls)
            if got != cnt:
                return {'what': 'comparison-missing', 'input': text[:60] + '...' + text[-50:], 'observed': got, 'expected': cnt}
            return None
        except Exception as e:
            return {'what': 'exception:' + type(e).__name__, 'input': case[1][:100], 'observed': str(e)[:100], 'expected': 'tree'}
    return _base_oracle_C13(case)


# C05: (a) a semicolon inside parentheses of a statement that FOLLOWS a statement ending at a non-zero nesting level
#      (b) quote-delimited regions whose body contains the lexer's backslash-escaped quote followed by a semicolon
_base_cases_C05, _base_oracle_C05 = cases_C05, oracle_C05  # noqa: F821


def cases_C05(tier, seed):  # noqa: F811
    firsts = ['select 1)', 'select a ) )', 'select f(1))', 'select 1 ]', 'select (1))']
    seconds = ['insert into t3 (a, b) values (1; 2)', 'select (1; 2) from t', 'select f(a; b), (c) from t',
               'update t set a = (1; 2) where b in (3; 4)']
    for f in firsts:
        for sep in ('; ', ';\n', ' ;\n-- c\n'):
            for s2 in seconds:
                yield ('count', f + sep + s2, 2)
                yield ('count', f + sep + s2 + '; select 3', 3)
    for q, esc in (('"', '\\"'), ("'", "\\'")):
        for body in ('esc %s; q', '%s;', 'a%s;b%s;c', ';%s'):
            b = body.replace('%s', esc)
            for tmpl in ('select %s from t1; select 2 from t2', 'select 1; select %s; select 3',
                         'insert into t values (%s); select 2'):
                yield ('count', tmpl % (q + b + q), tmpl.count(';') + 1)
    # DDL statements with IF [NOT] EXISTS in front of further statements (the word IF outside any routine body)
    for ddl in ('create table if not exists t (a int)', 'CREATE INDEX IF NOT EXISTS ix1 ON t (a)', 'drop table if exists t',
                'create view if not exists v as select 1', 'CREATE SCHEMA IF NOT EXISTS s'):
        for sep in ('; ', ';\n'):
            yield ('count', ddl + sep + 'insert into t values (1)' + sep + 'select a from t', 3)
            yield ('count', 'select 0' + sep + ddl + sep + 'select (1; 2) from t;', 3)
    yield from _base_cases_C05(tier, seed)


def oracle_C05(case):  # noqa: F811
    if case and case[0] == 'count':
        _k, script, want = case
        try:
            import sqlparse
            got = sqlparse.split(script)
            got2 = sqlparse.parse(script)
        except Exception as e:
            return {'what': 'exception:' + type(e).__name__, 'input': script, 'observed': str(e)[:100], 'expected': want}
        if len(got) != want or len(got2) != want:
            return {'what': 'statement-count', 'input': script, 'observed': got, 'expected': want}
        return None
    return _base_oracle_C05(case)


# C17: statements that FOLLOW a procedure and would be mis-split if a block-tracking flag survived the boundary
_base_cases_C17, _base_oracle_C17 = cases_C17, oracle_C17  # noqa: F821


def cases_C17(tier, seed):  # noqa: F811
    procs = ['create procedure p() begin update t set a = 1; end', 'create or replace function f() returns int begin return 1; end',
             'CREATE FUNCTION g ( ) BEGIN IF a = 1 THEN x := 1; END IF; END']
    tails = [['begin', 'select 1', 'end', 'select 2'], ['BEGIN TRANSACTION', 'update t set a = 2', 'COMMIT'],
             ['declare c cursor for select 1', 'select 2'], ['select case when a then b end from t', 'select 3'],
             ['begin', 'if x then y', 'select 4']]
    for p_ in procs:
        for t in tails:
            for sep in (';\n', '; '):
                yield ('count17', p_ + sep + sep.join(t) + ';', 1 + len(t), p_)
    # statements inside a body that contain the word IF without being an IF block: DDL with IF [NOT] EXISTS, the IF()
    # function; followed by further statements in the body and behind the routine
    inner = ['drop table if exists t', 'DROP VIEW IF EXISTS v', 'create table if not exists t (a int)',
             'CREATE INDEX IF NOT EXISTS ix1 ON t (a)', 'set x = if(a > b, 1, 2)', 'select IF(a, b, c) into y from t',
             'update t set a = if(b = 1, 2, 3) where c = 4']
    hdrs = ['create procedure p()', 'CREATE OR REPLACE FUNCTION f() RETURNS int', 'create trigger tr']
    for h in hdrs:
        for st_ in inner:
            for before, after in ((), ()), (('select 1',), ('select 2',)), (('if c then y := 1; end if',), ('return 3',)):
                body = list(before) + [st_] + list(after)
                for sep in ('; ', ';\n'):
                    proc = h + ' begin ' + sep.join(body) + sep.rstrip() + ' end'
                    yield ('count17', proc + sep + 'select 8' + sep + 'select 9;', 3, proc)
    yield from _base_cases_C17(tier, seed)


def oracle_C17(case):  # noqa: F811
    if case and case[0] == 'count17':
        _k, script, want, proc = case
        try:
            import sqlparse
            got = sqlparse.split(script)
        except Exception as e:
            return {'what': 'exception:' + type(e).__name__, 'input': script, 'observed': str(e)[:100], 'expected': want}
        if len(got) != want or got[0].rstrip(';').strip() != proc:
            return {'what': 'following-statements-mis-split', 'input': script, 'observed': got, 'expected': want}
        return None
    return _base_oracle_C17(case)


# ---- quantifier of C06 / C08 / C10: "every script of the verification grammar".  The domains also contain token soups
# (robustness).  A soup whose own tokenisation depends on a blank being absent (`like:p`) is outside that quantifier for the
# "no two tokens fused or split" clause: any filter that inserts whitespace legitimately changes how it lexes.
def _outside_quantifier(case, failure):
    from pyvc.findings import separator_stable
    what = str((failure or {}).get('what', ''))
    if 'fused-or-split' in what or what.endswith(':changed') or what == 'changed' or 'not-idempotent' in what:
        try:
            return not separator_stable(case[0])
        except Exception:       # noqa
            return False
    return False


def _quantified(orc):
    def wrapped(case):
        r = orc(case)
        if r is not None and _outside_quantifier(case, r):
            return None
        return r
    wrapped.__name__ = orc.__name__
    return wrapped


oracle_C06 = _quantified(oracle_C06)  # noqa: F821
oracle_C08 = _quantified(oracle_C08)  # noqa: F821
oracle_C10 = _quantified(oracle_C10)  # noqa: F821


# ---- C11 speaks about whitespace "between tokens INSIDE a statement".  The whitespace that follows a statement terminator
# lies between statements: whether a trailing comment still belongs to the statement it follows is decided by the line
# break after the terminator, by design.  The replacement spacing therefore keeps the original whitespace there.
_base_oracle_C11 = oracle_C11  # noqa: F821


def oracle_C11(case):  # noqa: F811
    try:
        lexemes, seps_a, seps_b, casing = case
        words = _oc._c11_words(lexemes)
        if len(seps_a) == len(seps_b) == len(words) - 1:
            keep, tail = [], False
            for i, w in enumerate(words[:-1]):
                # the trivia between a terminator and the next statement: the ';' itself and the comments that follow it
                if w == ';':
                    tail = True
                elif not (tail and (w.startswith('--') or w.startswith('/*') or w.startswith('#'))):
                    tail = False
                keep.append(tail)
            seps_b = tuple(sa if k else sb for k, sa, sb in zip(keep, seps_a, seps_b))
            case = (lexemes, seps_a, seps_b, casing)
    except Exception:       # noqa
        pass
    return _base_oracle_C11(case)


_base_cases_C08 = cases_C08  # noqa: F821


def cases_C08(tier, seed):  # noqa: F811
    # class of the open finding C08:bounded:line-break-inside-bracket-or-backtick-name
    for ch in ('\n', '\r\n', ' \n'):
        for tmpl in ('select [br%sx] from t -- c', 'select `na%sme` /* c */ from t'):
            for opts in ((('strip_comments', True),), (('keyword_case', 'upper'),), (('truncate_strings', 3),)):
                yield (tmpl.replace('%s', ch), opts)
    yield from _base_cases_C08(tier, seed)


# ---- C10: an operator or comparison directly followed (or followed after one blank) by another operator
_base_cases_C10 = cases_C10  # noqa: F821


def cases_C10(tier, seed):  # noqa: F811
    for expr in ('a=-b', 'x<>-y', 'z>=+k', 'a - -b', 'a+-b*-c', 'a = -b', 'p||-q', 'a/-1', 'a<-1 and b>+2'):
        for tmpl in ('select %s from t', 'select 1 from t where %s', 'select f(%s), (%s) from t', 'update t set a = 1 where %s'):
            for opts in ((('use_space_around_operators', True),),
                         (('use_space_around_operators', True), ('strip_whitespace', True)),
                         (('use_space_around_operators', True), ('reindent', True))):
                yield (tmpl.replace('%s', expr), opts)
    yield from _base_cases_C10(tier, seed)
