"""Class predicates of the OPEN known findings for the bounded stand-ins (DESIGN 6).

classify_Cxx(case, failure) -> key of an entry of /verif/known_findings.json, or None.
A predicate looks at the INPUT (case) to decide the class and at failure['what'] only to name the failing clause, so
a different wrong result on the same input class (another clause of the property) is still reported as a violation.
Predicates never look at observed outputs.  The canonical witness of every entry is re-run on every check
(props.common.check_witnesses): if it stops failing, the entry is stale and that is reported.
"""
import re


def _toks(text):
    from sqlparse import lexer
    try:
        return list(lexer.tokenize(text))
    except Exception:
        return []


def _T():
    from sqlparse import tokens
    return tokens


def has_comment(text):
    T = _T()
    return any(t in T.Comment for t, _ in _toks(text))


def has_hint(text):
    T = _T()
    return any(t in (T.Comment.Single.Hint, T.Comment.Multiline.Hint) for t, _ in _toks(text))


def comment_with_eol_blanks(text):
    """a comment whose text contains a CR, or blanks/tabs directly before a line end or at its end"""
    T = _T()
    for t, v in _toks(text):
        if t in T.Comment:
            body = v.rstrip('\r\n') if t in T.Comment.Single else v
            if '\r' in v or re.search(r'[ \t\f\v]+(\r|\n|$)', body) or re.search(r'[ \t\f\v]+$', v.rstrip('\r\n')):
                return True
    return False


def go_inline(text):
    """a GO terminator keyword that is followed by further tokens (the formatter right-strips each statement and
    joins the statements without a separator, so GO is glued to whatever follows)"""
    T = _T()
    toks = _toks(text)
    for i, (t, v) in enumerate(toks):
        if t is T.Keyword and v.split() and v.split()[0].upper() == 'GO':
            if any(tt not in T.Whitespace for tt, _ in toks[i + 1:]):
                return True
    return False


def two_assignments(text):
    T = _T()
    return sum(1 for t, v in _toks(text) if t is T.Assignment) >= 2


def literal_with_doubled_quote(text):
    T = _T()
    return any(t is T.String.Single and "''" in v[1:-1] or t is T.String.Single and v[:2] == "''" and len(v) > 2
               for t, v in _toks(text))


def comment_between_non_blanks(text):
    """a comment glued to a non-whitespace token on at least one side"""
    T = _T()
    toks = _toks(text)
    for i, (t, v) in enumerate(toks):
        if t in T.Comment:
            p = toks[i - 1] if i else None
            n = toks[i + 1] if i + 1 < len(toks) else None
            if (p and p[0] not in T.Whitespace) or (n and n[0] not in T.Whitespace):
                return True
    return False


def keyword_glued_to_paren_or_dot(text):
    """a dictionary keyword lexed as a Name because '(' or [blanks] '.' follows it directly"""
    from sqlparse import lexer
    T = _T()
    lx = lexer.Lexer.get_default_instance()
    toks = _toks(text)
    for i, (t, v) in enumerate(toks):
        if t is T.Name and lx.is_keyword(v)[0] in T.Keyword:
            return True
    return False


def comment_after_terminator(text):
    """a comment that directly follows a statement terminator (; or GO), possibly after blanks"""
    T = _T()
    toks = _toks(text)
    for i, (t, v) in enumerate(toks):
        if (t is T.Punctuation and v == ';') or (t is T.Keyword and v.split()[:1] and v.split()[0].upper() == 'GO'):
            j = i + 1
            while j < len(toks) and toks[j][0] in T.Whitespace:
                j += 1
            if j < len(toks) and toks[j][0] in T.Comment:
                return True
    return False


def _opts(case):
    return dict(case[1]) if len(case) > 1 and isinstance(case[1], tuple) else {}


# ----------------------------------------------------------------------------------------------- per property

def classify_C05(case, failure):
    what = failure.get('what')
    if case and case[0] == 'region' and str(case[1]).startswith('slc') and str(case[3]).startswith('+') \
            and what == 'region-body-changes-extent':
        return 'C05:bounded:hint-comment-after-terminator'
    return None


def classify_C06(case, failure):
    what = failure.get('what', '')
    text = case[0]
    if what.startswith('comment-altered:line-ends-or-trailing-blanks') and comment_with_eol_blanks(text):
        return 'C06:bounded:comment-line-ends-and-trailing-blanks-normalised'
    if what in ('fused-or-split', 'changed', 'statement-count', 'dropped', 'added') and go_inline(text):
        return 'C06:bounded:GO-terminator-followed-by-more-tokens'
    if what in ('fused-or-split', 'changed') and two_assignments(text):
        return 'C06:bounded:two-assignments-in-one-statement'
    return None


def classify_C08(case, failure):
    what = failure.get('what', '')
    text, opts = case[0], _opts(case)
    if what.startswith('truncate_strings:') and literal_with_doubled_quote(text):
        return 'C08:bounded:truncation-of-literal-with-doubled-quote'
    if go_inline(text) and (':fused-or-split' in what or ':changed' in what or 'not-idempotent' in what):
        return 'C08:bounded:GO-terminator-followed-by-more-tokens'
    if what == 'strip_comments:hint-removed' and has_hint(text):
        return 'C08:bounded:hint-grouped-with-preceding-comment'
    if what.startswith('strip_comments:fused-or-split') and comment_between_non_blanks(text):
        return 'C08:bounded:comment-glued-to-tokens-at-a-group-edge'
    if what.startswith('strip_comments:not-idempotent') and (comment_after_terminator(text)
                                                              or comment_between_non_blanks(text)):
        return 'C08:bounded:strip-comments-second-pass-whitespace'
    if 'not-idempotent' in what and what.split(':')[0] in ('keyword_case', 'identifier_case') \
            and keyword_glued_to_paren_or_dot(text):
        return 'C08:bounded:keyword-glued-to-parenthesis-relexed'
    return None


def classify_C10(case, failure):
    what = failure.get('what', '')
    if what == 'strip_whitespace:not-a-fixed-point' and has_comment(case[0]):
        return 'C10:bounded:strip-whitespace-around-comments-needs-two-passes'
    return None


def classify_C11(case, failure):
    what = failure.get('what', '')
    T = _T()
    lex = case[0]
    if what == 'tree-shape':
        for a, b in zip(lex, lex[1:]):
            if (a.startswith('/*') or a.startswith('--')) and (b.startswith('/*') or b.startswith('--')):
                return 'C11:bounded:line-break-vs-blank-between-two-comments'
    return None


def _flat(x):
    if isinstance(x, (tuple, list)):
        for y in x:
            yield from _flat(y)
    else:
        yield x


def classify_C13(case, failure):
    what = failure.get('what', '')
    kind = case[0]
    words = [str(w).upper() for w in _flat(case[1:])]
    if what == 'function-parameters' and kind == 'func':
        return 'C13:bounded:get_parameters-single-non-identifier-argument'
    if what == 'idlist-missing' and kind in ('idlist', 'func'):
        return 'C13:bounded:list-item-parenthesis-typed-literal-or-case-breaks-the-list'
    if what == 'comparison-missing' and kind == 'cmp' and ('CASE' in words or '(' in words):
        return 'C13:bounded:comparison-with-case-or-parenthesised-operand'
    return None


def classify_C17(case, failure):
    if 'case_stmt' in case[0] and failure.get('what') == 'following-statement-swallowed':
        return 'C17:production:casestmt@BODY'
    return None


def classify_C18(case, failure):
    cont = case[3]
    if failure.get('what') == 'unknown-for-keyword' and re.match(r'\s*[.(]', cont):
        return 'C18:bounded:keyword-followed-by-parenthesis-or-dot'
    return None


__all__ = [n for n in dir() if n.startswith('classify_')]
