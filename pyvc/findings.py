"""Class predicates of the OPEN known findings for the bounded stand-ins (DESIGN 6).

classify_Cxx(case, failure) -> key of an entry of /verif/known_findings.json, or None.
A predicate looks at the INPUT (case) to decide the class and at failure['what'] only to name the failing clause, so
a different wrong result on the same input class (another clause of the property) is still reported as a violation.
Predicates never look at observed outputs.  An entry that no failing case of a run falls into is reported by that run
as "not reproduced" (NOTE line and coverage.known_findings_not_reproduced_in_this_run): stale, or outside the tier's domain.
"""
import re


def _toks(text):
    from sqlparse import lexer
    try:
        return list(lexer.tokenize(text))
    except Exception:
        return []


def _T():
    from sqlparse import tokens
    return tokens


def has_comment(text):
    T = _T()
    return any(t in T.Comment for t, _ in _toks(text))


def has_hint(text):
    T = _T()
    return any(t in (T.Comment.Single.Hint, T.Comment.Multiline.Hint) for t, _ in _toks(text))


def comment_with_eol_blanks(text):
    """a comment whose text contains a CR, or blanks/tabs directly before a line end or at its end"""
    T = _T()
    for t, v in _toks(text):
        if t in T.Comment:
            body = v.rstrip('\r\n') if t in T.Comment.Single else v
            if '\r' in v or re.search(r'[ \t\f\v]+(\r|\n|$)', body) or re.search(r'[ \t\f\v]+$', v.rstrip('\r\n')):
                return True
    return False


def go_inline(text):
    """a GO terminator keyword that is followed by further tokens (the formatter right-strips each statement and
    joins the statements without a separator, so GO is glued to whatever follows)"""
    T = _T()
    toks = _toks(text)
    for i, (t, v) in enumerate(toks):
        if t is T.Keyword and v.split() and v.split()[0].upper() == 'GO':
            if any(tt not in T.Whitespace for tt, _ in toks[i + 1:]):
                return True
    return False


def two_assignments(text):
    T = _T()
    return sum(1 for t, v in _toks(text) if t is T.Assignment) >= 2


def literal_with_doubled_quote(text):
    T = _T()
    return any(t is T.String.Single and "''" in v[1:-1] or t is T.String.Single and v[:2] == "''" and len(v) > 2
               for t, v in _toks(text))


def comment_between_non_blanks(text):
    """a comment glued to a non-whitespace token on at least one side"""
    T = _T()
    toks = _toks(text)
    for i, (t, v) in enumerate(toks):
        if t in T.Comment:
            p = toks[i - 1] if i else None
            n = toks[i + 1] if i + 1 < len(toks) else None
            if (p and p[0] not in T.Whitespace) or (n and n[0] not in T.Whitespace):
                return True
    return False


def keyword_glued_to_paren_or_dot(text):
    """a dictionary keyword lexed as a Name because '(' or [blanks] '.' follows it directly"""
    from sqlparse import lexer
    T = _T()
    lx = lexer.Lexer.get_default_instance()
    toks = _toks(text)
    for i, (t, v) in enumerate(toks):
        if t is T.Name and lx.is_keyword(v)[0] in T.Keyword:
            return True
    return False


def comment_after_terminator(text):
    """a comment that directly follows a statement terminator (; or GO), possibly after blanks"""
    T = _T()
    toks = _toks(text)
    for i, (t, v) in enumerate(toks):
        if (t is T.Punctuation and v == ';') or (t is T.Keyword and v.split()[:1] and v.split()[0].upper() == 'GO'):
            j = i + 1
            while j < len(toks) and toks[j][0] in T.Whitespace:
                j += 1
            if j < len(toks) and toks[j][0] in T.Comment:
                return True
    return False


def name_with_line_break(text):
    """a bracket- or backtick-quoted identifier (one Name / Symbol token) that contains a line break: the serializer
    protects only '...' and "..." regions when it normalises line ends and right-strips lines"""
    T = _T()
    return any((t in T.Name or t in T.String.Symbol) and ('\n' in v or '\r' in v) for t, v in _toks(text))


def only_comments_and_blanks(text):
    T = _T()
    toks = _toks(text)
    return bool(toks) and all(t in T.Comment or t in T.Whitespace for t, _ in toks) and any(t in T.Comment for t, _ in toks)


def comment_only_statement(text):
    """the script has a statement that consists of comments and blanks only (e.g. a comment on its own line behind the last
    terminator): the formatter joins the statements without a separator, the comment then follows the terminator on the same
    line and counts as a trailing comment of the previous statement"""
    import sqlparse
    try:
        pieces = [str(s_) for s_ in sqlparse.parse(text)]
    except Exception:       # noqa
        return False
    return len(pieces) >= 2 and any(only_comments_and_blanks(p_) for p_ in pieces[1:])


def separator_stable(text):
    """inserting one blank between two adjacent tokens of the input never changes how the input is lexed.  Scripts of
    the verification grammar are separator-stable (tokens are separated, or are punctuation that lexes alone); token
    soups such as `like:p` (-> like, :, p but `like :p` -> like, :p) are not, and for them a layout filter that adds
    whitespace legitimately changes the token sequence."""
    T = _T()
    toks = _toks(text)
    vals = [v for _, v in toks]
    sig = [v for t, v in toks if t not in T.Whitespace]
    for i in range(len(toks) - 1):
        if toks[i][0] in T.Whitespace or toks[i + 1][0] in T.Whitespace:
            continue
        t2 = ''.join(vals[:i + 1]) + ' ' + ''.join(vals[i + 1:])
        if [v for t, v in _toks(t2) if t not in T.Whitespace] != sig:
            return False
    return True


def _opts(case):
    return dict(case[1]) if len(case) > 1 and isinstance(case[1], tuple) else {}


# ----------------------------------------------------------------------------------------------- per property

def classify_C05(case, failure):
    what = failure.get('what')
    if case and case[0] == 'region' and str(case[1]).startswith('slc') and str(case[3]).startswith('+') \
            and what == 'region-body-changes-extent':
        return 'C05:bounded:hint-comment-after-terminator'
    return None


def classify_C06(case, failure):
    what = failure.get('what', '')
    text = case[0]
    if what.startswith('comment-altered:line-ends-or-trailing-blanks') and comment_with_eol_blanks(text):
        return 'C06:bounded:comment-line-ends-and-trailing-blanks-normalised'
    if what in ('fused-or-split', 'changed', 'statement-count', 'dropped', 'added') and go_inline(text):
        return 'C06:bounded:GO-terminator-followed-by-more-tokens'
    if what in ('fused-or-split', 'changed') and two_assignments(text):
        return 'C06:bounded:two-assignments-in-one-statement'
    if what == 'statement-count' and comment_only_statement(text):
        return 'C06:bounded:comment-only-statement-joined-to-previous'
    if what in ('fused-or-split', 'changed', 'name-altered') and name_with_line_break(text):
        return 'C06:bounded:line-break-inside-bracket-or-backtick-name'
    return None


def classify_C08(case, failure):
    what = failure.get('what', '')
    text, opts = case[0], _opts(case)
    if what.startswith('truncate_strings:') and literal_with_doubled_quote(text):
        return 'C08:bounded:truncation-of-literal-with-doubled-quote'
    if go_inline(text) and (':fused-or-split' in what or ':changed' in what or 'not-idempotent' in what):
        return 'C08:bounded:GO-terminator-followed-by-more-tokens'
    if what == 'strip_comments:hint-removed' and has_hint(text):
        return 'C08:bounded:hint-grouped-with-preceding-comment'
    if what.startswith('strip_comments:fused-or-split') and comment_between_non_blanks(text):
        return 'C08:bounded:comment-glued-to-tokens-at-a-group-edge'
    if what.endswith(':name-altered') and name_with_line_break(text):
        return 'C08:bounded:line-break-inside-bracket-or-backtick-name'
    if what.startswith('strip_comments:not-idempotent') and (comment_after_terminator(text)
                                                              or comment_between_non_blanks(text)
                                                              or only_comments_and_blanks(text)):
        return 'C08:bounded:strip-comments-second-pass-whitespace'
    if 'not-idempotent' in what and what.split(':')[0] in ('keyword_case', 'identifier_case') \
            and keyword_glued_to_paren_or_dot(text):
        return 'C08:bounded:keyword-glued-to-parenthesis-relexed'
    return None


def classify_C10(case, failure):
    what = failure.get('what', '')
    if what == 'strip_whitespace:not-a-fixed-point' and has_comment(case[0]):
        return 'C10:bounded:strip-whitespace-around-comments-needs-two-passes'
    return None


def classify_C11(case, failure):
    what = failure.get('what', '')
    T = _T()
    lex = case[0]
    if what == 'tree-shape':
        for a, b in zip(lex, lex[1:]):
            if (a.startswith('/*') or a.startswith('--')) and (b.startswith('/*') or b.startswith('--')):
                return 'C11:bounded:line-break-vs-blank-between-two-comments'
    return None


def _flat(x):
    if isinstance(x, (tuple, list)):
        for y in x:
            yield from _flat(y)
    else:
        yield x


_C13_OPS = ('+', '-', '*', '/', '||', '%')
_C13_CMP = ('=', '<>', '!=', '<', '>', '<=', '>=', 'LIKE', 'NOT LIKE', 'ILIKE')
_C13_TL = ('DATE', 'INTERVAL', 'TIMESTAMP')
_C13_LISTBREAK = {'paren'}


_C13_UNITS = ('DAY', 'HOUR', 'MINUTE', 'MONTH', 'SECOND', 'YEAR')


def _c13_item_class(it):
    """input class of one written list item / argument (lexeme tuple) for the open C13 findings"""
    up = [str(x).upper() for x in it]
    aliased_as = len(up) >= 3 and up[-2] == 'AS'
    if up[0] == '(' and not aliased_as and up[-1] == ')':
        return 'paren'                      # un-aliased parenthesised expression or subquery
    if any(o in up for o in _C13_OPS):
        for i, w in enumerate(up):
            if w == '(' and (i == 0 or up[i - 1] in _C13_OPS + (',', '(')):
                return 'paren-operand'      # an operation with a parenthesised operand (never fails on its own)
    if 'CASE' in up and any(o in up for o in _C13_OPS):
        return 'case-operand'               # (repaired; never fails on its own)
    # a literal followed by an alias without AS:  'text' alias   /   DATE '2020-01-01' alias
    if len(up) >= 2 and not aliased_as and up[-1] not in _C13_OPS and up[-1] not in (')', ',') \
            and not up[-1].startswith("'") and up[-1] not in _C13_UNITS:
        body = up[:-1]
        if body[-1] in _C13_UNITS:
            body = body[:-1]
        if body and body[-1].startswith("'") and (len(body) == 1 or (len(body) == 2 and body[0] in _C13_TL)):
            return 'literal-bare-alias'
    return None


def _c13_single_non_identifier(arg):
    up = [str(x).upper() for x in arg]
    return (any(o in up for o in _C13_OPS + _C13_CMP) or 'CASE' in up or up[0] == '(' or up in (['NULL'], ['*']))


def classify_C13(case, failure):
    what = failure.get('what', '')
    kind = case[0]
    words = [str(w).upper() for w in _flat(case[1:])]
    if kind in ('idlist', 'func'):
        items = case[2] if kind == 'idlist' else case[3]
        classes = {_c13_item_class(a) for a in items} - {None}
        if what == 'function-parameters' and kind == 'func':
            # (an argument that is an operation with a CASE / parenthesised operand is not ONE Operation node, so the
            # argument list - even of a single argument - comes back in pieces: same class as the list finding)
            if classes & _C13_LISTBREAK:
                return 'C13:bounded:list-item-parenthesis-typed-literal-or-case-breaks-the-list'
            if len(items) == 1 and _c13_single_non_identifier(items[0]):
                return 'C13:bounded:get_parameters-single-non-identifier-argument'
            return None
        if what == 'idlist-missing':
            if classes & _C13_LISTBREAK:
                return 'C13:bounded:list-item-parenthesis-typed-literal-or-case-breaks-the-list'
            if 'literal-bare-alias' in classes:
                return 'C13:bounded:string-literal-with-bare-alias-splits-the-list'
            return None
    if what == 'comparison-missing' and kind == 'cmp' and ('CASE' in words or '(' in words):
        return 'C13:bounded:comparison-with-case-or-parenthesised-operand'
    return None


def classify_C17(case, failure):
    # (no open C17 finding: the last one - a BEGIN..END block nested in a branch of a CASE statement, production
    # block@BODYC - was repaired by fix c5a8928)
    return None


def classify_C18(case, failure):
    cont = case[3]
    if failure.get('what') == 'unknown-for-keyword' and re.match(r'\s*[.(]', cont):
        return 'C18:bounded:keyword-followed-by-parenthesis-or-dot'
    return None


__all__ = [n for n in dir() if n.startswith('classify_')]
