"""pyvc core: obligations, results, source access, evidence, known findings, verdicts.

Exit codes of a check: 0 held (known findings printed), 1 VIOLATION, 2 undecided, 3 checker fault.
"""
import ast
import hashlib
import json
import os
import sys
import time
import traceback

VERIF = os.path.dirname(os.path.dirname(os.path.abspath(__file__)))
REPO = os.environ.get('VERIF_REPO', '/repo')
PKG = os.path.join(REPO, 'sqlparse')

DISCHARGED, FAILED, UNDECIDED, STALE = 'discharged', 'failed', 'undecided', 'stale'


class Obl:
    """One proof obligation (or one bounded stand-in case set) and its verdict."""
    __slots__ = ('id', 'fn', 'kind', 'backend', 'status', 'detail', 'seconds', 'finding_key',
                 'witness')

    def __init__(self, id, fn='', kind='smt', backend='z3', status=UNDECIDED, detail=None,
                 seconds=0.0, finding_key=None, witness=None):
        self.id = id
        self.fn = fn                # qualified name of the real function (or data object) under contract
        self.kind = kind            # 'smt' | 'structural' | 'bounded'
        self.backend = backend      # 'z3' | 'cvc5' | 'structural' | 'enumeration' | 'crosshair'
        self.status = status
        self.detail = detail or {}
        self.seconds = seconds
        self.finding_key = finding_key  # key used to match entries of known_findings.json
        self.witness = witness      # concrete failing input for replay (dict), if any

    def as_json(self):
        return {'id': self.id, 'fn': self.fn, 'kind': self.kind, 'backend': self.backend,
                'status': self.status, 'seconds': round(self.seconds, 4), 'detail': _short(self.detail)}


def _short(x, n=600):
    try:
        s = json.dumps(x, default=str)
    except Exception:
        s = repr(x)
    if len(s) <= n:
        try:
            return json.loads(s)
        except Exception:
            return s
    return s[:n] + '...'


# ----------------------------------------------------------------------------- source access

class Source:
    """The real source of /repo/sqlparse as it is on disk at the start of the run."""

    def __init__(self):
        self.files = {}      # relpath -> text
        self.trees = {}      # relpath -> ast.Module
        self.sha = {}
        for root, _dirs, names in os.walk(PKG):
            for n in sorted(names):
                if n.endswith('.py'):
                    p = os.path.join(root, n)
                    rel = os.path.relpath(p, REPO)
                    with open(p, encoding='utf-8') as f:
                        t = f.read()
                    self.files[rel] = t
                    self.sha[rel] = hashlib.sha256(t.encode()).hexdigest()
                    self.trees[rel] = ast.parse(t, filename=p)
        self._index = {}
        for rel, tree in self.trees.items():
            mod = rel[:-3].replace('/', '.')
            if mod.endswith('.__init__'):
                mod = mod[:-9]
            self._walk(tree, mod, rel)

    def _walk(self, node, prefix, rel):
        for ch in ast.iter_child_nodes(node):
            if isinstance(ch, (ast.FunctionDef, ast.AsyncFunctionDef)):
                q = prefix + '.' + ch.name
                self._index[q] = (ch, rel)
                self._walk(ch, q + '.<locals>', rel)
            elif isinstance(ch, ast.ClassDef):
                q = prefix + '.' + ch.name
                self._index[q] = (ch, rel)
                self._walk(ch, q, rel)
            elif isinstance(ch, (ast.If, ast.For, ast.While, ast.With, ast.Try)):
                self._walk(ch, prefix, rel)

    def get(self, qualname):
        """AST node of a function/class by qualified name, or None (-> stale obligation)."""
        r = self._index.get(qualname)
        return r[0] if r else None

    def file_of(self, qualname):
        r = self._index.get(qualname)
        return r[1] if r else None

    def module_tree(self, rel):
        return self.trees.get(rel)

    def names(self):
        return sorted(self._index)


_SRC = None


def source():
    global _SRC
    if _SRC is None:
        _SRC = Source()
    return _SRC


def import_repo():
    """Import the real package from the working tree under check (data extraction, replay)."""
    if REPO not in sys.path:
        sys.path.insert(0, REPO)
    import sqlparse  # noqa
    assert os.path.realpath(sqlparse.__file__).startswith(os.path.realpath(REPO)), sqlparse.__file__
    return sqlparse


def loops_of(fn_node):
    """Loops of a function in source order with ordinals '0', '1', '0.0' (nested)."""
    out = {}

    def rec(stmts, prefix):
        k = 0
        for st in _iter_stmts(stmts):
            if isinstance(st, (ast.For, ast.While)):
                key = prefix + str(k)
                out[key] = st
                k += 1
                rec(st.body + st.orelse, key + '.')
    def _iter_stmts(stmts):
        for st in stmts:
            if isinstance(st, (ast.For, ast.While)):
                yield st
            elif isinstance(st, (ast.FunctionDef, ast.ClassDef)):
                continue
            else:
                for f in ('body', 'orelse', 'finalbody'):
                    sub = getattr(st, f, None)
                    if isinstance(sub, list):
                        yield from _iter_stmts(sub)
                for h in getattr(st, 'handlers', []) or []:
                    yield from _iter_stmts(h.body)
    rec(fn_node.body, '')
    return out


# ----------------------------------------------------------------------------- known findings

def load_known_findings():
    p = os.path.join(VERIF, 'known_findings.json')
    if not os.path.exists(p):
        return {'open': [], 'fixed': []}
    with open(p) as f:
        return json.load(f)


# ----------------------------------------------------------------------------- check driver

class Report:
    def __init__(self, prop, tier, seed):
        self.prop, self.tier, self.seed = prop, tier, seed
        self.obls = []
        self.bounded = []          # dicts describing bounded stand-ins (never counted as proved)
        self.assumptions = []
        self.trusted = []
        self.functions = []
        self.dropped = ['docstrings and comments', 'text of exception messages', '__repr__/_pprint_tree helpers']
        self.notes = []
        self.t0 = time.time()

    def add(self, obl):
        self.obls.append(obl)
        return obl

    def extend(self, obls):
        for o in obls:
            self.add(o)


def finish(rep, level='proof', extra_cov=None):
    """Decide the verdict, print VIOLATION / KNOWN-FINDING lines, write evidence, return exit code."""
    kf = load_known_findings()
    open_f = [e for e in kf.get('open', []) if e.get('property') == rep.prop]
    violations, known, undecided = [], [], []
    for o in rep.obls:
        if o.status == FAILED:
            m = [e for e in open_f if o.finding_key and e.get('key') == o.finding_key]
            if m:
                known.append((o, m[0]))
            else:
                violations.append(o)
        elif o.status in (UNDECIDED, STALE):
            undecided.append(o)
    for b in rep.bounded:
        for case in b.get('failures', []):
            m = [e for e in open_f if case.get('finding_key') and e.get('key') == case.get('finding_key')]
            if m:
                known.append((case, m[0]))
            else:
                violations.append(case)
    printed = set()
    for o, e in known:
        line = 'KNOWN-FINDING: property=%s %s' % (rep.prop, e.get('what', e.get('key')))
        if line not in printed:
            print(line)
            printed.add(line)
    reproduced = {e.get('key') for _o, e in known}
    rep.not_reproduced = [e.get('key') for e in open_f if e.get('key') not in reproduced]
    for k in rep.not_reproduced:
        # informational: the entry may be stale, or its class lies outside the domain explored by this tier
        print('NOTE: known finding %s was not reproduced in this run (tier %s)' % (k, rep.tier))
    code = 0
    rdir = os.path.join(os.environ.get('VERIF_REPLAY_DIR') or os.path.join(VERIF, 'replays'), rep.prop)
    if os.path.isdir(rdir):
        import shutil
        shutil.rmtree(rdir, ignore_errors=True)
    for v in violations:
        os.makedirs(rdir, exist_ok=True)
        if isinstance(v, Obl):
            name, payload = v.id, {'obligation': v.id, 'function': v.fn, 'backend': v.backend,
                                    'verifier_output': v.detail, 'witness': v.witness}
            found = bool(v.witness and v.witness.get('reproduced'))
        else:
            name, payload = v.get('id', 'bounded'), dict(v)
            found = True
        payload['property'] = rep.prop
        payload['repo'] = REPO
        h = hashlib.sha1(name.encode()).hexdigest()[:12]
        path = os.path.join(rdir, h + '.json')
        with open(path, 'w') as f:
            json.dump(payload, f, indent=1, default=str)
        print('VIOLATION property=%s replay=%s%s' % (rep.prop, path, '' if found else ' no-failing-input-found'))
        print('  obligation: %s' % name)
        code = 1
    if code == 0 and undecided:
        for o in undecided[:20]:
            print('UNDECIDED property=%s obligation=%s reason=%s' % (rep.prop, o.id, _short(o.detail, 200)))
        code = 2
    write_evidence(rep, level, len(violations), known, extra_cov)
    n = len(rep.obls)
    d = sum(1 for o in rep.obls if o.status == DISCHARGED)
    print('%s %s: %d obligations, %d discharged, %d failed (%d known findings), %d undecided; bounded stand-ins: %d; %.1fs'
          % (rep.prop, rep.tier, n, d, sum(1 for o in rep.obls if o.status == FAILED), len(known), len(undecided),
             len(rep.bounded), time.time() - rep.t0))
    return code


def write_evidence(rep, level, nviol, known, extra_cov):
    src = source()
    by = {}
    for o in rep.obls:
        b = by.setdefault(o.backend, {'n': 0, 's': 0.0, 'discharged': 0})
        b['n'] += 1
        b['s'] = round(b['s'] + o.seconds, 4)
        if o.status == DISCHARGED:
            b['discharged'] += 1
    known_keys = sorted({e.get('key') for _o, e in known})
    # obligations that fail for a listed known finding are reported separately; they are not counted as
    # discharged and not as obligations of the proof claim (the claim is "everything except the listed findings")
    proof_obls = [o for o in rep.obls if not (o.status == FAILED and o.finding_key in known_keys)]
    samples = [o.as_json() for o in rep.obls[:3]] + [o.as_json() for o in rep.obls if o.status != DISCHARGED][:5]
    fns = sorted(set(rep.functions) | {o.fn for o in rep.obls if o.fn})
    cov = {
        'obligations': len(proof_obls),
        'discharged': sum(1 for o in proof_obls if o.status == DISCHARGED),
        'undecided': sum(1 for o in rep.obls if o.status in (UNDECIDED, STALE)),
        'failed_known_findings': sum(1 for o in rep.obls if o.status == FAILED and o.finding_key in known_keys),
        'checker_cmd': './check %s --tier %s' % (rep.prop, rep.tier),
        'trusted_base': rep.trusted,
        'by_backend': by,
        'functions_under_contract': fns,
        'solver_seconds': round(sum(o.seconds for o in rep.obls if o.kind == 'smt'), 3),
        'known_findings': known_keys,
        'known_findings_not_reproduced_in_this_run': list(getattr(rep, 'not_reproduced', [])),
        'dropped_by_front_end': rep.dropped,
        'bounded': [{k: v for k, v in b.items() if k != 'failures'} | {'n_failures': len(b.get('failures', []))}
                    for b in rep.bounded] or [{'ran': False}],
        'source_sha256': {k: v for k, v in src.sha.items()},
        'samples': samples,
        'notes': rep.notes,
        'obligation_ids': [o.id + ' :: ' + o.status + ' (' + o.backend + ')' for o in rep.obls],
    }
    cross = [o for o in rep.obls if o.id.endswith('/cvc5-agreement')]
    if cross:
        keys = ('goals re-checked by cvc5', 'cvc5 unsat (agrees)', 'cvc5 unknown/timeout', 'cvc5 sat (disagrees)', 'seconds')
        cov['cvc5_agreement'] = {k: round(sum((o.detail or {}).get(k, 0) for o in cross), 2) for k in keys}
    if rep.bounded:
        cov['evaluations'] = sum(b.get('evaluations', 0) for b in rep.bounded)
        cov['distinct_nontrivial'] = sum(b.get('distinct_nontrivial', 0) for b in rep.bounded)
        cov['rule'] = ' | '.join(b.get('rule', '') for b in rep.bounded)
    if extra_cov:
        cov.update(extra_cov)
    ev = {'property_id': rep.prop, 'tier': rep.tier, 'seed': rep.seed, 'level': level, 'coverage': cov,
          'assumptions': rep.assumptions, 'wall_s': round(time.time() - rep.t0, 2), 'violations': nviol}
    evdir = os.environ.get('VERIF_EVIDENCE_DIR') or os.path.join(VERIF, 'evidence')
    os.makedirs(evdir, exist_ok=True)
    with open(os.path.join(evdir, rep.prop + '.json'), 'w') as f:
        json.dump(ev, f, indent=1, default=str)


def guarded(fn):
    """Run a check body; any exception of the checker itself is exit 3 (never a violation)."""
    try:
        return fn()
    except SystemExit:
        raise
    except BaseException:
        traceback.print_exc()
        print('CHECKER-FAULT (exit 3): the verification machinery itself failed; this is not a property violation')
        return 3
