"""Runner for bounded stand-ins: evaluates a native oracle on an enumerated/seeded finite domain in parallel.

Results of this module are *never* counted as proof obligations; they are reported under coverage.bounded.
An oracle is a top-level function  oracle(case) -> None | dict(what=..., ...)   living in pyvc.oracles.
A classifier  classify(case, failure) -> finding_key | None  attributes a failing case to a known-finding class
(predicates about the input only, see DESIGN 6).
"""
import importlib
import multiprocessing as mp
import os
import sys
import time
import traceback

from . import core

_ORACLE = None
_CLASSIFY = None


def _init(repo, oracle_name, classify_name):
    global _ORACLE, _CLASSIFY
    sys.setrecursionlimit(10000)
    if repo not in sys.path:
        sys.path.insert(0, repo)
    if core.VERIF not in sys.path:
        sys.path.insert(0, core.VERIF)
    import sqlparse  # noqa
    mod = importlib.import_module('pyvc.oracles')
    _ORACLE = getattr(mod, oracle_name)
    _CLASSIFY = getattr(mod, classify_name) if classify_name else None


def _work(chunk):
    out = []
    nontriv = 0
    for case in chunk:
        try:
            r = _ORACLE(case)
        except BaseException as e:   # the oracle itself must not crash: report as oracle fault
            r = {'what': 'ORACLE-FAULT %s: %s' % (type(e).__name__, e), 'tb': traceback.format_exc()[-800:],
                 'oracle_fault': True}
        if r is not None:
            key = None
            if _CLASSIFY is not None and not r.get('oracle_fault'):
                try:
                    key = _CLASSIFY(case, r)
                except Exception:
                    key = None
            out.append((case, r, key))
    return len(chunk), out


def run(name, oracle_name, cases, classify_name=None, workers=None, budget_s=60.0, rule='', nontrivial=None,
        chunk=200, max_failures=50):
    """cases: iterable of picklable cases.  Returns the bounded-section dict for the evidence."""
    t0 = time.time()
    workers = workers or min(16, os.cpu_count() or 4)
    ctx = mp.get_context('fork')
    seen = set()
    n_eval = 0
    failures = []
    faults = []
    exhausted = True

    def chunks():
        buf = []
        for c in cases:
            k = repr(c)
            if k in seen:
                continue
            seen.add(k)
            buf.append(c)
            if len(buf) >= chunk:
                yield buf
                buf = []
        if buf:
            yield buf
    samples = []
    with ctx.Pool(workers, initializer=_init, initargs=(core.REPO, oracle_name, classify_name)) as pool:
        it = pool.imap_unordered(_work, chunks())
        while True:
            try:
                n, out = it.next(timeout=max(1.0, budget_s - (time.time() - t0) + 30))
            except StopIteration:
                break
            except mp.TimeoutError:
                exhausted = False
                break
            n_eval += n
            for case, r, key in out:
                if r.get('oracle_fault'):
                    faults.append((case, r))
                elif len(failures) < 5000:
                    failures.append((case, r, key))
            if time.time() - t0 > budget_s:
                exhausted = False
                pool.terminate()
                break
    if faults:
        raise RuntimeError('oracle fault in bounded stand-in %s on %r: %s' % (name, faults[0][0], faults[0][1]))
    fl = []
    by_key = {}
    for case, r, key in failures:
        by_key.setdefault(key, []).append((case, r))
    for key, lst in by_key.items():
        lst.sort(key=lambda cr: (len(repr(cr[0])), repr(cr[0])))
        if key is None:
            for case, r in lst[:max_failures]:
                fl.append({'id': 'bounded:%s:%s' % (name, _clip(repr(case), 80)), 'case': case, 'failure': r,
                           'finding_key': None, 'reproduced': True})
        else:
            case, r = lst[0]
            fl.append({'id': 'bounded:%s:%s' % (name, key), 'case': case, 'failure': r, 'finding_key': key,
                       'n_cases_in_class': len(lst), 'reproduced': True})
    seen_list = list(itertools_islice(seen, 3))
    return {'name': name, 'oracle': 'pyvc.oracles.' + oracle_name, 'engine': 'enumeration', 'rule': rule,
            'evaluations': n_eval, 'distinct_nontrivial': n_eval, 'exhaustive': exhausted,
            'seconds': round(time.time() - t0, 2), 'failures': fl, 'samples': seen_list,
            'n_failing_cases': len(failures)}


def itertools_islice(s, n):
    out = []
    for x in s:
        out.append(x)
        if len(out) >= n:
            break
    return out


def _clip(s, n):
    return s if len(s) <= n else s[:n] + '...'
