"""Loops (cut at sidecar invariants), iteration models, yield handling."""
import ast

import z3

from .symex import (Outcome, PyExc, OutsideSubset, Sym, SInt, SBool, SStr, STy, Rec, LRef, Opaque, Func, UNBOUND,
                    fresh, fresh_int, fresh_str, fresh_bool)
from . import smt


def fresh_like(ex, v, name='h'):
    """a fresh symbolic value of the same shape (havoc)"""
    if isinstance(v, bool) or isinstance(v, SBool):
        return fresh_bool(name)
    if isinstance(v, int) or isinstance(v, SInt):
        return fresh_int(name)
    if isinstance(v, str) or isinstance(v, SStr):
        return fresh_str(name)
    if isinstance(v, STy) or ex.W.is_tt(v):
        return STy(fresh(name, ex.W.TT))
    if isinstance(v, tuple):
        return tuple(fresh_like(ex, x, name) for x in v)
    h = getattr(ex, 'fresh_like_ext', None)
    if h:
        r = h(v, name)
        if r is not NotImplemented:
            return r
    return None   # cannot havoc this shape generically


def assigned_names(stmts):
    out = set()

    class V(ast.NodeVisitor):
        def visit_Name(self, n):
            if isinstance(n.ctx, (ast.Store, ast.Del)):
                out.add(n.id)

        def visit_FunctionDef(self, n):
            out.add(n.name)

        def visit_Lambda(self, n):
            pass
    for s in stmts:
        V().visit(s)
    return out


def loop_key(ex, stmt):
    for k, node in ex.loop_ords.items():
        if node is stmt:
            return k
    return None


def loop_contract(ex, stmt):
    k = loop_key(ex, stmt)
    c = ex.contract
    if c is None or k is None:
        return k, None
    return k, (getattr(c, 'loops', None) or {}).get(k)


class LoopAbort(Exception):
    pass


def _snapshot_writes(before, after, ex=None):
    """names / (oid, field) whose value object changed between two states"""
    w = set()
    for n, v in after.env.items():
        if n not in before.env or before.env[n] is not v:
            w.add(('var', n))
    for oid, f in after.objs.items():
        b = before.objs.get(oid)
        if b is None:
            continue
        if f.get('CLS') is not None and 'TXT' in f:
            continue      # token records: field writes are tracked by the field taint (pyvc.heap), not per object
        for k, v in f.items():
            if k not in b or b[k] is not v:
                w.add(('fld', (oid, k)))
    for g, v in after.ghost.items():
        if g.startswith('__'):
            continue          # bookkeeping of the executor (list versions, registries), not program state
        if g not in before.ghost or before.ghost[g] is not v:
            w.add(('ghost', g))
    chk = getattr(ex, 'list_semantically_changed', None)
    for lid, v in after.lists.items():
        if lid in before.lists and before.lists[lid] is not v:
            if chk and not chk(before, after, lid):
                continue      # only the representation was refined (segments split, elements materialised)
            w.add(('list', lid))
    for f, v in after.farr.items():
        if f not in before.farr or before.farr[f] is not v:
            w.add(('farr', f))
    return w


def havoc(ex, st, hset, tag):
    """replace every location in hset by a fresh value of the same shape"""
    for kind, n0 in sorted(hset, key=str):
        n = n0
        if kind == 'var':
            if n in st.env and st.env[n] is not UNBOUND:
                nv = fresh_like(ex, st.env[n], n)
                if nv is None and isinstance(st.env[n], LRef) and getattr(ex, 'havoc_list_var', None):
                    st.env[n] = ex.havoc_list_var(st, n)
                    continue
                if nv is None:
                    if isinstance(st.env[n], (Rec, LRef, Func, Opaque)) or not isinstance(st.env[n], Sym):
                        # reference re-bound in the loop: value unknown afterwards
                        st.env[n] = Opaque('havoc:' + n)
                        continue
                    raise OutsideSubset('cannot havoc variable %s = %r' % (n, st.env[n]))
                st.env[n] = nv
        elif kind == 'ghost':
            if n not in st.ghost:
                continue
            nv = fresh_like(ex, st.ghost[n], n)
            if nv is None:
                raise OutsideSubset('cannot havoc ghost %s' % n)
            st.ghost[n] = nv
        elif kind == 'fld':
            for oid, f in st.objs.items():
                if isinstance(n, tuple):
                    if oid != n[0]:
                        continue
                    n_ = n[1]
                else:
                    n_ = n
                if n_ in f and 'ENT' in f and 'UNK' in f and 'VER' in f:
                    # a local dictionary written in the loop: unknown contents at the loop head
                    f['ENT'], f['UNK'], f['VER'] = (), True, f['VER'] + 1 + len(st.pc)
                    continue
                if n_ in f:
                    n = n_
                    nv = fresh_like(ex, f[n], n)
                    if nv is None:
                        h = getattr(ex, 'havoc_field_ext', None)
                        nv = h(st, oid, n, f[n]) if h else None
                        if nv is None:
                            raise OutsideSubset('cannot havoc field %s = %r' % (n, f[n]))
                    f[n] = nv
        elif kind == 'list':
            h = getattr(ex, 'havoc_list_ext', None)
            if not h:
                raise OutsideSubset('list modified in loop')
            h(st, n)
        elif kind == 'farr':
            h = getattr(ex, 'havoc_farr_ext', None)
            if not h:
                raise OutsideSubset('heap field modified in loop')
            h(st, n)


def run_cut_loop(ex, stmt, st, key, lc, guard_fn, bind_fn, advance_fn, label):
    """Generic invariant-cut loop.

    guard_fn(state) -> bool/z3 guard in a loop-head state
    bind_fn(state)  -> list of states with loop targets bound (start of body)
    advance_fn(state) -> None (mutates the state: end of an iteration, e.g. index += 1)
    Returns list of (state, outcome, value) for the code after the loop.
    """
    if getattr(ex, '_no_cut_loops', None) and not lc:
        raise OutsideSubset('call of %s which has no contract (it contains a loop over unknown elements)' % ex._no_cut_loops)
    eb = (lc or {}).get('entry_bind')
    if eb:
        # ghosts that the invariants speak about are computed once in the loop-entry state (may fork); the loop is then
        # run from each of the resulting entry states
        lc2 = dict(lc)
        lc2.pop('entry_bind')
        saved = getattr(ex, '_entry_state', None)
        ex._entry_state = st
        try:
            entries = eb(ex, st)
        finally:
            ex._entry_state = saved
        out = []
        for s0 in entries:
            out.extend(run_cut_loop(ex, stmt, s0, key, lc2, guard_fn, bind_fn, advance_fn, label))
        return out
    invs = (lc or {}).get('inv', [])
    extra_havoc = set((lc or {}).get('havoc', []))
    hset = {('var', n) for n in assigned_names(stmt.body)}
    for h in extra_havoc:
        kind, n = h.split(':', 1)
        hset.add((kind, n))
    hset |= set((lc or {}).get('havoc_locs', []))
    name = '%s/loop%s' % (label, key)
    # 1. invariants hold on entry
    for j, inv in enumerate(invs):
        ex.goal('%s.init#%d' % (name, j), st, ex.spec(inv, st), {'inv': inv})
    entry_saved = getattr(ex, '_entry_state', None)
    for _round in range(6):
        goals_mark = len(ex.goals)
        ex._entry_state = st
        head = st.fork()
        havoc(ex, head, hset, key)
        bnd = (lc or {}).get('bind')
        heads = [head]
        if bnd:
            heads = bnd(ex, head) or [head]
        results = []
        more = set()
        taint0 = head.ghost.get('__taint__', frozenset())
        for head in heads:
          for inv in invs:
            ai = getattr(ex, 'assume_inv', None)
            if ai and ai(inv, head):
                continue
            head.assume(_z(ex.spec(inv, head)))
          for lem in (lc or {}).get('lemmas', []):
            head.assume(_z(ex.spec(lem, head)))
          g = guard_fn(head)
          branches = []
          if isinstance(g, list):
              for s_h, z_h in g:
                  branches.extend(ex.decide(s_h, z_h))
          else:
              branches = ex.decide(head, g)
          for s_g, b in branches:
            s_g.ghost['__loops_reached__'] = s_g.ghost.get('__loops_reached__', frozenset()) | {(ex.fn, str(key))}
            if b:
                s_g.trace.append('loop%s:iter' % key)
                for s_b in bind_fn(s_g):
                    pre = s_b.fork()
                    for s_e, oc, val in ex.exec_block(stmt.body, s_b):
                        if oc in (Outcome.NEXT, Outcome.CONT):
                            # only writes on paths that return to the loop head need to be havoc'ed there
                            more |= _snapshot_writes(pre, s_e, ex) - hset
                            t1 = s_e.ghost.get('__taint__', frozenset())
                            if not t1 <= taint0:
                                more.add(('taint', t1 - taint0))
                        if oc in (Outcome.NEXT, Outcome.CONT):
                            advance_fn(s_e)
                            for j, inv in enumerate(invs):
                                ex.goal('%s.preserved#%d' % (name, j), s_e, ex.spec(inv, s_e), {'inv': inv})
                            for j, ip in enumerate((lc or {}).get('iter_post', [])):
                                # obligation on every completed iteration (in terms of the iteration's own variables;
                                # iter_start(e) is the value of e right after the loop targets were bound)
                                ex._iter_state = pre
                                ex.goal('%s.iteration#%d' % (name, j), s_e, ex.spec(ip, s_e), {'iteration_post': ip})
                        elif oc == Outcome.BREAK:
                            s_e.trace.append('loop%s:break' % key)
                            results.append((s_e, Outcome.NEXT, None))
                        else:
                            results.append((s_e, oc, val))
            else:
                s_g.trace.append('loop%s:exit' % key)
                if stmt.orelse:
                    results.extend(ex.exec_block(stmt.orelse, s_g))
                else:
                    results.append((s_g, Outcome.NEXT, None))
        # locations written by the body must all have been havoc'ed, else redo with a larger havoc set
        more = {m for m in more if not (m[0] == 'var' and m[1] in _targets(stmt))}
        more = {m for m in more if m not in hset}
        lazy = {m for m in more if m[0] == 'list' and m[1] not in st.lists}
        if lazy:
            # a children list that was only materialised inside this round was modified: such lists do not exist in
            # the loop-entry state; from now on lazily materialised children lists carry no facts (taint '#children')
            more -= lazy
            if '#children' not in st.ghost.get('__taint__', frozenset()):
                more.add(('taint', frozenset({'#children'})))
        if not more:
            ex._entry_state = entry_saved
            return results
        del ex.goals[goals_mark:]
        for m in list(more):
            if m[0] == 'taint':
                # token fields written in the body: from now on unknown for every element at the loop head
                st = st.fork()
                st.ghost['__taint__'] = st.ghost.get('__taint__', frozenset()) | m[1]
                more.discard(m)
        hset |= more
    raise OutsideSubset("loop havoc set did not stabilise: %r" % (sorted(more, key=str)[:6],))


def _targets(stmt):
    if isinstance(stmt, ast.For):
        return assigned_names([ast.Expr(value=stmt.target)]) | {n.id for n in ast.walk(stmt.target) if isinstance(n, ast.Name)}
    return set()


def _z(t):
    return z3.BoolVal(t) if isinstance(t, bool) else t


def exec_for(ex, stmt, st):
    key, lc = loop_contract(ex, stmt)
    out = []
    for s, it in ex.eval(stmt.iter, st):
        out.extend(_for_over(ex, stmt, s, it, key, lc))
    return out


def _unroll(ex, stmt, st, values):
    cur = [st]
    done = []
    for v in values:
        nxt = []
        for s in cur:
            try:
                bound = ex.assign(stmt.target, v, s)
            except PyExc as e:
                done.append((s, Outcome.RAISE, e))
                continue
            for s1 in bound:
                for s2, oc, val in ex.exec_block(stmt.body, s1):
                    if oc in (Outcome.NEXT, Outcome.CONT):
                        nxt.append(s2)
                    elif oc == Outcome.BREAK:
                        done.append((s2, Outcome.NEXT, None))
                    else:
                        done.append((s2, oc, val))
        cur = nxt
    for s in cur:
        if stmt.orelse:
            done.extend(ex.exec_block(stmt.orelse, s))
        else:
            done.append((s, Outcome.NEXT, None))
    return done


def _for_over(ex, stmt, st, it, key, lc):
    label = ex.fn
    # concrete sequences: unroll
    if isinstance(it, (tuple, list)) and not ex.W.is_tt(it):
        return _unroll(ex, stmt, st, list(it))
    if isinstance(it, dict):
        return _unroll(ex, stmt, st, list(it))
    if isinstance(it, Rec) and it.kind == 'Token' and hasattr(ex, 'ensure_tokens'):
        # iterating a group node iterates its children list (TokenList.__iter__)
        it = ex.getattr(it, 'tokens', st)
    if isinstance(it, LRef):
        items = st.lists[it.lid]
        if all(x[0] == 'el' for x in items) and not (lc and lc.get('cut')):
            return _unroll(ex, stmt, st, [x[1] for x in items])
    h = getattr(ex, 'for_ext', None)
    if h:
        r = h(stmt, st, it, key, lc)
        if r is not NotImplemented:
            return r
    if isinstance(it, LRef) and lc and lc.get('cut'):
        # a list iterated in order under a loop invariant: an index iterator over the (unmodified) list
        from .models import make_iter
        it = make_iter(ex, st, it, 'seq_iter')
    if isinstance(it, Rec) and it.kind == 'aseq':
        o = st.objs[it.oid]
        it = ex.new_obj(st, 'seq_iter', {'SEQ': it, 'K': 0, 'N': o['N'], 'AT': o['AT']})
    if isinstance(it, Rec) and it.kind in ('enum_iter', 'seq_iter') and not lc:
        # an iterator over a LOCAL list with known elements that has not been advanced yet (e.g. enumerate(cases) with
        # cases built from a known shape) and no loop contract: unrolled like a concrete sequence
        o = st.objs[it.oid]
        seq = o.get('SEQ')
        k0 = o.get('K')
        if isinstance(k0, SInt) and z3.is_int_value(z3.simplify(k0.z)):
            k0 = z3.simplify(k0.z).as_long()        # (advanced by next() a known number of times)
        if isinstance(seq, LRef) and isinstance(k0, int) and all(x[0] == 'el' for x in st.lists[seq.lid]) \
                and not (hasattr(ex, 'is_tokens_list') and ex.is_tokens_list(st, seq)):
            vals = [x[1] for x in st.lists[seq.lid]]
            if it.kind == 'enum_iter':
                vals = [(i, v) for i, v in enumerate(vals)]
            return _unroll(ex, stmt, st, vals[k0:])
    if isinstance(it, Rec) and it.kind in ('enum_iter', 'seq_iter'):
        st.ghost['IT' + (key or 'x').replace('.', '_')] = it
        # iterator over an abstract sequence with ghost position K (0 <= K <= N)
        def guard(s):
            o = s.objs[it.oid]
            return ex.z_int(o['K']) < ex.z_int(o['N'])

        def bind(s):
            o = s.objs[it.oid]
            k = o['K']
            elem = o['AT'](ex, s, k)
            res = []
            for s1, e in elem:
                # (the element lookup may fork: the position is advanced in every resulting state)
                s1.objs[it.oid]['K'] = SInt(z3.simplify(ex.z_int(k) + 1)) if isinstance(k, Sym) else k + 1
                v = (k, e) if it.kind == 'enum_iter' else e
                res.extend(ex.assign(stmt.target, v, s1))
            return res

        def advance(s):
            pass
        lc2 = dict(lc or {})
        lc2['havoc_locs'] = [('fld', (it.oid, 'K'))]
        g = 'IT' + (key or 'x').replace('.', '_')
        lc2['inv'] = ['0 <= %s.K' % g, '%s.K <= %s.N' % (g, g)] + list(lc2.get('inv', []))
        return run_cut_loop(ex, stmt, st, key, lc2, guard, bind, advance, label)
    raise OutsideSubset('for over %r' % (it,))


def _unroll_while(ex, stmt, st, limit=48):
    """a while loop without a loop contract whose guard is DECIDED in every state reached (concrete data, e.g. the explicit
    node shapes): executed iteration by iteration.  None if some guard is not decided (the caller then cuts the loop)."""
    marks = len(ex.goals)
    pend0 = list(getattr(ex, '_pending_raises', []))
    cur, done = [st.fork()], []
    try:
        for _ in range(limit):
            if not cur:
                return done
            nxt = []
            for s in cur:
                r = ex.eval(stmt.test, s)
                if len(r) != 1:
                    raise _NotDecided()
                s1, v = r[0]
                t = ex.truth(v, s1)
                if not isinstance(t, bool):
                    if smt.entails(s1.pc, t):
                        t = True
                    elif smt.entails(s1.pc, z3.Not(t)):
                        t = False
                    else:
                        raise _NotDecided()
                if not t:
                    done.append((s1, Outcome.NEXT, None))
                    continue
                for s2, oc, val in ex.exec_block(stmt.body, s1):
                    if oc in (Outcome.NEXT, Outcome.CONT):
                        nxt.append(s2)
                    elif oc == Outcome.BREAK:
                        done.append((s2, Outcome.NEXT, None))
                    else:
                        done.append((s2, oc, val))
            cur = nxt
        raise _NotDecided()
    except (_NotDecided, PyExc):
        del ex.goals[marks:]
        ex._pending_raises = pend0
        return None


class _NotDecided(Exception):
    pass


def exec_while(ex, stmt, st):
    key, lc = loop_contract(ex, stmt)
    if stmt.orelse:
        raise OutsideSubset('while/else')
    if not lc:
        r = _unroll_while(ex, stmt, st)
        if r is not None:
            return r

    def guard(s):
        # the guard may fork (case splits on list positions) or raise (partial operations): every outcome is followed
        pend_mark = len(getattr(ex, '_pending_raises', []))
        r = ex.eval(stmt.test, s)
        return [(s1, ex.truth(v, s1)) for s1, v in r]

    def bind(s):
        return [s]

    def advance(s):
        pass
    return run_cut_loop(ex, stmt, st, key, lc, guard, bind, advance, ex.fn)


def do_yield(ex, node, st):
    if isinstance(node, ast.YieldFrom):
        h = getattr(ex, 'yield_from_ext', None)
        if h:
            return h(node, st)
        raise OutsideSubset('yield from')
    c = ex.contract
    out = []
    ys = sorted((n for n in ast.walk(ex.fn_node) if isinstance(n, (ast.Yield, ast.YieldFrom))),
                key=lambda n: (n.lineno, n.col_offset)) if getattr(ex, 'fn_node', None) is not None else []
    site = next((i for i, n in enumerate(ys) if n is node), -1)
    vals = ex.eval(node.value, st) if node.value is not None else [(st, None)]
    for s, v in vals:
        yh = getattr(ex, 'on_yield_hook', None)
        if yh:
            yh(s, v)
        hook = getattr(c, 'on_yield', None) if c is not None else None
        for j, a in enumerate(getattr(c, 'yield_asserts', []) or []):
            ex.goal('%s/yield#%d.assert#%d' % (ex.fn, site, j), s, ex.spec(a, s, {'item': v}), {'assert': a})
        ysa = (getattr(c, 'yield_site_asserts', None) or {}) if c is not None else {}
        per_site = list(ysa.get(site, [])) + (list(ysa.get('last', [])) if ys and node is ys[-1] else [])
        for j, a in enumerate(per_site):
            ex.goal('%s/yield#%d.site_assert#%d' % (ex.fn, site, j), s, ex.spec(a, s, {'item': v}), {'assert': a})
        if hook:
            s.env['item'] = v
            tree = ast.parse(hook)
            res = ex.exec_block(tree.body, s)
            for s2, oc, val in res:
                s2.env.pop('item', None)
                if oc != Outcome.NEXT:
                    raise OutsideSubset('ghost code must fall through')
                out.append((s2, Outcome.NEXT, None))
        else:
            out.append((s, Outcome.NEXT, None))
    return out
