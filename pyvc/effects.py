"""Syntactic effects / frame analysis over the real AST (DESIGN 3.6): write sets, call graph, recursion.

An over-approximation: every explicit store (attribute, subscript, delete, augmented), every call of a mutating
list/dict method on something that is not provably a fresh local container, setattr, global/nonlocal.
"""
import ast

from .core import source

MUTATORS = {'append', 'extend', 'insert', 'pop', 'remove', 'clear', 'sort', 'reverse', 'update', 'setdefault',
            'popitem', 'add', 'discard', '__setitem__', '__delitem__'}


class Write:
    __slots__ = ('fn', 'kind', 'base', 'attr', 'lineno', 'text')

    def __init__(self, fn, kind, base, attr, lineno, text):
        self.fn, self.kind, self.base, self.attr, self.lineno, self.text = fn, kind, base, attr, lineno, text

    def as_dict(self):
        return {'fn': self.fn, 'kind': self.kind, 'base': self.base, 'attr': self.attr, 'line': self.lineno,
                'text': self.text}


def _root_name(node):
    while isinstance(node, (ast.Attribute, ast.Subscript, ast.Call)):
        node = node.value if not isinstance(node, ast.Call) else node.func
    return node.id if isinstance(node, ast.Name) else None


def fresh_locals(fn_node):
    """local names that are only ever bound to a freshly built container/object in this function:
    [], {}, list(...), [..comprehension..], dict(...), set(), ClassName(...)"""
    cands, bad = set(), set()
    params = {a.arg for a in fn_node.args.args + fn_node.args.kwonlyargs + fn_node.args.posonlyargs}
    for n in ast.walk(fn_node):
        if isinstance(n, ast.Assign) and len(n.targets) == 1 and isinstance(n.targets[0], ast.Name):
            v = n.value
            name = n.targets[0].id
            is_fresh = isinstance(v, (ast.List, ast.Dict, ast.Set, ast.ListComp, ast.DictComp, ast.SetComp)) or (
                isinstance(v, ast.Call) and isinstance(v.func, ast.Name) and v.func.id in ('list', 'dict', 'set'))
            (cands if is_fresh else bad).add(name)
        elif isinstance(n, (ast.For, ast.comprehension)):
            for t in ast.walk(n.target):
                if isinstance(t, ast.Name):
                    bad.add(t.id)
    return (cands - bad) - params


def derived_fresh_locals(fn_node):
    """fresh_locals plus the locals that are only ever bound to parts of them (x = fresh[i], a, b = fresh[-1], x = derived[j]):
    containers built by this activation, however they are named or reached"""
    cur = set(fresh_locals(fn_node))
    params = {a.arg for a in fn_node.args.args + fn_node.args.kwonlyargs + fn_node.args.posonlyargs}
    loop_targets = set()
    for n in ast.walk(fn_node):
        if isinstance(n, (ast.For, ast.comprehension)):
            loop_targets |= {t.id for t in ast.walk(n.target) if isinstance(t, ast.Name)}
    changed = True
    while changed:
        changed = False
        binds = {}
        for n in ast.walk(fn_node):
            if isinstance(n, ast.Assign) and len(n.targets) == 1:
                t, v = n.targets[0], n.value
                names = [t.id] if isinstance(t, ast.Name) else (
                    [e.id for e in t.elts if isinstance(e, ast.Name)] if isinstance(t, (ast.Tuple, ast.List))
                    and all(isinstance(e, ast.Name) for e in t.elts) else [])
                ok = isinstance(v, ast.Subscript) and _root_name(v) in cur and not any(
                    isinstance(x, ast.Call) for x in ast.walk(v))
                for nm in names:
                    binds.setdefault(nm, []).append(ok)
        for nm, oks in binds.items():
            if nm not in cur and nm not in params and nm not in loop_targets and all(oks):
                cur.add(nm)
                changed = True
    return cur


def writes_of(qualname, fn_node):
    out = []
    fresh = fresh_locals(fn_node)

    def add(kind, tgt, node, attr=None):
        out.append(Write(qualname, kind, _root_name(tgt), attr, node.lineno, ast.unparse(node)[:100]))

    class V(ast.NodeVisitor):
        def visit_FunctionDef(self, n):
            if n is fn_node:
                self.generic_visit(n)
            # nested functions are analysed under their own qualified name

        def visit_Lambda(self, n):
            self.generic_visit(n)

        def _store(self, t, node):
            if isinstance(t, ast.Attribute):
                add('attr-store', t.value, node, t.attr)
            elif isinstance(t, ast.Subscript):
                if _root_name(t) in fresh and isinstance(t.value, ast.Name):
                    return
                add('item-store', t.value, node)
            elif isinstance(t, (ast.Tuple, ast.List)):
                for e in t.elts:
                    self._store(e, node)
            elif isinstance(t, ast.Starred):
                self._store(t.value, node)

        def visit_Assign(self, n):
            for t in n.targets:
                self._store(t, n)
            self.generic_visit(n)

        def visit_AugAssign(self, n):
            self._store(n.target, n)
            self.generic_visit(n)

        def visit_AnnAssign(self, n):
            self._store(n.target, n)
            self.generic_visit(n)

        def visit_Delete(self, n):
            for t in n.targets:
                if isinstance(t, ast.Subscript):
                    if _root_name(t) in fresh and isinstance(t.value, ast.Name):
                        continue
                    add('item-delete', t.value, n)
                elif isinstance(t, ast.Attribute):
                    add('attr-delete', t.value, n, t.attr)
            self.generic_visit(n)

        def visit_Global(self, n):
            for name in n.names:
                out.append(Write(qualname, 'global-decl', name, None, n.lineno, 'global ' + name))

        def visit_Nonlocal(self, n):
            for name in n.names:
                out.append(Write(qualname, 'nonlocal-decl', name, None, n.lineno, 'nonlocal ' + name))

        def visit_Call(self, n):
            f = n.func
            if isinstance(f, ast.Attribute) and f.attr in MUTATORS:
                if not (isinstance(f.value, ast.Name) and f.value.id in fresh):
                    add('mutator-call', f.value, n, f.attr)
            if isinstance(f, ast.Name) and f.id == 'setattr':
                add('setattr', n.args[0] if n.args else f, n)
            self.generic_visit(n)
    V().visit(fn_node)
    return out


def all_functions():
    src = source()
    res = {}
    for q in src.names():
        node = src.get(q)
        if isinstance(node, (ast.FunctionDef, ast.AsyncFunctionDef)):
            res[q] = node
    return res


def calls_of(fn_node):
    """names called in a function: ('name', id) for f(...), ('attr', attr) for x.attr(...)"""
    out = []
    for n in ast.walk(fn_node):
        if isinstance(n, ast.Call):
            if isinstance(n.func, ast.Name):
                out.append(('name', n.func.id, n.lineno))
            elif isinstance(n.func, ast.Attribute):
                out.append(('attr', n.func.attr, n.lineno))
    return out


def call_graph():
    """approximate package call graph: f(...) -> every function named f in the package; x.m(...) -> every method or
    function named m in the package (class-insensitive over-approximation)"""
    fns = all_functions()
    by_name = {}
    for q in fns:
        by_name.setdefault(q.rsplit('.', 1)[1], []).append(q)
    g = {}
    for q, node in fns.items():
        tg = set()
        for kind, name, _ln in calls_of(node):
            if name in ('__init__',):
                continue
            for t in by_name.get(name, []):
                tg.add(t)
            # ClassName(...) -> __init__
            for t in by_name.get('__init__', []):
                if t.split('.')[-2] == name:
                    tg.add(t)
        # function references that are not called here (passed around, stored in lists): potential calls
        for n in ast.walk(node):
            if isinstance(n, ast.Name) and isinstance(n.ctx, ast.Load):
                for t in by_name.get(n.id, []):
                    tg.add(t)
        # a decorated function runs its decorator's wrappers: edges to the decorator and everything nested in it
        for d in node.decorator_list:
            dn = d.func if isinstance(d, ast.Call) else d
            name = dn.id if isinstance(dn, ast.Name) else (dn.attr if isinstance(dn, ast.Attribute) else None)
            for t in by_name.get(name, []):
                tg.add(t)
                for q2 in fns:
                    if q2.startswith(t + '.<locals>'):
                        tg.add(q2)
        g[q] = tg
    return g


def reachable(graph, roots):
    seen, todo = set(), list(roots)
    while todo:
        q = todo.pop()
        if q in seen or q not in graph:
            continue
        seen.add(q)
        todo.extend(graph[q])
    return seen


def sccs(graph):
    """Tarjan; returns list of components (lists) that are recursive (size > 1 or self loop)"""
    index, low, onst, st, out = {}, {}, set(), [], []
    counter = [0]
    import sys
    sys.setrecursionlimit(10000)

    def strong(v):
        index[v] = low[v] = counter[0]
        counter[0] += 1
        st.append(v)
        onst.add(v)
        for w in graph.get(v, ()):
            if w not in graph:
                continue
            if w not in index:
                strong(w)
                low[v] = min(low[v], low[w])
            elif w in onst:
                low[v] = min(low[v], index[w])
        if low[v] == index[v]:
            comp = []
            while True:
                w = st.pop()
                onst.discard(w)
                comp.append(w)
                if w == v:
                    break
            if len(comp) > 1 or v in graph.get(v, ()):
                out.append(sorted(comp))
    for v in graph:
        if v not in index:
            strong(v)
    return out


def module_level_state():
    """module-level and class-level assignments of mutable containers / instances (candidates for shared state)"""
    src = source()
    out = []
    for rel, tree in src.trees.items():
        for node in tree.body:
            _mod_state(node, rel, None, out)
    return out


def _mod_state(node, rel, cls, out):
    if isinstance(node, ast.ClassDef):
        for n in node.body:
            _mod_state(n, rel, node.name, out)
    elif isinstance(node, ast.Assign):
        v = node.value
        kind = None
        if isinstance(v, (ast.List, ast.Dict, ast.Set, ast.ListComp, ast.DictComp)):
            kind = 'container'
        elif isinstance(v, ast.Call):
            kind = 'call:' + ast.unparse(v.func)
        if kind:
            for t in node.targets:
                out.append({'file': rel, 'class': cls, 'name': ast.unparse(t), 'kind': kind, 'line': node.lineno})


def mutable_defaults():
    out = []
    for q, node in all_functions().items():
        for d in list(node.args.defaults) + [d for d in node.args.kw_defaults if d is not None]:
            if isinstance(d, (ast.List, ast.Dict, ast.Set, ast.ListComp, ast.DictComp)) or (
                    isinstance(d, ast.Call) and isinstance(d.func, ast.Name) and d.func.id in ('list', 'dict', 'set')):
                out.append({'fn': q, 'default': ast.unparse(d), 'line': d.lineno})
    return out


def name_kinds(fn_node):
    """classification of the names used in a function: 'param', 'local' (bound in the function), else free/global"""
    params = {a.arg for a in fn_node.args.args + fn_node.args.kwonlyargs + fn_node.args.posonlyargs}
    if fn_node.args.vararg:
        params.add(fn_node.args.vararg.arg)
    if fn_node.args.kwarg:
        params.add(fn_node.args.kwarg.arg)
    local = set()
    declared = set()
    for n in ast.walk(fn_node):
        if isinstance(n, ast.Name) and isinstance(n.ctx, ast.Store):
            local.add(n.id)
        elif isinstance(n, (ast.FunctionDef, ast.ClassDef)) and n is not fn_node:
            local.add(n.name)
        elif isinstance(n, ast.ExceptHandler) and n.name:
            local.add(n.name)
        elif isinstance(n, (ast.Global, ast.Nonlocal)):
            declared |= set(n.names)
        elif isinstance(n, (ast.Import, ast.ImportFrom)):
            for a in n.names:
                local.add((a.asname or a.name).split('.')[0])
    return params, local - declared, declared


IMMUTABLE_VALUE_CALLS = ('re.compile',)


def benign_memo_cache(qualname, fn_node):
    """name of the module-level dict a function uses as a memo cache in the recognised idiom (pyvc.models.memo_idiom: filled
    on a miss, only by this function, with a value computed from the key alone) when that value is an immutable object made
    by a deterministic library call (re.compile): such a cache cannot make a result depend on the call history.  Else None"""
    from . import models
    try:
        m = models.memo_idiom(qualname, fn_node)
    except Exception:       # noqa: BLE001
        return None
    if m is None:
        return None
    e = m.body[0].value
    if isinstance(e, ast.Call) and ast.unparse(e.func) in IMMUTABLE_VALUE_CALLS:
        # the name of the dict: the only non-parameter, non-builtin base stored to
        bases = {w.base for w in writes_of(qualname, fn_node) if w.base}
        params, local, _d = name_kinds(fn_node)
        bases -= set(params) | set(local)
        if len(bases) == 1:
            return bases.pop()
    return None


def shared_state_writes(qualname, fn_node):
    """writes of a function that can reach state shared between calls: the base is neither a parameter nor a local
    of the function (i.e. a closure variable, a module global or a class name), or it is the `cls` parameter"""
    params, local, declared = name_kinds(fn_node)
    out = []
    memo = benign_memo_cache(qualname, fn_node)
    for w in writes_of(qualname, fn_node):
        if memo is not None and w.base == memo:
            continue
        if w.kind in ('global-decl', 'nonlocal-decl'):
            out.append(w)
        elif w.base is None:
            out.append(w)
        elif w.base == 'cls' and w.base in params:
            out.append(w)
        elif w.base not in params and w.base not in local:
            out.append(w)
    return out


def with_lock_regions(fn_node, lock_attr='_lock'):
    """line ranges of `with <x>._lock:` blocks"""
    out = []
    for n in ast.walk(fn_node):
        if isinstance(n, ast.With):
            for it in n.items:
                if isinstance(it.context_expr, ast.Attribute) and it.context_expr.attr == lock_attr:
                    out.append((n.lineno, max(getattr(x, 'end_lineno', n.lineno) for x in n.body)))
    return out
