"""Bounded input domains for the stand-in checks (never counted as proof).

  alphabet()          one or two representatives of every character class that occurs in SQL_REGEX
  strings_upto(n)     all strings of length <= n over the alphabet (exhaustive)
  FRAGMENTS / soups() token soups: sequences of lexical fragments joined by a separator
  Grammar             random scripts of the verification grammar (DESIGN 4.5) with their expected statement list

Everything is deterministic given the seed.
"""
import itertools
import random

ALPHABET = ['a', 'A', 'z', 'e', 'E', 'x', '_', '0', '1', '9', '$', '#', '@', "'", '"', '`', '´', '-', '+', '*',
            '/', '\\', '(', ')', '[', ']', ',', ';', ':', '.', '=', '<', '>', '!', '~', '%', '^', '&', '|', '?',
            ' ', '\t', '\n', '\r', 'é', 'À', 'ß', '業', '\x00', ' ', '\ud800', '\x1f', '\x0c']


def alphabet():
    return list(ALPHABET)


def strings_upto(n, alpha=None):
    alpha = alpha or ALPHABET
    for k in range(0, n + 1):
        for t in itertools.product(alpha, repeat=k):
            yield ''.join(t)


FRAGMENTS = [
    'select', 'from', 'where', 'and', 'or', 'group by', 'order by', 'having', 'limit', 'union', 'union all', 'join',
    'left outer join', 'on', 'as', 'in', 'between', 'case', 'when', 'then', 'else', 'end', 'if', 'end if', 'for',
    'loop', 'end loop', 'while', 'end while', 'end case', 'begin', 'declare', 'create', 'create or replace', 'table', 'function', 'insert',
    'into', 'values', 'update', 'set', 'delete', 'with', 'over', 'asc', 'desc', 'null', 'not null', 'like', 'go',
    'distinct', 'returning', 'except', 'date', 'interval', 'timestamp', 'day', 'at time zone \'utc\'',
    'a', 'b', 'foo', 't1', 'x.y', '"q"', '`bt`', '[br]', '@v', 'f(', '1', '2.5', '1e3', "'s'", "'it''s'", '$$d$$',
    '$t$ ; $t$', '?', ':p', '%s', '(', ')', '[', ']', ',', ';', '.', '::', ':=', '=', '<', '>=', '<>', '+', '-', '*',
    '/', '||', '->', '-- c\n', '/* c */', '/*+ h */', '--+ h\n', '\\', '$1', 'case$1', '\x00',
]

SEPARATORS = [' ', '', '\n', '  ', '\t', ' /* c */ ', '\n-- c\n', '\r\n']


def soups(max_len, seed=0, count=None, seps=(' ',), fragments=None):
    """exhaustive (count None) or random token soups of up to max_len fragments"""
    fr = fragments or FRAGMENTS
    if count is None:
        for k in range(1, max_len + 1):
            for t in itertools.product(fr, repeat=k):
                for sp in seps:
                    yield sp.join(t)
        return
    rnd = random.Random(seed)
    for _ in range(count):
        k = rnd.randint(1, max_len)
        sp = rnd.choice(seps)
        parts = [rnd.choice(fr) for _ in range(k)]
        if rnd.random() < 0.3:
            yield ''.join(p + rnd.choice(SEPARATORS) for p in parts)
        else:
            yield sp.join(parts)


# --------------------------------------------------------------------------------------------- grammar

NAMES = ['a', 'b', 'foo', 'bar', 'tbl', 'col1', 'x', 'y', 'naïve', '業者', 'T1', 'my_col']
KEYWORDISH_NAMES = []
STRINGS = ["'s'", "'it''s'", "'a;b'", "''", "'x y'", "'sel--ect'", "'/* c */'", "'END'"]
NUMS = ['1', '0', '42', '2.5', '10', '1e3']
BINOPS = ['+', '-', '*', '/', '||']
CMPS = ['=', '<>', '!=', '<', '>', '<=', '>=', 'LIKE']
JOINS = ['JOIN', 'INNER JOIN', 'LEFT JOIN', 'LEFT OUTER JOIN', 'CROSS JOIN']
UNITS = ['DAY', 'HOUR', 'MINUTE', 'MONTH', 'SECOND', 'YEAR']
TYPES = ['int', 'text', 'varchar', 'integer', 'numeric']


class Grammar:
    """Random derivations of the verification grammar.  A derivation is a list of *lexemes* (strings that must not
    be split further) so that separators (whitespace / comments) can be chosen independently at every gap."""

    def __init__(self, seed=0, max_depth=3, kw_case='upper', allow=('case', 'subquery', 'cte', 'typed', 'cast')):
        self.r = random.Random(seed)
        self.max_depth = max_depth
        self.kw_case = kw_case
        self.allow = set(allow)

    # --- helpers
    def kw(self, w):
        if self.kw_case == 'upper':
            return w.upper()
        if self.kw_case == 'lower':
            return w.lower()
        if self.kw_case == 'mixed':
            return ''.join(c.upper() if i % 2 else c.lower() for i, c in enumerate(w))
        return w

    def ch(self, xs):
        return self.r.choice(xs)

    def p(self, x):
        return self.r.random() < x

    # --- lexical
    def name(self):
        n = self.ch(NAMES)
        q = self.r.random()
        if q < 0.12:
            return '"' + n + '"'
        if q < 0.2:
            return '`' + n + '`'
        return n

    def objname(self):
        if self.p(0.3):
            return [self.name(), '.', self.name()]
        return [self.name()]

    # --- expressions
    def atom(self, d):
        r = self.r.random()
        if d <= 0 or r < 0.35:
            return self.objname()
        if r < 0.5:
            return [self.ch(NUMS)]
        if r < 0.6:
            return [self.ch(STRINGS)]
        if r < 0.68:
            return ['('] + self.expr(d - 1) + [')']
        if r < 0.78:
            args = self.items(d - 1, self.r.randint(0, 3), alias=False)
            return [self.ch(['f', 'count', 'coalesce', 'my_fn']), '('] + args + [')']
        if r < 0.86 and 'case' in self.allow:
            return self.case_expr(d - 1)
        if r < 0.9 and 'subquery' in self.allow:
            return ['('] + self.select(d - 1) + [')']
        if r < 0.94 and 'cast' in self.allow:
            return self.objname() + ['::', self.ch(TYPES)]
        if r < 0.97 and 'typed' in self.allow:
            return [self.kw(self.ch(['DATE', 'TIMESTAMP'])), self.ch(["'2020-01-01'", "'2020-01-01 00:00:00'"])]
        return self.objname()

    def case_expr(self, d):
        out = [self.kw('CASE')]
        if self.p(0.3):
            out += self.atom(0)
        for _ in range(self.r.randint(1, 2)):
            out += [self.kw('WHEN')] + self.cond(d) + [self.kw('THEN')] + self.atom(d)
        if self.p(0.5):
            out += [self.kw('ELSE')] + self.atom(d)
        return out + [self.kw('END')]

    def expr(self, d):
        out = self.atom(d)
        for _ in range(self.r.randint(0, 2) if d > 0 else 0):
            out += [self.ch(BINOPS)] + self.atom(d - 1)
        return out

    def cond(self, d):
        out = self.expr(d) + [self.kw(self.ch(CMPS))] + self.expr(d)
        r = self.r.random()
        if d > 0 and r < 0.3:
            out += [self.kw(self.ch(['AND', 'OR']))] + self.cond(d - 1)
        elif d > 0 and r < 0.4:
            out = self.objname() + [self.kw('BETWEEN')] + self.atom(0) + [self.kw('AND')] + self.atom(0)
        elif d > 0 and r < 0.5:
            out = self.objname() + [self.kw('IN'), '('] + self.items(0, self.r.randint(1, 3), alias=False) + [')']
        return out

    def items(self, d, n, alias=True):
        out = []
        for i in range(n):
            if i:
                out.append(',')
            out += self.expr(d)
            if alias and self.p(0.3):
                if self.p(0.5):
                    out.append(self.kw('AS'))
                out.append(self.ch(['al', 'x1', '"Al"']))
        return out

    def ref(self, d):
        if d > 0 and self.p(0.15) and 'subquery' in self.allow:
            out = ['('] + self.select(d - 1) + [')']
            if self.p(0.5):
                out.append(self.kw('AS'))
            return out + [self.ch(['sq', 'sub1'])]
        out = self.objname()
        if self.p(0.35):
            if self.p(0.5):
                out.append(self.kw('AS'))
            out.append(self.ch(['t', 'u', 'v1']))
        return out

    def select(self, d):
        out = [self.kw('SELECT')]
        if self.p(0.1):
            out.append(self.kw('DISTINCT'))
        if self.p(0.15):
            out.append('*')
        else:
            out += self.items(d, self.r.randint(1, 3))
        if self.p(0.85):
            out += [self.kw('FROM')] + self.ref(d)
            for _ in range(self.r.randint(0, 2)):
                if self.p(0.5):
                    out += [','] + self.ref(d)
                else:
                    out += [self.kw(self.ch(JOINS))] + self.ref(d) + [self.kw('ON')] + self.cond(0)
            if self.p(0.5):
                out += [self.kw('WHERE')] + self.cond(d)
            if self.p(0.25):
                out += [self.kw('GROUP BY')] + self.items(0, self.r.randint(1, 2), alias=False)
                if self.p(0.4):
                    out += [self.kw('HAVING')] + self.cond(0)
            if self.p(0.3):
                out += [self.kw('ORDER BY')] + self.objname()
                if self.p(0.5):
                    out.append(self.kw(self.ch(['ASC', 'DESC'])))
            if self.p(0.2):
                out += [self.kw('LIMIT'), self.ch(NUMS[:4])]
        return out

    def query(self, d):
        out = []
        if self.p(0.12) and 'cte' in self.allow:
            out += [self.kw('WITH'), self.ch(['cte1', 'w']), self.kw('AS'), '('] + self.select(d - 1) + [')']
        out += self.select(d)
        if self.p(0.15):
            out += [self.kw(self.ch(['UNION', 'UNION ALL', 'EXCEPT']))] + self.select(d - 1)
        return out

    def insert(self, d):
        out = [self.kw('INSERT'), self.kw('INTO')] + self.objname()
        if self.p(0.6):
            out += ['('] + self.items(0, self.r.randint(1, 3), alias=False) + [')']
        if self.p(0.7):
            out += [self.kw('VALUES')]
            for i in range(self.r.randint(1, 2)):
                if i:
                    out.append(',')
                out += ['('] + self.items(0, self.r.randint(1, 3), alias=False) + [')']
        else:
            out += self.select(d - 1)
        return out

    def update(self, d):
        out = [self.kw('UPDATE')] + self.objname() + [self.kw('SET')]
        for i in range(self.r.randint(1, 2)):
            if i:
                out.append(',')
            out += [self.ch(NAMES[:6]), '='] + self.expr(0)
        if self.p(0.6):
            out += [self.kw('WHERE')] + self.cond(d - 1)
        return out

    def delete(self, d):
        out = [self.kw('DELETE'), self.kw('FROM')] + self.objname()
        if self.p(0.6):
            out += [self.kw('WHERE')] + self.cond(d - 1)
        return out

    def ddl(self, d):
        r = self.r.random()
        if r < 0.35:
            out = [self.kw('CREATE')]
            out += [self.kw('TABLE')] + self.objname() + ['(']
            for i in range(self.r.randint(1, 3)):
                if i:
                    out.append(',')
                out += [self.ch(NAMES[:6]), self.ch(TYPES)]
                if self.p(0.3):
                    out.append(self.kw(self.ch(['NOT NULL', 'PRIMARY KEY'])))
            return out + [')']
        if r < 0.55:
            return [self.kw(self.ch(['CREATE', 'CREATE OR REPLACE'])), self.kw('VIEW')] + self.objname() + \
                [self.kw('AS')] + self.select(d - 1)
        if r < 0.7:
            return [self.kw('CREATE'), self.kw('INDEX'), self.ch(['ix1', 'i2']), self.kw('ON')] + self.objname() + \
                ['('] + self.items(0, self.r.randint(1, 2), alias=False) + [')']
        if r < 0.85:
            return [self.kw('DROP'), self.kw(self.ch(['TABLE', 'VIEW']))] + self.objname()
        return [self.kw('ALTER'), self.kw('TABLE')] + self.objname() + [self.kw('ADD'), self.ch(NAMES[:6]),
                                                                        self.ch(TYPES)]

    def plain_stmt(self, d=None):
        d = self.max_depth if d is None else d
        r = self.r.random()
        if r < 0.5:
            return self.query(d)
        if r < 0.65:
            return self.insert(d)
        if r < 0.78:
            return self.update(d)
        if r < 0.88:
            return self.delete(d)
        return self.ddl(d)

    # --- procedural (C17)
    def pstmt(self, d, forms):
        r = self.r.random()
        if d <= 0 or r < 0.35:
            c = self.r.random()
            if c < 0.4:
                return self.update(1)
            if c < 0.6:
                return [self.ch(['v', 'cnt']), ':='] + self.expr(0)
            if c < 0.8:
                return self.insert(1)
            return [self.kw('RETURN')] + self.expr(0)
        opts = [f for f in forms]
        f = self.ch(opts)
        body = []
        for _ in range(self.r.randint(1, 2)):
            body += self.pstmt(d - 1, forms) + [';']
        if f == 'if':
            out = [self.kw('IF')] + self.cond(0) + [self.kw('THEN')] + body
            if self.p(0.4):
                out += [self.kw('ELSE')] + self.pstmt(d - 1, forms) + [';']
            return out + [self.kw('END IF')]
        if f == 'while_do':
            return [self.kw('WHILE')] + self.cond(0) + [self.kw('DO')] + body + [self.kw('END WHILE')]
        if f == 'loop':
            return [self.kw('LOOP')] + body + [self.kw('END LOOP')]
        if f == 'for_loop':
            return [self.kw('FOR'), 'i', self.kw('IN'), '1', '..', '3', self.kw('LOOP')] + body + [self.kw('END LOOP')]
        if f == 'while_loop':
            return [self.kw('WHILE')] + self.cond(0) + [self.kw('LOOP')] + body + [self.kw('END LOOP')]
        if f == 'block':
            return [self.kw('BEGIN')] + body + [self.kw('END')]
        if f == 'case_expr':
            return [self.ch(['v', 'cnt']), ':='] + self.case_expr(0)
        if f == 'case_stmt':
            out = [self.kw('CASE')]
            for _ in range(self.r.randint(1, 2)):
                out += [self.kw('WHEN')] + self.cond(0) + [self.kw('THEN')] + self.pstmt(0, forms) + [';']
            return out + [self.kw('END CASE')]
        raise ValueError(f)

    def proc(self, d=2, forms=('if', 'while_do', 'loop', 'block', 'case_expr'), declare=False):
        out = [self.kw(self.ch(['CREATE', 'CREATE OR REPLACE'])),
               self.kw(self.ch(['FUNCTION', 'PROCEDURE'])), self.ch(['fn1', 'do_it']), '(']
        if self.p(0.5):
            out += ['p1', 'int']
        out += [')']
        if self.p(0.4):
            out += [self.kw('RETURNS'), 'int']
        if self.p(0.5):
            out += [self.kw('AS')]
        if declare:
            out += [self.kw('DECLARE'), 'v', 'int', ';']
        out += [self.kw('BEGIN')]
        for _ in range(self.r.randint(1, 3)):
            out += self.pstmt(d, forms) + [';']
        return out + [self.kw('END')]


def render(lexemes, rnd=None, seps=(' ',), glue=False):
    """join lexemes with separators.  With glue=True punctuation may be glued without a blank where that cannot
    fuse two lexemes."""
    out = []
    for i, lx in enumerate(lexemes):
        if i:
            prev = lexemes[i - 1]
            sep = rnd.choice(seps) if rnd else seps[0]
            if glue and (prev in '(),;' or lx in '(),;') and (rnd.random() < 0.5 if rnd else True):
                sep = ''
            out.append(sep)
        out.append(lx)
    return ''.join(out)


# ----------------------------------------------------------------------------------- long scripts (stream block boundaries)

_BIG_UNITS = ["insert into notes values (%d, 'first part;\nsecond part');\n",
              "select a%d /* migration;\nnotes; */ from t;\n",
              "select %d, $$ body;\nmore; $$;\n",
              "select \"odd;\nname%d\" from t;\n",
              "select %d -- c;\n;\n",
              "select %d, $t$ x;\ny $t$ from u;\n",
              "select %d, 'it''s;\n''' from v;\n"]


def big_script(n_chars, salt=0):
    """(text, statements): a script of at least n_chars characters made of one-statement units in which EVERY line end lies
    inside a multi-line token (string, quoted name, dollar-quoted body, block comment) or directly behind a ';' that is
    itself inside such a token or a comment - whatever block size a reader uses, block boundaries fall inside tokens.
    `statements` are the units without their final newline."""
    out, size, k = [], 0, salt
    while size < n_chars:
        u = _BIG_UNITS[k % len(_BIG_UNITS)] % k
        out.append(u)
        size += len(u)
        k += 1
    return ''.join(out), [u[:-1] for u in out]



# ----------------------------------------------------------------------------------- keyword phrases of the lexer table

def keyword_phrase_texts():
    """every multi-word phrase that a rule of the real lexer table can match as ONE token (read off CPython's parse tree of
    the rule: LEFT OUTER JOIN, END IF, LATERAL VIEW EXPLODE, NOT NULL, ...), respelled with a tab, a line break + indent,
    two blanks and CR LF between the words, inside a small statement (code that takes such a token apart must put it back
    together character by character)"""
    from . import regexfacts
    try:
        from sqlparse import keywords
        rules = list(keywords.SQL_REGEX)
    except Exception:       # noqa
        return []
    out, seen = [], set()
    for rx, _a in rules:
        try:
            ph = regexfacts.phrases(rx)
        except Exception:   # noqa
            ph = None
        for p_ in sorted(ph or ()):
            if ' ' not in p_ or p_ in seen or not all(w.replace('_', '').isalnum() for w in p_.split(' ')):
                continue
            seen.add(p_)
            for sep in ('\t', '\n    ', '  ', '\r\n'):
                sp = p_.replace(' ', sep)
                out.append('select a from t %s (x) y where b = 1;' % sp)
                out.append('%s(arr) e' % sp.lower())
    return out
