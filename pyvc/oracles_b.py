"""Native oracles and bounded domains for C06, C07, C08, C10 (all about sqlparse.format and friends).

A case is plain data:

  C06, C08, C10:  (text, opts)              opts = sorted tuple of (option, value) items
  C07:            ('tree', text)            parse + split + every read-only accessor on every node
                  ('fmt', text, opts)       format with a VALID option set
                  ('invalid', text, base_opts, option, value, strict)
                                            format with one INVALID value added to a valid base set

The oracles call the real library, never raise, keep no state.  Expected values are computed from the lexer's
tokenisation of the INPUT (own comparison code, own nesting tracker), never from the tree under test.
"""
import itertools
import random
import re
import traceback

from pyvc import domain

__all__ = [
    'RULE_C06', 'cases_C06', 'oracle_C06', 'classify_C06', 'smoke_C06',
    'RULE_C07', 'cases_C07', 'oracle_C07', 'classify_C07', 'smoke_C07',
    'RULE_C08', 'cases_C08', 'oracle_C08', 'classify_C08', 'smoke_C08',
    'RULE_C10', 'cases_C10', 'oracle_C10', 'classify_C10', 'smoke_C10',
]


# =============================================================================================== shared

def _lib():
    import sqlparse
    from sqlparse import tokens as T
    from sqlparse import lexer
    return sqlparse, T, lexer


def _clip(s, n=160):
    s = s if isinstance(s, str) else repr(s)
    return s if len(s) <= n else s[:n] + '...[%d]' % len(s)


def _o(opts):
    return tuple(sorted(dict(opts).items()))


def _tokens(text):
    """all (ttype, value) pairs of the real lexer"""
    _, _, lexer = _lib()
    return list(lexer.tokenize(text))


def _is_comment(T, tt):
    return tt in T.Comment


def _is_hint(T, tt):
    return tt in T.Comment.Single.Hint or tt in T.Comment.Multiline.Hint


def _is_single_comment(T, tt):
    return tt in T.Comment.Single


def _sig(text):
    """significant tokens: everything whose type is not in T.Whitespace"""
    _, T, _ = _lib()
    return [(tt, v) for tt, v in _tokens(text) if tt not in T.Whitespace]


def _cmpval(T, tt, v):
    """The line terminator that the lexer attaches to a '--' comment is not comment text (the serializer is
    allowed to normalise line ends): compare single-line comments without it."""
    if _is_single_comment(T, tt):
        return v.rstrip('\r\n')
    if ('\r' in v) and (tt in T.Keyword or tt in T.Operator or tt is T.Name.Builtin):
        # multi-word keywords ('END\r\nIF', 'NOT\r\nLIKE', 'DOUBLE\r\nPRECISION') contain inter-word whitespace that
        # the lexer keeps inside the token; its line ends may be normalised like any other line end
        return v.replace('\r\n', '\n').replace('\r', '\n')
    return v


def _is_subseq(small, big):
    it = iter(big)
    return all(any(x == y for y in it) for x in small)


_WS_BEFORE_EOL = re.compile(r'[ \t\f\v]+(?=\r\n|\r|\n)')


def _soft_norm(v):
    return _WS_BEFORE_EOL.sub('', v).replace('\r\n', '\n').replace('\r', '\n').rstrip(' \t\f\v')


def _compare_sig(exp, got, what_prefix=''):
    """exp / got: lists of (ttype, value).  Returns None or (class, detail dict).  Values first, types second."""
    _, T, _ = _lib()
    ve = [_cmpval(T, tt, v) for tt, v in exp]
    vg = [_cmpval(T, tt, v) for tt, v in got]
    if ve == vg:
        # token TYPES are not part of the property statements (C06/C08 speak of the sequence of tokens: nothing
        # dropped, added, reordered, fused or split, values byte-identical); e.g. `WHERE(` lexes WHERE as a Name and
        # a line break inserted before `(` makes it a Keyword.  That is not reported.
        return None
    i = 0
    while i < len(ve) and i < len(vg) and ve[i] == vg[i]:
        i += 1
    det = {'index': i, 'expected_window': [_clip(x, 60) for x in ve[max(0, i - 2):i + 3]],
           'observed_window': [_clip(x, 60) for x in vg[max(0, i - 2):i + 3]]}
    if len(ve) == len(vg):
        diff = [k for k in range(len(ve)) if ve[k] != vg[k]]
        if all(_is_comment(T, exp[k][0]) and _is_comment(T, got[k][0]) for k in diff):
            if all(_soft_norm(ve[k]) == _soft_norm(vg[k]) for k in diff):
                return what_prefix + 'comment-altered:line-ends-or-trailing-blanks', det
            return what_prefix + 'comment-altered', det
        if all(exp[k][0] in T.Literal and got[k][0] in T.Literal for k in diff):
            return what_prefix + 'literal-altered', det
        if all(exp[k][0] in T.Name and got[k][0] in T.Name for k in diff):
            return what_prefix + 'name-altered', det
    if ''.join(ve) == ''.join(vg):
        return what_prefix + 'fused-or-split', det
    if _is_subseq(vg, ve):
        return what_prefix + 'dropped', det
    if _is_subseq(ve, vg):
        return what_prefix + 'added', det
    return what_prefix + 'changed', det


def _exc_site(e):
    """name of the innermost sqlparse function in the traceback (stable class name for grouping)"""
    try:
        frames = traceback.extract_tb(e.__traceback__)
        for fr in reversed(frames):
            if '/sqlparse/' in fr.filename.replace('\\', '/'):
                return fr.name
    except Exception:
        pass
    return '?'


def _fail(what, case, observed, expected, **extra):
    d = {'what': what, 'input': case, 'observed': observed, 'expected': expected}
    d.update(extra)
    return d


def _format(text, o):
    """-> (output, None) | (None, exception)"""
    sqlparse, _, _ = _lib()
    try:
        return sqlparse.format(text, **dict(o)), None
    except BaseException as e:    # noqa  (KeyboardInterrupt etc. are not expected inside a pool worker)
        if isinstance(e, (KeyboardInterrupt, SystemExit)):
            raise
        return None, e


# ------------------------------------------------------------------------------------------- text domain

_WS = [' ', ' ', ' ', '  ', '\n', '\t', '\n  ', ' \n']
_CM = [' /* c */ ', '/* c */', ' -- c\n', '\n-- c\n', '-- c\n', ' /* c */\n', '\n/* c */ ']
_CM_HINT = [' /*+ h */ ', ' --+ h\n', '/*+ h */']
_CM_ODD = [' /* a  \n  b */ ', ' -- c  \n', ' /* a\n b */ ']       # inner trailing blanks / inner line ends
_PUNCT = {'(', ')', ',', ';', '.', '::'}

ODD_TEXTS = [
    '', ' ', '\n', '\t \n', '\r\n', ';', ';;', ' ; ', "'", "'abc", '"abc', '`abc', '(', ')', '((', '))', '()', '( )',
    '(select 1', 'select 1)', '/*', '/* c', '*/', '--', '-- c', '--\n', 'select', 'from', 'where', 'and', 'or', 'case',
    'end', 'begin', 'when', 'select 1;', 'select * from', 'a,b', ',', '.', '::', ':=', '\x00', 'é', '業者',
    'select\r\n1', 'select\r1', 'select a from t where', 'case when', 'case end', 'between', 'a between b',
    'a between b and', 'values', 'insert into', 'group by', 'order by', 'union', 'join', 'f(', 'f()', 'f(a+b)', '[',
    ']', '[a]', 'a[1]', '$$', '$$a', '$a$ x $a$', '--+ h', '/*+ h */', 'select 1 /*', "select 'a", 'select "a',
    'select (1', 'select 1 -- c', 'select a from t;\n\n\n', '  select 1  ;  select 2  ', 'a.b.c', 'a.', '.a', 'a::',
    '::a', 'x := 1', 'over', 'f() over (', 'as', 'a as', 'as a', 'in', 'in (', 'a in ()', 'limit', 'set', 'update set',
    'select * from t where a = 1 and', 'select a, from t', 'select , a', 'create table t (', 'declare', 'if', 'end if',
    'select 1 union', 'with', 'with x as', 'with x as (', 'a<', '<', '-', 'a -', '- a', 'a - -1', "''", '""', '``',
    "'''", "''''", "'a''", 'e\'\\\'\'', '\\', '\\d', 'go', 'GO', 'select 1\nGO\nselect 2', 'select 1 GO select 2', 'select 1 go select 2',
    'select a/* c */as b', 'select 1; select 2', 'a b c d e f x := y := z;',
]


def _render(lexemes, rnd, comments=False, crlf=False, p_cm=0.12, rare=False, hints=False):
    """Join lexemes; each gap gets an independently chosen separator.  Without comments a gap is whitespace from
    _WS or (next to punctuation only, where nothing can fuse) empty.  With comments=True a gap is, with
    probability p_cm, a comment (glued or blank-delimited)."""
    out = []
    for i, lx in enumerate(lexemes):
        if i:
            prev = lexemes[i - 1]
            sep = rnd.choice(_WS)
            punct = prev in _PUNCT or lx in _PUNCT
            if punct and rnd.random() < (0.9 if (lx in '.,;)' or prev in '.(' or '::' in (lx, prev)) else 0.4):
                sep = ''
            if comments and rnd.random() < p_cm:
                r = rnd.random()
                if rare and r < 0.012:
                    cm = rnd.choice(_CM_ODD)
                elif hints and r < 0.16:
                    cm = rnd.choice(_CM_HINT)
                else:
                    cm = rnd.choice(_CM)
                # a glued comment directly after '-' or '/' would change the preceding lexeme: keep a blank there
                if prev[-1:] in '-/' and not cm[0].isspace():
                    cm = ' ' + cm
                sep = cm
            if crlf:
                sep = sep.replace('\n', '\r\n')
            out.append(sep)
        if lx in domain.STRINGS and rnd.random() < 0.04:
            lx = "'l1\r\n  l2'" if crlf else "'l1 \n  l2'"
        out.append(lx)
    return ''.join(out)


def _script(rnd, gseed, n_stmts=None, depth=2, comments=False, crlf=False, kw_case=None, rare=False, p_cm=0.12,
            hints=False):
    g = domain.Grammar(seed=gseed, max_depth=depth, kw_case=kw_case or rnd.choice(['upper', 'lower', 'upper', 'mixed']))
    n = n_stmts or rnd.choice([1, 1, 2, 3])
    lex = []
    for i in range(n):
        lex += g.plain_stmt()
        if i < n - 1 or rnd.random() < 0.4:
            lex.append(';')
    s = _render(lex, rnd, comments=comments, crlf=crlf, rare=rare, p_cm=p_cm, hints=hints)
    r = rnd.random()
    if r < 0.1:
        s = rnd.choice([' ', '\n', '  ']) + s
    elif r < 0.2:
        s = s + rnd.choice([' ', '\n', '  \n'])
    return s


def _grammar_texts(seed, n, comments=False, depth=2, crlf_share=0.0, rare=False, n_stmts=None, p_cm=0.12,
                   hints=False):
    rnd = random.Random(seed)
    for k in range(n):
        yield _script(rnd, seed * 100003 + k, depth=depth, comments=comments, crlf=rnd.random() < crlf_share,
                      rare=rare, n_stmts=n_stmts, p_cm=p_cm, hints=hints)


def _soup_texts(seed, n, max_len=8):
    return domain.soups(max_len, seed=seed, count=n, seps=(' ', ' ', '\n', '', '  ', '\t'))


# ------------------------------------------------------------------------------------------ option domain

_LAYOUT_BOOL = ['reindent', 'reindent_aligned', 'strip_whitespace', 'use_space_around_operators', 'indent_tabs',
                'indent_after_first', 'indent_columns', 'comma_first', 'compact']
_LAYOUT_NUM = {'indent_width': [1, 2, 4, 8], 'wrap_after': [0, 1, 20, 80]}
_LAYOUT_NAMES = _LAYOUT_BOOL + list(_LAYOUT_NUM)
_ACTIVATING = ['reindent', 'reindent_aligned', 'strip_whitespace', 'use_space_around_operators', 'indent_columns']


def _layout_values(name):
    return _LAYOUT_NUM.get(name, [True])


def _layout_singles_and_pairs():
    out = [()]
    for n in _LAYOUT_NAMES:
        for v in _layout_values(n):
            out.append(((n, v),))
    for a, b in itertools.combinations(_LAYOUT_NAMES, 2):
        for va in _layout_values(a):
            for vb in _layout_values(b):
                out.append(_o([(a, va), (b, vb)]))
    return out


def _layout_subset(rnd, size=None, force_active=True):
    k = size if size is not None else rnd.randint(3, len(_LAYOUT_NAMES))
    names = rnd.sample(_LAYOUT_NAMES, k)
    if force_active and not any(n in _ACTIVATING for n in names):
        names[0] = rnd.choice(_ACTIVATING)
    return _o([(n, rnd.choice(_layout_values(n))) for n in names])


# ================================================================================================= C06

RULE_C06 = (
    "case = (text, layout option set). Texts: seeded scripts of the verification grammar (pyvc.domain.Grammar, "
    "1-3 plain statements joined by ';', depth<=2, keywords upper/lower/mixed) rendered with an independently "
    "chosen separator in every gap (blank, two blanks, newline, tab, nothing next to punctuation); a second "
    "family puts comments ('/* c */', '-- c\\n', glued or blank-delimited, rarely a multi-line comment with "
    "inner trailing blanks, a hint) into random gaps and uses CR LF line ends in a quarter of the scripts; "
    "plus random token soups (<=8 fragments of pyvc.domain.FRAGMENTS) and ~130 hand-picked odd texts (empty, "
    "blank, unclosed quote/paren/comment, lone keywords). Options: none, each single layout option with each "
    "value (booleans True; indent_width in 1,2,4,8; wrap_after in 0,1,20,80), every pair with every value "
    "combination (142 sets, rotated over the scripts, 5 per script) and 2 seeded larger subsets per script "
    "(size 3..11, at least one option that activates a filter). Quick volume: 1700 + 1000 scripts x 7 sets, "
    "1200 soups x 4 sets, odd texts x 18 single sets. thorough: additionally all 2^11 subsets on 40 small "
    "scripts and 6x the quick volume. Oracle: re-tokenise input and output with the real lexer, drop "
    "T.Whitespace, require equal value sequences (the line terminator the lexer attaches to a '--' comment is "
    "not compared), report differing token types as class 'retyped', and require len(split(out)) == "
    "len(split(in)). A case where format() raises is vacuous here (C07 covers exceptions). Non-trivial: the "
    "text has >= 1 significant token and the option set activates >= 1 filter."
)


def _c06_optsets_for(k, fixed, rnd, n_fixed=5, n_big=2):
    out = [fixed[(k * n_fixed + j) % len(fixed)] for j in range(n_fixed)]
    out += [_layout_subset(rnd) for _ in range(n_big)]
    return out


# every operator between two operands, glued or spaced on either side (spacing filters must not turn an operator into
# something else, e.g. '#' followed by a blank into a comment opener)
OPERATOR_LAYOUTS = ['select ' + lay.replace('@', op) + ' from t'
                    for op in ('+', '-', '*', '/', '%', '#', '&', '|', '^', '||', '->', '->>', '#>', '<', '<=', '<>', '!=',
                               '=', '==', '~', '!~', '@>')
                    for lay in ('a@b', 'a @b', 'a@ b', '(a)@(b)', 'a @ b')]


def cases_C06(tier='quick', seed=0):
    fixed = _layout_singles_and_pairs()
    rnd = random.Random(seed * 7919 + 6)
    singles = [f for f in fixed if len(f) <= 1]
    # exhaustive part: odd texts x every single option
    for t in ODD_TEXTS + OPERATOR_LAYOUTS:
        for f in singles:
            yield (t, f)
    mult = 1 if tier == 'quick' else 6
    k = 0
    for t in _grammar_texts(seed * 10 + 1, 1700 * mult, comments=False, depth=2):
        for f in _c06_optsets_for(k, fixed, rnd):
            yield (t, f)
        k += 1
    for t in _grammar_texts(seed * 10 + 2, 1000 * mult, comments=True, depth=2, crlf_share=0.25, rare=True,
                            hints=True):
        for f in _c06_optsets_for(k, fixed, rnd):
            yield (t, f)
        k += 1
    for t in _soup_texts(seed * 10 + 3, 1200 * mult):
        for f in _c06_optsets_for(k, fixed, rnd, n_fixed=3, n_big=1):
            yield (t, f)
        k += 1
    if tier != 'quick':
        small = list(_grammar_texts(seed * 10 + 4, 25, comments=False, depth=1, n_stmts=1)) + \
            list(_grammar_texts(seed * 10 + 5, 15, comments=True, depth=1, n_stmts=2, rare=True))
        for t in small:
            for mask in range(1 << len(_LAYOUT_NAMES)):
                names = [n for i, n in enumerate(_LAYOUT_NAMES) if mask >> i & 1]
                yield (t, _o([(n, rnd.choice(_layout_values(n))) for n in names]))


def oracle_C06(case):
    sqlparse, T, _ = _lib()
    text, opts = case
    out, exc = _format(text, opts)
    if exc is not None:
        return None     # no output to judge; exceptions are C07's subject
    try:
        a = _sig(text)
        b = _sig(out)
    except Exception:   # the lexer is total (C01); if not, that is not this property's failure
        return None
    r = _compare_sig(a, b)
    if r is not None:
        what, det = r
        return _fail(what, case, dict(det, output=_clip(out, 240)), 'same significant tokens as the input')
    try:
        n_in = len(sqlparse.split(text))
        n_out = len(sqlparse.split(out))
    except Exception:
        return None
    if n_in != n_out:
        return _fail('statement-count', case, {'split_out': n_out, 'output': _clip(out, 240)}, {'split_in': n_in})
    return None


def classify_C06(case, failure):
    return None


def smoke_C06():
    return [
        ('select a, b from t where x = 1 and y = 2', _o({'reindent': True})),
        ('select a,b from t1 join t2 on t1.x=t2.y', _o({'reindent_aligned': True})),
        ("select  'it''s'  ,  \"Q q\" from   t ;  select 2", _o({'strip_whitespace': True})),
        ('select a+b*c from t where x<>1', _o({'use_space_around_operators': True})),
        ('select a /* c */ from t -- d\nwhere x = 1', _o({'reindent': True, 'comma_first': True, 'wrap_after': 20})),
        ('', _o({'reindent': True})),
        ('insert into t (a, b) values (1, 2), (3, 4)', _o({'reindent': True, 'indent_tabs': True, 'indent_width': 4})),
        ('select case when a = 1 then 2 else 3 end from t', _o({'reindent': True, 'compact': True})),
    ]


# ================================================================================================= C07

RULE_C07 = (
    "Three kinds of case. ('tree', text): parse(text), split(text), then an own stack walk over .tokens of the "
    "parsed forest calling every read-only accessor the node's class has (get_type; get_name/get_alias/"
    "get_real_name/get_parent_name/has_alias; token_first in all four flag combinations; flatten, get_sublists "
    "and get_identifiers/get_array_indices/get_parameters consumed; get_window; get_cases(skip_ws False/True); "
    "get_typecast/get_ordering/is_wildcard; Comparison.left/right; Comment.is_multiline). ('fmt', text, opts): "
    "format with a valid option set drawn from the options documented in docs/source/api.rst (keyword_case, "
    "identifier_case, strip_comments, truncate_strings + truncate_char, reindent, reindent_aligned, "
    "use_space_around_operators, indent_tabs, indent_width, wrap_after, compact, output_format, comma_first) "
    "plus strip_whitespace, indent_after_first, indent_columns which the C06 statement names as format() "
    "options; right_margin is NOT documented and its filter raises NotImplementedError on purpose, so it is "
    "left out. Allowed outcome: normal return or SQLParseError. ('invalid', text, base, option, value, strict): "
    "one invalid value for one option on top of a valid base set; strict values (wrong type, out of range, "
    "nan, inf, unknown name, negative / hugely negative ints, strings for booleans, None for numbers and "
    "booleans) must give SQLParseError and nothing else, also on texts that crash a filter; for borderline "
    "values (non-str truncate_char, 'PHP', floats that int() accepts) a normal return is tolerated but no "
    "other exception. Values that Python's == makes acceptable (1, 0, 1.0 for booleans) are not in the invalid "
    "set. Texts, quick: ALL token soups of <= 2 fragments (103 + 103^2) x {tree, 5 single-filter option sets, 1 "
    "rotating set}; all strings of length <= 2 over the 53-character class alphabet x {tree, 2 rotating sets}; "
    "3000 seeded soups of <= 8 fragments with mixed separators x {tree, 4 sets}; 700 grammar scripts (half with "
    "comments) x {tree, 3 sets}; ~130 odd texts x {tree, all 20 fixed sets}; all soups of 3 fragments over a "
    "24-fragment sub-alphabet of delimiters and group triggers x {tree, 5 single-filter sets}; every (option, "
    "invalid value) x 5 texts (2 of them crash a filter; used for strict values only) x 2 base sets. thorough: "
    "the 3-fragment soups over a 41-fragment sub-alphabet x {tree, 6 sets} and 10x the seeded volume. "
    "Non-trivial: text non-empty; for fmt cases the option set activates >= 1 filter."
)

_C07_FIXED = [_o(d) for d in [
    {}, {'reindent': True}, {'reindent_aligned': True}, {'strip_whitespace': True}, {'strip_comments': True},
    {'use_space_around_operators': True}, {'keyword_case': 'upper'}, {'identifier_case': 'capitalize'},
    {'truncate_strings': 3}, {'truncate_strings': 2, 'truncate_char': ''}, {'output_format': 'python'},
    {'output_format': 'php'}, {'output_format': 'sql'}, {'reindent': True, 'comma_first': True},
    {'reindent': True, 'indent_columns': True}, {'reindent': True, 'wrap_after': 20},
    {'reindent': True, 'compact': True}, {'reindent': True, 'indent_tabs': True, 'indent_after_first': True},
    {'reindent_aligned': True, 'strip_comments': True, 'use_space_around_operators': True},
    {'reindent': True, 'strip_comments': True, 'keyword_case': 'lower', 'identifier_case': 'upper',
     'use_space_around_operators': True, 'output_format': 'python', 'truncate_strings': 5, 'wrap_after': 1,
     'indent_width': 8, 'comma_first': True},
]]
_C07_CORE = [_o(d) for d in [{'reindent': True}, {'reindent_aligned': True}, {'strip_whitespace': True},
                             {'strip_comments': True}, {'use_space_around_operators': True}]]
_C07_REST = [f for f in _C07_FIXED if f not in _C07_CORE]

_VALID = {
    'keyword_case': ['upper', 'lower', 'capitalize', None],
    'identifier_case': ['upper', 'lower', 'capitalize', None],
    'output_format': [None, 'sql', 'python', 'php'],
    'strip_comments': [True, False],
    'truncate_strings': [2, 3, 5, 10, 10 ** 30, None],
    'reindent': [True, False], 'reindent_aligned': [True, False], 'strip_whitespace': [True, False],
    'use_space_around_operators': [True, False], 'indent_tabs': [True, False], 'indent_after_first': [True, False],
    'indent_columns': [True, False], 'comma_first': [True, False], 'compact': [True, False],
    'indent_width': [1, 2, 4, 8], 'wrap_after': [0, 1, 20, 80],
}
_VALID_TRUNC_CHAR = ['[...]', '...', '', '~', '…']


def _rand_valid_opts(rnd, p=0.3):
    d = {}
    for name, vals in _VALID.items():
        if rnd.random() < p:
            d[name] = rnd.choice(vals)
    if d.get('truncate_strings') is not None and rnd.random() < 0.5:
        d['truncate_char'] = rnd.choice(_VALID_TRUNC_CHAR)
    return _o(d)


_NAN = float('nan')
_INF = float('inf')
_BAD_CASE = ['UPPER', 'title', '', 'upper ', 'swapcase', 1, 0, True, False, 1.5, _NAN, b'upper', ('upper',), ['upper'], {}]
_BAD_BOOL = ['yes', 'True', 'true', 'false', '', 'x', 2, -1, 0.5, _NAN, _INF, None, (), b'1', 10 ** 30, -10 ** 30, [], {}]
# (option, value, strict)
_INVALID = (
    [('keyword_case', v, True) for v in _BAD_CASE] + [('identifier_case', v, True) for v in _BAD_CASE] +
    [('output_format', v, True) for v in ['java', '', 'py', 1, True, 0, b'php', ('php',), 2.5, ['php'], {}]] +
    [('output_format', v, False) for v in ['PHP', 'SQL', 'Python']] +
    [(n, v, True) for n in ['strip_comments', 'use_space_around_operators', 'strip_whitespace', 'indent_columns',
                            'reindent', 'reindent_aligned', 'indent_after_first', 'indent_tabs', 'comma_first',
                            'compact'] for v in _BAD_BOOL] +
    [('truncate_strings', v, True) for v in [1, 0, -1, -10 ** 30, 'abc', '', 'x5', '0', '-3', _NAN, _INF, -_INF,
                                              (), (5,), b'x', 0.5, 1.0]] +
    [('truncate_strings', v, False) for v in [True, 2.5, b'5', '5']] +
    [('truncate_char', v, False) for v in [5, 1.5, b'..', ('a',), True, _NAN]] +
    [('indent_width', v, True) for v in [0, -1, -10 ** 30, 'x', '', None, _NAN, _INF, -_INF, (), b'x', (2,), '0',
                                          '-2']] +
    [('indent_width', v, False) for v in [0.5, 2.0, '4', True]] +
    [('wrap_after', v, True) for v in [-1, -10 ** 30, 'x', '', None, _NAN, _INF, -_INF, (), b'x', (2,), '-2', -1.5]] +
    [('wrap_after', v, False) for v in [-0.5, 2.0, '4', True]]
)
_INVALID_TEXTS = ['', 'select 1', "select 'aaaaaaaaaaaaaaaaaaaa', a, b from t where a = 1 and b in (1, 2)",
                  '( as ) over := ', 'case$1 a::end ']
_CRASH_TEXTS = _INVALID_TEXTS[-2:]
_INVALID_BASES = [_o({}), _o({'reindent': True, 'strip_comments': True, 'keyword_case': 'upper',
                              'use_space_around_operators': True, 'reindent_aligned': True})]

_SOUP3_QUICK = ['select', 'from', 'where', 'and', 'as', 'in', 'case', 'when', 'then', 'end', 'over', 'a', 'f(', '(', ')',
                '[', ']', ',', ';', '.', '::', ':=', '=', '-- c\n']
_SOUP3_FRAGMENTS = [
    'select', 'from', 'where', 'and', 'group by', 'order by', 'join', 'on', 'as', 'in', 'between', 'case', 'when',
    'then', 'else', 'end', 'values', 'set', 'over', 'union', 'a', 'x.y', '"q"', 'f(', '1', "'s'", '(', ')', '[', ']',
    ',', ';', '.', '::', ':=', '=', '-', '*', '/* c */', '-- c\n', 'case$1',
]


def _invalid_cases():
    for name, value, strict in _INVALID:
        for text in _INVALID_TEXTS:
            if not strict and text in _CRASH_TEXTS:
                continue    # a tolerated value lets formatting start; what the text then does is a 'fmt' matter
            for base in _INVALID_BASES:
                b = dict(base)
                b.pop(name, None)
                if name == 'truncate_char':
                    b['truncate_strings'] = 3
                yield ('invalid', text, _o(b), name, value, strict)


def cases_C07(tier='quick', seed=0):
    rnd = random.Random(seed * 7919 + 7)
    # --- exhaustive parts
    for t in ODD_TEXTS:
        yield ('tree', t)
        for f in _C07_FIXED:
            yield ('fmt', t, f)
    yield from _invalid_cases()
    k = 0
    for t in domain.soups(2):
        yield ('tree', t)
        for f in _C07_CORE:
            yield ('fmt', t, f)
        yield ('fmt', t, _C07_REST[k % len(_C07_REST)])
        k += 1
    for t in domain.strings_upto(2):
        yield ('tree', t)
        yield ('fmt', t, _C07_FIXED[1 + k % (len(_C07_FIXED) - 1)])
        yield ('fmt', t, _C07_FIXED[1 + (k * 7 + 3) % (len(_C07_FIXED) - 1)])
        k += 1
    for t in domain.soups(3, fragments=_SOUP3_QUICK if tier == 'quick' else _SOUP3_FRAGMENTS):
        yield ('tree', t)
        for f in _C07_CORE:
            yield ('fmt', t, f)
        if tier != 'quick':
            yield ('fmt', t, _C07_REST[k % len(_C07_REST)])
        k += 1
    # --- seeded parts
    mult = 1 if tier == 'quick' else 10
    for t in _soup_texts(seed * 10 + 1, 3000 * mult):
        yield ('tree', t)
        yield ('fmt', t, _C07_CORE[k % len(_C07_CORE)])
        yield ('fmt', t, _C07_FIXED[k % len(_C07_FIXED)])
        yield ('fmt', t, _rand_valid_opts(rnd))
        yield ('fmt', t, _rand_valid_opts(rnd, 0.5))
        k += 1
    for fam in (False, True):
        for t in _grammar_texts(seed * 10 + 2 + fam, 350 * mult, comments=fam, depth=3, crlf_share=0.2, rare=True):
            yield ('tree', t)
            yield ('fmt', t, _C07_FIXED[k % len(_C07_FIXED)])
            yield ('fmt', t, _rand_valid_opts(rnd))
            yield ('fmt', t, _rand_valid_opts(rnd, 0.5))
            k += 1


_ACCESSORS = [
    ('get_type', [{}]), ('get_name', [{}]), ('get_alias', [{}]), ('get_real_name', [{}]), ('get_parent_name', [{}]),
    ('has_alias', [{}]),
    ('token_first', [{}, {'skip_ws': False}, {'skip_cm': True}, {'skip_ws': False, 'skip_cm': True}]),
    ('flatten', [{}]), ('get_sublists', [{}]), ('get_identifiers', [{}]), ('get_parameters', [{}]),
    ('get_window', [{}]), ('get_cases', [{}, {'skip_ws': True}]), ('get_typecast', [{}]), ('get_ordering', [{}]),
    ('get_array_indices', [{}]), ('is_wildcard', [{}]), ('left', None), ('right', None), ('is_multiline', [{}]),
]


def _walk_accessors(stmts):
    """-> None | (class.accessor, exception, node text).  Own traversal over .tokens (no flatten/get_sublists)."""
    import sqlparse
    from sqlparse import sql
    from sqlparse.exceptions import SQLParseError
    stack = list(reversed(list(stmts)))
    while stack:
        node = stack.pop()
        if not isinstance(node, sql.TokenList):
            continue
        cls = type(node)
        for name, kwl in _ACCESSORS:
            if getattr(cls, name, None) is None:
                continue
            for kw in (kwl if kwl is not None else [None]):
                try:
                    if kw is None:
                        r = getattr(node, name)
                    else:
                        r = getattr(node, name)(**kw)
                    if hasattr(r, '__next__'):
                        for _ in r:
                            pass
                except SQLParseError:
                    pass
                except Exception as e:
                    return ('%s.%s' % (cls.__name__, name), e, str(node))
        toks = node.tokens
        if isinstance(toks, (list, tuple)):
            stack.extend(reversed(toks))
    return None


def oracle_C07(case):
    sqlparse, T, _ = _lib()
    from sqlparse.exceptions import SQLParseError
    kind = case[0]
    allowed = 'normal return or SQLParseError'
    if kind == 'fmt':
        _, text, opts = case
        out, exc = _format(text, opts)
        if exc is None or isinstance(exc, SQLParseError):
            return None
        return _fail('format:%s@%s' % (type(exc).__name__, _exc_site(exc)), case, _clip(repr(exc)), allowed)
    if kind == 'invalid':
        _, text, base, name, value, strict = case
        o = dict(base)
        o[name] = value
        out, exc = _format(text, o)
        if isinstance(exc, SQLParseError):
            return None
        if exc is None:
            if strict:
                return _fail('invalid-option-accepted:%s' % name, case, _clip(repr(out)), 'SQLParseError')
            return None
        return _fail('invalid-option:%s:%s@%s' % (name, type(exc).__name__, _exc_site(exc)), case, _clip(repr(exc)),
                     'SQLParseError before any formatting')
    if kind == 'tree':
        text = case[1]
        try:
            sqlparse.split(text)
        except SQLParseError:
            pass
        except Exception as e:
            return _fail('split:%s@%s' % (type(e).__name__, _exc_site(e)), case, _clip(repr(e)), allowed)
        try:
            stmts = sqlparse.parse(text)
        except SQLParseError:
            return None
        except Exception as e:
            return _fail('parse:%s@%s' % (type(e).__name__, _exc_site(e)), case, _clip(repr(e)), allowed)
        try:
            r = _walk_accessors(stmts)
        except Exception as e:      # a tree the walker cannot walk is C03's subject; do not raise
            return _fail('walk:%s' % type(e).__name__, case, _clip(repr(e)), 'a walkable tree')
        if r is not None:
            acc, e, node = r
            return _fail('accessor:%s:%s' % (acc, type(e).__name__), case,
                         {'exception': _clip(repr(e)), 'node': _clip(node, 80)}, allowed)
        return None
    return _fail('bad-case', case, kind, "'tree' | 'fmt' | 'invalid'")


def classify_C07(case, failure):
    return None


def smoke_C07():
    return [
        ('tree', 'select a.b as x, count(*) over (partition by c) from t where a = 1 order by 1 desc'),
        ('tree', "select case when a then b else c end, x::int, arr[1] from t; ;"),
        ('tree', ''),
        ('tree', "'unclosed (( /* "),
        ('fmt', 'select a, b from t where x = 1', _C07_FIXED[-1]),
        ('fmt', 'select (((', _o({'reindent': True})),
        ('fmt', 'case when', _o({'reindent_aligned': True})),
        ('invalid', 'select 1', (), 'keyword_case', 'UPPER', True),
        ('invalid', '( as ) over := ', _o({'strip_whitespace': True}), 'indent_width', -1, True),
        ('invalid', 'select 1', (), 'reindent', 'yes', True),
    ]


# ================================================================================================= C08

RULE_C08 = (
    "case = (text, opts) with exactly one targeted option: strip_comments=True | keyword_case in "
    "upper/lower/capitalize | identifier_case in upper/lower/capitalize | truncate_strings in 2,3,5,10 (with "
    "default marker or truncate_char in '...', '~', ''), alone or (a third of the cases) combined with one or "
    "two layout options. Texts: grammar scripts without comments, grammar scripts with comments in random gaps "
    "(for strip_comments: comment probability 0.25 per gap, hints and comment-after-comment included, CR LF in a "
    "fifth), token soups, odd texts; for truncate_strings the literals of the script are additionally "
    "lengthened / given doubled quotes. Oracle: expected significant tokens are computed from the lexer's "
    "tokenisation of the input (comments that are not Comment.*.Hint removed | value.upper()/lower()/"
    "capitalize() on types in T.Keyword | same on identifiers | quote + inner[:N] + marker + quote on "
    "String.Single with len(inner) > N) and compared with the re-tokenised output: values first, then types "
    "(class 'retyped'). identifier_case is lenient: tokens of type exactly Name must be converted, other Name "
    "subtypes (Builtin, Placeholder) and Symbols not starting with a double quote may or may not be, "
    "everything else must be unchanged; where the cut of a truncation falls inside a doubled quote a cut one "
    "character earlier or later is tolerated. Idempotence: a second pass with the same options must keep the "
    "significant tokens; when the targeted option is used alone also format(out) == out (a difference in "
    "whitespace only is its own class 'not-idempotent:whitespace-only'). Exceptions are vacuous here (C07). "
    "Quick volume: 900 + 900 grammar scripts x 4-5 option sets, 1500 soups x 4, ~140 odd texts x 14 targeted "
    "sets, 756 hand-made comment placements, 20 hand-made literals x 5 contexts x 7 truncation sets; thorough "
    "8x the seeded volume. Non-trivial: the text contains >= 1 token of the targeted kind."
)

_C08_TARGETS = (
    [{'strip_comments': True}] +
    [{'keyword_case': c} for c in ('upper', 'lower', 'capitalize')] +
    [{'identifier_case': c} for c in ('upper', 'lower', 'capitalize')] +
    [{'truncate_strings': n} for n in (2, 3, 5, 10)] +
    [{'truncate_strings': 3, 'truncate_char': '...'}, {'truncate_strings': 5, 'truncate_char': '~'},
     {'truncate_strings': 2, 'truncate_char': ''}]
)
_C08_LAYOUT_EXTRA = [{'strip_whitespace': True}, {'reindent': True}, {'use_space_around_operators': True},
                     {'reindent_aligned': True}, {'reindent': True, 'comma_first': True},
                     {'reindent': True, 'wrap_after': 20, 'indent_width': 4},
                     {'strip_whitespace': True, 'use_space_around_operators': True}]
_LONG_STRINGS = ["'abcdefghijklmnop'", "'ab''cd''ef'", "'''quoted'''", "'a b c d e f g'", "'x;y;z;w;v'", "'ééééééé'",
                 "'12'", "'123'", "'1234'", "'123456'", "'12345678901'", "'/* not a comment */'", "'-- nor this'",
                 "'a[...]'", "'abc[...]'"]


def _lengthen_strings(text, rnd):
    """replace some of the grammar's short literals by longer ones (token-level, via the real lexer)"""
    _, T, _ = _lib()
    out = []
    for tt, v in _tokens(text):
        if tt is T.String.Single and rnd.random() < 0.6:
            v = rnd.choice(_LONG_STRINGS)
        out.append(v)
    return ''.join(out)


def cases_C08(tier='quick', seed=0):
    rnd = random.Random(seed * 7919 + 8)
    mult = 1 if tier == 'quick' else 8
    sc = _o({'strip_comments': True})
    # exhaustive: odd texts x every targeted option
    for t in ODD_TEXTS:
        for d in _C08_TARGETS:
            yield (t, _o(d))
    # hand-made comment placements (every pair of comment kinds around / between tokens)
    cms = ['/* c */', '-- c\n', '/*+ h */', '--+ h\n', '/* a\n b */', '# c\n']
    for a in cms:
        for b in cms + ['']:
            for sep in ['', ' ', '\n']:
                for pat in ['select %s%s%s 1', 'select 1%s%s%s', '%s%s%sselect 1', 'select (%s%s%s1)',
                            'select a%s%s%s,b from t', 'select a from t;%s%s%sselect 2']:
                    yield (pat % (a, sep, b), sc)

    def targets_for(k, n):
        return [_o(_C08_TARGETS[(k * n + j) % len(_C08_TARGETS)]) for j in range(n)]

    k = 0
    # family 1: no comments; case filters and truncation
    for t in _grammar_texts(seed * 10 + 1, 900 * mult, comments=False, depth=2):
        t2 = _lengthen_strings(t, rnd)
        for o in targets_for(k, 4):
            d = dict(o)
            yield ((t2 if 'truncate_strings' in d else t), o)
        d = dict(rnd.choice(_C08_TARGETS))
        d.update(rnd.choice(_C08_LAYOUT_EXTRA))
        yield ((t2 if 'truncate_strings' in d else t), _o(d))
        k += 1
    # family 2: comments
    for t in _grammar_texts(seed * 10 + 2, 900 * mult, comments=True, depth=2, crlf_share=0.2, hints=True,
                            p_cm=0.25):
        yield (t, sc)
        for o in targets_for(k, 2):
            yield (t, o)
        d = dict(rnd.choice(_C08_TARGETS + [{'strip_comments': True}] * 6))
        d.update(rnd.choice(_C08_LAYOUT_EXTRA))
        yield (t, _o(d))
        k += 1
    # family 3: soups
    for t in _soup_texts(seed * 10 + 3, 1500 * mult):
        for o in targets_for(k, 3):
            yield (t, o)
        yield (t, sc)
        k += 1
    # truncation of hand-made literals in context
    for lit in _LONG_STRINGS + ["''", "'a'", "''''", "'''aaaaaaaaaaaaaaaaaa'", "'aaaa''", "e'abc\\'def'"]:
        for ctx in ['select %s', 'select %s from t', 'select f(%s,%s)', "select %s||%s", 'where a in (%s, %s)']:
            for d in _C08_TARGETS:
                if 'truncate_strings' in d:
                    yield (ctx.replace('%s', lit), _o(d))


def _c08_expected(T, toks, o):
    """-> list of (ttype, set_of_allowed_values_or_None_if_removed) for significant input tokens"""
    exp = []
    if o.get('strip_comments'):
        for tt, v in toks:
            if _is_comment(T, tt) and not _is_hint(T, tt):
                continue
            exp.append((tt, (v,)))
        return exp
    kc = o.get('keyword_case')
    ic = o.get('identifier_case')
    n = o.get('truncate_strings')
    ch = o.get('truncate_char', '[...]')
    for tt, v in toks:
        allowed = (v,)
        if kc and tt in T.Keyword:
            allowed = (getattr(str, kc)(v),)
        elif ic and tt is T.Name:
            allowed = (getattr(str, ic)(v),)
        elif ic and (tt in T.Name or (tt in T.String.Symbol and not v.lstrip().startswith('"'))):
            allowed = (v, getattr(str, ic)(v))
        elif n and tt is T.String.Single and len(v) >= 2:
            inner = v[1:-1]
            if len(inner) > n:
                heads = [inner[:n]]
                if (len(heads[0]) - len(heads[0].rstrip("'"))) % 2:
                    # the cut falls inside a doubled quote: tolerate a cut one character earlier or later
                    heads += [inner[:n - 1], inner[:n + 1]]
                allowed = tuple("'" + h + ch + "'" for h in heads)
        exp.append((tt, allowed))
    return exp


def _c08_targeted(o):
    return [k for k in ('strip_comments', 'keyword_case', 'identifier_case', 'truncate_strings') if o.get(k)]


def oracle_C08(case):
    sqlparse, T, _ = _lib()
    text, opts = case
    o = dict(opts)
    tg = _c08_targeted(o)
    if len(tg) != 1:
        return _fail('bad-case', case, tg, 'exactly one targeted option')
    tg = tg[0]
    alone = all(k in (tg, 'truncate_char') for k in o)
    out, exc = _format(text, opts)
    if exc is not None:
        return None
    try:
        a = _sig(text)
        b = _sig(out)
    except Exception:
        return None
    exp = _c08_expected(T, a, o)
    # pick, per position, the allowed value that the output shows (lenient alternatives), else the first
    resolved = []
    for i, (tt, allowed) in enumerate(exp):
        v = allowed[0]
        if len(allowed) > 1 and i < len(b) and len(exp) == len(b):
            for alt in allowed:
                if _cmpval(T, tt, alt) == _cmpval(T, b[i][0], b[i][1]):
                    v = alt
                    break
        resolved.append((tt, v))
    r = _compare_sig(resolved, b, what_prefix=tg + ':')
    if r is not None:
        what, det = r
        if tg == 'strip_comments':
            ve = [_cmpval(T, tt, v) for tt, v in resolved]
            vg = [_cmpval(T, tt, v) for tt, v in b]
            if _is_subseq(vg, ve):
                # which expected tokens are missing
                miss = []
                j = 0
                for (tt, v), cv in zip(resolved, ve):
                    if j < len(vg) and vg[j] == cv:
                        j += 1
                    else:
                        miss.append(tt)
                if miss and all(_is_hint(T, tt) for tt in miss):
                    what = 'strip_comments:hint-removed'
            elif any(_is_comment(T, tt) and not _is_hint(T, tt) for tt, _ in b):
                what = 'strip_comments:comment-kept'
        return _fail(what, case, dict(det, output=_clip(out, 240)), 'only the targeted tokens change')
    # idempotence
    out2, exc2 = _format(out, opts)
    if exc2 is not None:
        return None
    if out2 == out:
        return None
    try:
        b2 = _sig(out2)
    except Exception:
        return None
    r = _compare_sig(b, b2, what_prefix=tg + ':not-idempotent:')
    if r is not None:
        what, det = r
        return _fail(what, case, dict(det, first=_clip(out, 200), second=_clip(out2, 200)),
                     'second pass keeps the significant tokens')
    if alone:
        i = 0
        while i < len(out) and i < len(out2) and out[i] == out2[i]:
            i += 1
        return _fail(tg + ':not-idempotent:whitespace-only', case,
                     {'at': i, 'first': _clip(out[max(0, i - 30):i + 30]), 'second': _clip(out2[max(0, i - 30):i + 30])},
                     'format(out) == out')
    return None


def classify_C08(case, failure):
    return None


def smoke_C08():
    return [
        ('select a /* c */ from t -- x\nwhere b = 1', _o({'strip_comments': True})),
        ('select /*+ h */ a from t', _o({'strip_comments': True})),
        ('select a/* c */from t', _o({'strip_comments': True})),
        ('select a as "Q", `b` from Tbl where x like \'Sel\' -- Select\n', _o({'keyword_case': 'upper'})),
        ('Select Foo.Bar, "Quoted", \'Str\' From T1 order by 1', _o({'identifier_case': 'lower'})),
        ("select 'abcdefghijkl', 'ab', '' from t", _o({'truncate_strings': 3})),
        ("select 'abcdefghijkl' from t", _o({'truncate_strings': 5, 'truncate_char': '~'})),
        ('select a from t where b = 1 group by c', _o({'keyword_case': 'capitalize', 'reindent': True})),
    ]


# ================================================================================================= C10

RULE_C10 = (
    "case = (text, opts) with opts one of {strip_whitespace=True}, {use_space_around_operators=True}, "
    "{reindent=True + any combination of indent_width 1/2/4/8, indent_tabs, indent_after_first, indent_columns, "
    "wrap_after 0/1/20/80, comma_first, compact}. Texts: grammar scripts (1-3 statements, depth<=2) without "
    "comments (main family), a second family with comments in random gaps (CR LF in a fifth), and the odd "
    "texts. Every script is tried with the first two options and with 3 reindent sub-option sets (the plain one, "
    "one rotating through all 512 combinations, one seeded). Oracles work on the re-tokenised OUTPUT with an "
    "own nesting tracker: strip_whitespace -> first and last token not whitespace, no two adjacent whitespace "
    "tokens (whitespace inside a comment/literal token, including the line end of a '--' comment, is not "
    "counted), no whitespace token after a '(' or before a ')' of a matched pair unless a comment is on the "
    "other side of that whitespace or of that parenthesis (both readings of 'except next to a comment'), and "
    "format(out) == out; use_space_around_operators -> every token typed Operator/Comparison has a whitespace "
    "character or the text boundary on each side, and format(out) == out; reindent -> every keyword FROM, "
    "*JOIN, WHERE, AND/OR (except the AND of BETWEEN..AND), GROUP BY, ORDER BY, HAVING, LIMIT, UNION [ALL], "
    "EXCEPT, SET whose enclosing brackets are all subquery parentheses (first significant token SELECT), that "
    "is not inside CASE..END and that the lexer also types as a keyword in the INPUT (a word glued to '(' is a "
    "Name there; that retyping is C06's class 'retyped') is preceded on its line by whitespace only, and no "
    "line ends in a blank or tab outside a literal. Exceptions are vacuous here (C07). Quick volume: 2000 + "
    "1000 scripts x 5 option sets; thorough 8x plus all 512 reindent sub-option sets on 60 small scripts. "
    "Non-trivial: the script has >= 1 operator / parenthesis / clause keyword respectively."
)

_REINDENT_SUB = [('indent_width', [1, 2, 4, 8]), ('indent_tabs', [False, True]), ('indent_after_first', [False, True]),
                 ('indent_columns', [False, True]), ('wrap_after', [0, 1, 20, 80]), ('comma_first', [False, True]),
                 ('compact', [False, True])]


def _reindent_combos():
    out = []
    for vals in itertools.product(*[v for _, v in _REINDENT_SUB]):
        d = {'reindent': True}
        for (n, dom), v in zip(_REINDENT_SUB, vals):
            if v is not False and not (n == 'indent_width' and v == 2) and not (n == 'wrap_after' and v == 0):
                d[n] = v
        out.append(_o(d))
    return out


RESPELLED_CLAUSES = [
    'select a, count(*) from t where b = 1 group\tby a order\tby a',
    'select a, count(*) from t where b = 1 group\nby a having count(*) > 1 order  \t by a limit 3',
    'select a from t left\touter\njoin u on t.x = u.y inner\tjoin v on v.z = u.y where a = 1 union\tall select 2 from w',
    'select a from t cross\n join u where a between 1 and 2 and b = 3 or c = 4 order\r\nby a',
    'update t set a = 1 where b = 2',
    'select a from t natural\tjoin u full\touter\tjoin w on 1 = 1 except select 3 from x group   by y',
]
# row lists in comma-first layout (several whitespace characters in front of a separating comma)
COMMA_FIRST_ROWS = [
    'insert into t (a, b) values (1, 2)\n  , (3, 4)\n  , (5, 6)',
    'insert into t values (1)  ,  (2) \t, (3);',
    'select a\n     , b\n     , c from t',
    'select f(a \n , b  ,  c) from t where x in (1 , 2\n,3)',
]


def cases_C10(tier='quick', seed=0):
    rnd = random.Random(seed * 7919 + 10)
    combos = _reindent_combos()
    sw = _o({'strip_whitespace': True})
    so = _o({'use_space_around_operators': True})
    ri = _o({'reindent': True})
    for t in ODD_TEXTS:
        yield (t, sw)
        yield (t, so)
        yield (t, ri)
    # clause keywords of several words spelled with a tab, a line break or several blanks between the words
    # clause keywords nested in the arguments of a call / in a CASE inside a comparison, with a wrap_after that the
    # arguments fit into (the list layout must still descend into its items)
    wide = _o({'reindent': True, 'wrap_after': 60})
    for t in ('select a from t where coalesce(case when a = 1 and b = 2 then 1 end, 0) = 1',
              'select greatest(a, case when x > 1 or y > 2 then 1 else 0 end) from t',
              'select a from t where case when a = 1 and b = 2 then 1 else 0 end = 1 and c = 2',
              'select f(a, (select b from u where c = 1 and d = 2)) from t'):
        yield (t, ri)
        yield (t, wide)
    for t in COMMA_FIRST_ROWS:
        yield (t, sw)
        yield (t, ri)
        yield (t, so)
    for t in RESPELLED_CLAUSES:
        yield (t, ri)
        for c in combos[:6]:
            yield (t, c)
    mult = 1 if tier == 'quick' else 8
    k = 0
    fams = [dict(seed=seed * 10 + 1, n=2000 * mult, comments=False, depth=2),
            dict(seed=seed * 10 + 2, n=1000 * mult, comments=True, depth=2, crlf_share=0.2, rare=True, hints=True)]
    for fam in fams:
        for t in _grammar_texts(**fam):
            yield (t, sw)
            yield (t, so)
            yield (t, ri)
            yield (t, combos[k % len(combos)])
            yield (t, rnd.choice(combos))
            k += 1
    if tier != 'quick':
        for t in _grammar_texts(seed * 10 + 3, 60, comments=False, depth=1, n_stmts=1):
            for c in combos:
                yield (t, c)


def _offsets(toks):
    pos = 0
    out = []
    for tt, v in toks:
        out.append(pos)
        pos += len(v)
    return out


def _match_parens(T, toks):
    """own stack matcher over Punctuation '(' / ')': -> dict open_index -> close_index (matched pairs only)"""
    stack = []
    pairs = {}
    for i, (tt, v) in enumerate(toks):
        if tt is T.Punctuation and v == '(':
            stack.append(i)
        elif tt is T.Punctuation and v == ')' and stack:
            pairs[stack.pop()] = i
    return pairs


def _check_strip_whitespace(T, out):
    toks = _tokens(out)
    if not toks:
        return None
    ws = [tt in T.Whitespace for tt, _ in toks]
    if ws[0]:
        return 'strip_whitespace:leading-blank', {'output': _clip(out, 200)}
    if ws[-1]:
        return 'strip_whitespace:trailing-blank', {'output': _clip(out, 200)}
    offs = _offsets(toks)
    for i in range(1, len(toks)):
        if ws[i] and ws[i - 1]:
            return 'strip_whitespace:double-whitespace', {'at': offs[i - 1],
                                                          'context': _clip(out[max(0, offs[i - 1] - 25):offs[i] + 25])}
    pairs = _match_parens(T, toks)
    for a, b in pairs.items():
        if a + 1 < len(toks) and ws[a + 1]:
            j = a + 1
            while j < len(toks) and ws[j]:
                j += 1
            k = a - 1
            while k >= 0 and ws[k]:
                k -= 1
            if not (j < len(toks) and _is_comment(T, toks[j][0])) and not (k >= 0 and _is_comment(T, toks[k][0])):
                return 'strip_whitespace:blank-after-open-paren', {'at': offs[a],
                                                                   'context': _clip(out[max(0, offs[a] - 25):offs[a] + 25])}
        if b - 1 >= 0 and ws[b - 1]:
            j = b - 1
            while j >= 0 and ws[j]:
                j -= 1
            k = b + 1
            while k < len(toks) and ws[k]:
                k += 1
            if not (j >= 0 and _is_comment(T, toks[j][0])) and not (k < len(toks) and _is_comment(T, toks[k][0])):
                return 'strip_whitespace:blank-before-close-paren', {
                    'at': offs[b], 'context': _clip(out[max(0, offs[b] - 25):offs[b] + 25])}
    return None


def _check_spaces_around_operators(T, out):
    toks = _tokens(out)
    offs = _offsets(toks)
    for i, (tt, v) in enumerate(toks):
        if tt in T.Operator:         # Comparison is Operator.Comparison
            s, e = offs[i], offs[i] + len(v)
            left_ok = s == 0 or out[s - 1].isspace()
            right_ok = e == len(out) or out[e].isspace()
            if not (left_ok and right_ok):
                return ('use_space_around_operators:operator-not-spaced',
                        {'operator': v, 'at': s, 'context': _clip(out[max(0, s - 25):e + 25])})
    return None


_CLAUSE_WORDS = {'FROM', 'WHERE', 'AND', 'OR', 'GROUP BY', 'ORDER BY', 'HAVING', 'LIMIT', 'UNION', 'UNION ALL',
                 'EXCEPT', 'SET'}


def _check_reindent(T, out, text):
    toks = _tokens(out)
    offs = _offsets(toks)
    # A word glued to '(' is lexed as a Name ('WHERE(' ...): the filter sees no keyword there, and only the
    # re-tokenised output (where a line break now separates the two) shows one.  That retyping is reported by
    # C06; here such tokens are not counted as clause keywords.  Alignment by significant-token index.
    in_sig = [tt for tt, _ in _tokens(text) if tt not in T.Whitespace]
    out_sig_pos = {}
    cnt = 0
    for i, (tt, _) in enumerate(toks):
        if tt not in T.Whitespace:
            out_sig_pos[i] = cnt
            cnt += 1
    aligned = cnt == len(in_sig)
    sig_idx = [i for i, (tt, _) in enumerate(toks) if tt not in T.Whitespace and not _is_comment(T, tt)]
    nxt = {}
    for a, b in zip(sig_idx, sig_idx[1:]):
        nxt[a] = b
    ctx = ['top']
    between = [False]
    for i in sig_idx:
        tt, v = toks[i]
        if tt is T.Punctuation and v in '([' and v:
            kind = 'other'
            j = nxt.get(i)
            if v == '(' and j is not None and toks[j][0] is T.Keyword.DML and toks[j][1].upper() == 'SELECT':
                kind = 'sub'
            ctx.append(kind)
            between.append(False)
        elif tt is T.Punctuation and v in ')]' and v:
            if len(ctx) > 1:
                ctx.pop()
                between.pop()
        elif tt is T.Punctuation and v == ';':
            if len(ctx) == 1:
                between[-1] = False
        elif tt in T.Keyword:
            n = ' '.join(v.upper().split())
            if n == 'CASE':
                ctx.append('case')
                between.append(False)
                continue
            if n == 'END' and ctx[-1] == 'case':
                ctx.pop()
                between.pop()
                continue
            if not all(c in ('top', 'sub', 'case') for c in ctx):
                continue
            if 'case' in ctx and n not in ('AND', 'OR', 'BETWEEN'):
                continue      # inside CASE .. END only AND / OR (outside BETWEEN) are clause keywords of the statement
            if n == 'BETWEEN':
                between[-1] = True
                continue
            if n == 'AND' and between[-1]:
                between[-1] = False
                continue
            if n in _CLAUSE_WORDS or n == 'JOIN' or n.endswith(' JOIN'):
                if aligned and in_sig[out_sig_pos[i]] not in T.Keyword:
                    continue
                s = offs[i]
                ls = out.rfind('\n', 0, s) + 1
                if out[ls:s].strip() != '':
                    return ('reindent:clause-keyword-not-at-line-start:' + n,
                            {'keyword': v, 'at': s, 'line': _clip(out[ls:s + len(v) + 20])})
    # no line ends in a blank or tab (outside literals, whose bytes are left alone)
    lit = []
    for i, (tt, v) in enumerate(toks):
        if tt in T.Literal or (tt in T.Name and v[:1] in '`´['):
            lit.append((offs[i], offs[i] + len(v)))
    ends = [m.start() for m in re.finditer('\n', out)] + [len(out)]
    for p in ends:
        if p > 0 and out[p - 1] in ' \t':
            if any(a < p < b for a, b in lit):
                continue
            ls = out.rfind('\n', 0, p) + 1
            return 'reindent:line-ends-in-blank', {'at': p, 'line': _clip(repr(out[ls:p]))}
    return None


def oracle_C10(case):
    sqlparse, T, _ = _lib()
    text, opts = case
    o = dict(opts)
    out, exc = _format(text, opts)
    if exc is not None:
        return None
    try:
        if o.get('reindent'):
            r = _check_reindent(T, out, text)
            fixed = False
        elif o.get('strip_whitespace'):
            r = _check_strip_whitespace(T, out)
            fixed = True
        elif o.get('use_space_around_operators'):
            r = _check_spaces_around_operators(T, out)
            fixed = True
        else:
            return _fail('bad-case', case, opts, 'one of the three named options')
    except Exception:
        return None      # lexer failure on the output is not this property's subject
    if r is not None:
        what, det = r
        return _fail(what, case, det, 'normal form of the option')
    if fixed:
        out2, exc2 = _format(out, opts)
        if exc2 is None and out2 != out:
            name = 'strip_whitespace' if o.get('strip_whitespace') else 'use_space_around_operators'
            i = 0
            while i < len(out) and i < len(out2) and out[i] == out2[i]:
                i += 1
            return _fail(name + ':not-a-fixed-point', case,
                         {'first': _clip(out[max(0, i - 30):i + 30]), 'second': _clip(out2[max(0, i - 30):i + 30]),
                          'at': i}, 'format(out) == out')
    return None


def classify_C10(case, failure):
    return None


def smoke_C10():
    return [
        ('select  a ,  b   from  t  where ( a = 1 )  and  f( b , c ) > 2 ;  select 2 ', _o({'strip_whitespace': True})),
        ('select a+b, c||d from t where x<>1 and y>=2 and z like \'q\'', _o({'use_space_around_operators': True})),
        ('select a from t join u on t.x = u.y where a = 1 and b between 1 and 2 or c = 3 group by a having '
         'count(*) > 1 order by a limit 5', _o({'reindent': True})),
        ('update t set a = 1 where b = 2; delete from t where x in (select y from u where z = 1 and w = 2)',
         _o({'reindent': True, 'indent_width': 4, 'indent_tabs': True})),
        ('select a, b, c from t union all select d, e, f from u except select 1',
         _o({'reindent': True, 'comma_first': True, 'wrap_after': 20})),
        ('', _o({'strip_whitespace': True})),
        ('select a /* c */ from t -- d\nwhere x = 1 and y = 2', _o({'reindent': True})),
    ]
