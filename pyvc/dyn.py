"""Dynamically typed option values (for formatter.validate_options): a z3 datatype
      Dyn = None | Bool(b) | Int(i) | Float(kind, trunc, exact) | Str(s) | Other(id)
with Python's cross-type == (True == 1 == 1.0), truthiness and int() semantics.
'Other' stands for objects (lists, tuples, dicts, plain objects) for which int() raises TypeError and which are equal
to no literal; objects with custom __eq__/__int__/__bool__ are outside the modelled option domain (stated in evidence).
"""
import z3

from .symex import (Exec, Sym, SInt, SBool, SStr, PyExc, OutsideSubset, fresh, fresh_int)

_DYN = None


def dyn_sort():
    global _DYN
    if _DYN is None:
        D = z3.Datatype('Dyn')
        D.declare('DNone')
        D.declare('DBool', ('b', z3.BoolSort()))
        D.declare('DInt', ('i', z3.IntSort()))
        # kind: 0 finite, 1 +-inf, 2 nan ; fi = trunc(value) ; fexact = value is integral
        D.declare('DFloat', ('fk', z3.IntSort()), ('fi', z3.IntSort()), ('fexact', z3.BoolSort()))
        D.declare('DStr', ('s', z3.StringSort()))
        D.declare('DOther', ('oid', z3.IntSort()))
        _DYN = D.create()
    return _DYN


class SDyn(Sym):
    def __init__(self, z):
        self.z = z

    def __repr__(self):
        return 'SDyn(%s)' % self.z


class SDict(Sym):
    """executor-side dict with concrete str keys; every entry is (present: bool | z3 Bool, value)"""

    def __init__(self, entries):
        self.entries = entries

    def __repr__(self):
        return 'SDict(%s)' % sorted(self.entries)


def lift(ex, v):
    """engine value -> z3 Dyn term"""
    D = dyn_sort()
    if isinstance(v, SDyn):
        return v.z
    if v is None:
        return D.DNone
    if isinstance(v, bool):
        return D.DBool(z3.BoolVal(v))
    if isinstance(v, SBool):
        return D.DBool(v.z)
    if isinstance(v, int):
        return D.DInt(z3.IntVal(v))
    if isinstance(v, SInt):
        return D.DInt(v.z)
    if isinstance(v, str):
        return D.DStr(z3.StringVal(v))
    if isinstance(v, SStr):
        return D.DStr(v.z)
    raise OutsideSubset('cannot lift %r to Dyn' % (v,))


def well_formed(d):
    D = dyn_sort()
    return z3.Implies(D.is_DFloat(d), z3.And(D.fk(d) >= 0, D.fk(d) <= 2))


class DynExec(Exec):

    def truth_SDyn(self, v, st):
        D, d = dyn_sort(), v.z
        return z3.Or(z3.And(D.is_DBool(d), D.b(d)), z3.And(D.is_DInt(d), D.i(d) != 0),
                     z3.And(D.is_DFloat(d), z3.Not(z3.And(D.fk(d) == 0, D.fexact(d), D.fi(d) == 0))),
                     z3.And(D.is_DStr(d), z3.Length(D.s(d)) > 0), D.is_DOther(d))

    def none_SDyn(self, v, st):
        return dyn_sort().is_DNone(v.z)

    def _num_eq(self, d, n):
        D = dyn_sort()
        return z3.Or(z3.And(D.is_DBool(d), D.b(d) == z3.BoolVal(bool(n))) if n in (0, 1) else z3.BoolVal(False),
                     z3.And(D.is_DInt(d), D.i(d) == n),
                     z3.And(D.is_DFloat(d), D.fk(d) == 0, D.fexact(d), D.fi(d) == n))

    def eq_ext(self, a, b, st):
        if isinstance(b, SDyn) and not isinstance(a, SDyn):
            a, b = b, a
        if not isinstance(a, SDyn):
            return NotImplemented
        D, d = dyn_sort(), a.z
        if b is None:
            return D.is_DNone(d)
        if isinstance(b, bool):
            return self._num_eq(d, 1 if b else 0)
        if isinstance(b, int):
            return self._num_eq(d, b)
        if isinstance(b, str):
            return z3.And(D.is_DStr(d), D.s(d) == z3.StringVal(b))
        if isinstance(b, SStr):
            return z3.And(D.is_DStr(d), D.s(d) == b.z)
        if isinstance(b, SInt):
            return z3.Or(z3.And(D.is_DInt(d), D.i(d) == b.z), z3.And(D.is_DBool(d), z3.If(D.b(d), 1, 0) == b.z),
                         z3.And(D.is_DFloat(d), D.fk(d) == 0, D.fexact(d), D.fi(d) == b.z))
        if isinstance(b, SDyn):
            return a.z == b.z      # (identical terms; cross-type equality between two symbolic values not needed)
        return False

    def maybe_unhashable(self, v, st):
        """condition under which hashing v may raise TypeError: `Other` objects (lists, dicts, sets are among them)"""
        if isinstance(v, SDyn):
            return dyn_sort().is_DOther(v.z)
        return None

    def identical_ext(self, a, b, st):
        if isinstance(a, SDyn) and b is None or isinstance(b, SDyn) and a is None:
            return self.eq_ext(a, b, st)
        return NotImplemented

    def isinstance_ext(self, v, cls, st):
        if not isinstance(v, SDyn):
            return NotImplemented
        D, d = dyn_sort(), v.z
        if cls is str:
            return SBool(D.is_DStr(d))
        if cls is bool:
            return SBool(D.is_DBool(d))
        if cls is int:
            return SBool(z3.Or(D.is_DInt(d), D.is_DBool(d)))
        if cls is float:
            return SBool(D.is_DFloat(d))
        return False

    def int_of(self, v, st):
        if not isinstance(v, SDyn):
            return NotImplemented
        from .models import lib
        lib('int(x): TypeError for None/other objects, ValueError for nan and non-numeric str, OverflowError for inf')
        D, d = dyn_sort(), v.z
        res = []
        cases = [
            (D.is_DNone(d), ('raise', 'TypeError')),
            (D.is_DOther(d), ('raise', 'TypeError')),
            (D.is_DBool(d), ('val', z3.If(D.b(d), z3.IntVal(1), z3.IntVal(0)))),
            (D.is_DInt(d), ('val', D.i(d))),
            (z3.And(D.is_DFloat(d), D.fk(d) == 0), ('val', D.fi(d))),
            (z3.And(D.is_DFloat(d), D.fk(d) == 1), ('raise', 'OverflowError')),
            (z3.And(D.is_DFloat(d), D.fk(d) == 2), ('raise', 'ValueError')),
            (D.is_DStr(d), ('str', None)),
        ]
        from . import smt
        # exceptional outcomes fork; all normal outcomes stay in ONE state with an ite result
        ok_conds, val = [], fresh('int_of_str', z3.IntSort())
        for cond, (kind, x) in reversed(cases):
            if kind == 'raise':
                if smt.feasible(st.pc + [cond]):
                    s = st.fork()
                    s.assume(cond)
                    s.trace.append('int():%s' % x)
                    self.raise_on(s, x, 'int()')
            elif kind == 'val':
                ok_conds.append(cond)
                val = z3.If(cond, x, val)
            else:
                ok_conds.append(cond)
                if smt.feasible(st.pc + [cond]):
                    s2 = st.fork()
                    s2.assume(cond)
                    s2.trace.append('int():ValueError(str)')
                    self.raise_on(s2, 'ValueError', 'int(non-numeric str)')
        ok = z3.Or(*ok_conds)
        if smt.feasible(st.pc + [ok]):
            st.assume(ok)
            st.trace.append('int():value')
            res.append((st, SInt(val)))
        return res

    # ---- dicts of options: a record of kind 'dict' whose fields 'k:<key>' hold (present, value)
    def make_dict(self, st, entries):
        f = {'k:' + k: v for k, v in entries.items()}

        def get(ex, self_, args, kw, s):
            k = args[0]
            dflt = args[1] if len(args) > 1 else None
            if not isinstance(k, str):
                raise OutsideSubset('dict.get with non-constant key')
            ent = s.objs[self_.oid].get('k:' + k)
            if ent is None:
                return [(s, dflt)]
            has, val = ent
            if has is True:
                return [(s, val)]
            if has is False:
                return [(s, dflt)]
            return [(s, SDyn(z3.If(has, lift(ex, val), lift(ex, dflt))))]
        f['__methods__'] = {'get': get}
        return self.new_obj(st, 'dict', f)

    def store_index_ext(self, o, i, v, st):
        from .symex import Rec
        if isinstance(o, Rec) and o.kind == 'dict':
            if not isinstance(i, str):
                raise OutsideSubset('dict store with non-constant key')
            st.objs[o.oid]['k:' + i] = (True, v)
            return [st]
        return NotImplemented

    def index_ext(self, o, i, st):
        from .symex import Rec
        if isinstance(o, Rec) and o.kind == 'dict':
            if not isinstance(i, str):
                raise OutsideSubset('dict index with non-constant key')
            ent = st.objs[o.oid].get('k:' + i)
            if ent is None:
                raise PyExc('KeyError', i)
            has, val = ent
            if has is True:
                return [(st, val)]
            if has is False:
                raise PyExc('KeyError', i)
            res = []
            for s, b in self.decide(st, has):
                if b:
                    s.objs[o.oid]['k:' + i] = (True, val)
                    res.append((s, val))
                else:
                    self.raise_on(s, 'KeyError', i)
            return res
        return NotImplemented

    def merge_ext(self, a, b, c):
        try:
            return SDyn(z3.If(c, lift(self, a), lift(self, b)))
        except OutsideSubset:
            return NotImplemented

    def fresh_like_ext(self, v, name):
        if isinstance(v, SDyn):
            return SDyn(fresh(name, dyn_sort()))
        return NotImplemented
