"""Native oracles and bounded case generators for C01, C02, C03, C04, C05, C09, C14, C17.

Every oracle is an executable transcription of the property statement in /verif/properties.jsonl.  It calls the real
library, computes the expected value with its own code (own tree walker, own stack matcher, own neighbour search,
own rule table lookup) and returns None (holds) or a small dict describing the failure.  Oracles never raise.
"""
import functools
import itertools
import random
import traceback

from pyvc import domain

__all__ = ['%s_%s' % (kind, prop) for prop in ('C01', 'C02', 'C03', 'C04', 'C05', 'C09', 'C14', 'C17')
           for kind in ('RULE', 'cases', 'oracle', 'classify', 'smoke')]


# ------------------------------------------------------------------------------------------------ common helpers

_LIB = None


def _lib():
    """(sqlparse, sql, T, lexer, keywords) -- module references only, cached"""
    global _LIB
    if _LIB is None:
        import sqlparse
        from sqlparse import sql, tokens, lexer, keywords
        _LIB = (sqlparse, sql, tokens, lexer, keywords)
    return _LIB


def _clip(x, n=160):
    s = x if isinstance(x, str) else repr(x)
    return s if len(s) <= n else s[:n] + '...(%d)' % len(s)


def _fail(what, inp, observed=None, expected=None, **extra):
    d = {'what': what, 'input': _clip(inp, 300) if isinstance(inp, str) else inp,
         'observed': observed if isinstance(observed, (int, type(None))) else _clip(observed, 300),
         'expected': expected if isinstance(expected, (int, type(None))) else _clip(expected, 300)}
    d.update(extra)
    return d


def _exc(e, inp, where=''):
    return {'what': 'exception:' + type(e).__name__, 'input': _clip(inp, 300) if isinstance(inp, str) else inp,
            'observed': _clip('%s: %s' % (type(e).__name__, e), 200), 'expected': 'no exception', 'where': where}


def _total(fn):
    """last line of defence: an oracle never raises"""
    @functools.wraps(fn)
    def wrapper(case):
        try:
            return fn(case)
        except Exception as e:      # noqa: BLE001 -- by construction unreachable; reported, never propagated
            return {'what': 'unexpected-exception:' + type(e).__name__, 'input': _clip(case, 300),
                    'observed': traceback.format_exc()[-600:], 'expected': 'no exception'}
    return wrapper


def _is_parse_error(e):
    try:
        from sqlparse.exceptions import SQLParseError
        return isinstance(e, SQLParseError)
    except Exception:   # noqa: BLE001
        return False


def _isspace(s):
    return s == '' or s.isspace()


UNUSUAL_TEXTS = [
    '', ' ', '\n', '\r', '\r\n', '\t', ' \n ', ';', ';;', ' ; ', ';\n;', "'", "''", "'''", '"', '""', '`', '``', '´',
    # batch separator GO in every position relative to line starts and terminators
    'go', 'GO', 'select 1\ngo\nselect 2', 'select 1 go select 2', 'use foo; go\nselect 1;', 'use foo; GO 2\nselect 1;',
    'select 1;\n  go\nselect 2', 'select 1; -- c\ngo\nselect 2', 'select 1 go\n', 'go select 1', 'select 1; go; select 2',
    'select 1 /* c */ go\nselect 2', 'select 1\r\nGO\r\nselect 2',
    '/*', '/**/', '/* ; ', '*/', '--', '-- ;', '--\n', '#', '# c', '# ', 'select 1; # ', 'select 1 # \t', 'select 1; -- ', 'x #\n', '(', ')', '((', '))', ')(', '(;', ';)', '[', ']', '[;]',
    '$$', '$$;', '$$ ; $$', '$a$ ; $a$', '$a$ ; $b$', '$', '$1', 'é', 'É;é', '業', '業者 ; 業', '\x00', '\x00;\x00',
    '\ud800', "'\ud800", '\x1f', '\x0c', '\xa0', 'select', 'select 1', 'select 1;', 'select 1; ', 'select 1;\n\n',
    'select 1;select 2', 'select 1 ;; select 2', "select 'a;b'; select 2", "select 'unclosed ; select 2",
    'select "unclosed ; select 2', 'select /* unclosed ; select 2', 'select (1; select 2', 'select 1); select 2',
    'select 1 -- c ; x\nfrom t;', 'select 1 -- c ; x\r\nfrom t;', 'select 1 -- c ; x\rfrom t;', 'a\rb\r\nc\nd',
    'select * from t where a = 1 and b in (1, 2, 3) order by a', 'select a.*, b.c as d from a join b on a.x = b.y',
    'insert into t (a, b) values (1, 2), (3, 4);', 'update t set a = 1, b = 2 where c = 3;',
    'create table t (a int, b text not null);', 'case when a then b else c end', 'select case when 1 then 2 end from t',
    'begin; select 1; end;', 'begin select 1; end', 'if x then y; end if;', 'for i in 1..3 loop x; end loop;',
    'create function f() returns int as $$ begin return 1; end $$ language plpgsql; select 2',
    'CREATE PROCEDURE p() BEGIN SELECT 1; SELECT 2; END; SELECT 3;', 'declare x int; begin x := 1; end;',
    'select 1\nGO\nselect 2', 'select 1 go select 2', 'GO 2', 'a := b := c;', 'p q r s x := := b ;', 'x::int::text',
    'a[1][2]', '[a].[b]', 'f(g(h(1)))', '((((a))))', '(a::)', '( as )', 'case$1 a::end', 'a as', 'as b', 'a . b',
    'select 1 /* a */ /* b */ from t', 'select /*+ h */ 1', 'select --+ h\n 1', "x at time zone 'utc'", 'a -> b ->> c',
    'a <> b != c', '1e3 2.5 .5 5. 0x1F -1', "date '2020-01-01'", "interval '1' day", 'not null', 'union all select',
    'order by a desc nulls last', 'over (partition by a)', 'values (1)', '%s %(name)s :p ?', '\\d foo', '@v @@v ##t #t',
    'naïve', 'NAÏVE', 'ß', 'a\x00b', "'\x00'", 'select 1;\x00', 'end if', 'end  if', 'end\nloop', 'END WHILE',
]


def _soup_texts(tier, seed, salt):
    """texts shared by C02/C03/C04: unusual inputs, exhaustive soups of <= 2 fragments, random soups, grammar scripts"""
    for t in UNUSUAL_TEXTS:
        yield t
    for t in domain.keyword_phrase_texts():
        yield t
    seps2 = (' ', '') if tier == 'quick' else (' ', '', '\n', ' /* c */ ')
    for t in domain.soups(2, seps=seps2):
        yield t
    n_rand = 6000 if tier == 'quick' else 120000
    for t in domain.soups(12, seed=seed * 7919 + salt, count=n_rand, seps=tuple(domain.SEPARATORS)):
        yield t
    n_gram = 2500 if tier == 'quick' else 40000
    for t in _grammar_scripts(seed * 104729 + salt + 1, n_gram):
        yield t
    if tier != 'quick':
        rnd = random.Random(seed * 31 + salt + 2)
        fr = domain.FRAGMENTS
        for _ in range(150000):
            yield rnd.choice((' ', '', '\n')).join(rnd.choice(fr) for _ in range(3))


INNER_SEPS = (' ', ' ', ' ', '\n', '  ', '\t', ' /* c */ ', '\n-- c\n', '\r\n', '\r', ' --+ h\n', '/**/')
PLAIN_SEPS = (' ', ' ', ' ', '\n', '  ', '\n  ')


def _grammar_scripts(seed, count):
    """random scripts of the verification grammar: 1..3 statements (plain, sometimes procedural), random separators"""
    rnd = random.Random(seed)
    for i in range(count):
        g = domain.Grammar(seed=rnd.randrange(1 << 30), max_depth=rnd.choice((1, 2, 2, 3)),
                           kw_case=rnd.choice(('upper', 'lower', 'mixed', 'upper')))
        parts = []
        for _ in range(rnd.randint(1, 3)):
            if rnd.random() < 0.12:
                lx = g.proc(d=rnd.choice((1, 2)))
            else:
                lx = g.plain_stmt()
            seps = INNER_SEPS if rnd.random() < 0.5 else PLAIN_SEPS
            parts.append(domain.render(lx, rnd, seps=seps, glue=rnd.random() < 0.5))
        out = []
        for j, p in enumerate(parts):
            out.append(p)
            if j < len(parts) - 1 or rnd.random() < 0.6:
                out.append(rnd.choice(('', ' ', '\n', ' /* c */ ')) + ';' +
                           rnd.choice(('', ' ', '\n', '\r\n', ' -- c\n', '\n\n', ' /* c */ ', '\n-- c\r\n')))
        yield ''.join(out)


# ======================================================================================================== C01

RULE_C01 = ('C01: quick = every string of length <= 3 over the 53-character class alphabet domain.ALPHABET (one or two '
            'representatives of every character class of SQL_REGEX incl. NUL, lone surrogate, CR, non-ASCII; 151 740 '
            'strings, exhaustive), every string of length <= 3 over 12 transform-sensitive symbols (full-width letter, ligature, dotless i, Kelvin sign, titlecase digraph, superscript, long s, combining accent: what case mapping or Unicode normalisation would rewrite), the hand-picked unusual texts, all ordered pairs of 36 short texts as "interleave" '
            'cases (two live token generators consumed alternately must each equal a fresh sequential run), exhaustive '
            'soups of <= 2 lexical fragments glued without separator and 5 000 seeded random soups of <= 12 fragments. '
            'thorough adds every string of length 4 over a 33-character sub-alphabet (1.19 M) and 600 000 seeded random '
            'strings of length 4..8 over the full alphabet.  A case is non-trivial when it is non-empty; the oracle '
            'checks the partition, non-emptiness, one-character Error tokens and "position where no rule of the real '
            'SQL_REGEX matches => (Error, that character)" with its own compiled copy of the table.')

_RULES = [None, None]


def _own_rules():
    """own compiled copy of the real rule table (recompiled if the table object changed)"""
    import re
    kw = _lib()[4]
    src = kw.SQL_REGEX
    key = (id(src), len(src))
    if _RULES[0] != key:
        _RULES[1] = [(re.compile(rx, re.IGNORECASE | re.UNICODE), act) for rx, act in src]
        _RULES[0] = key
    return _RULES[1]


def _c01_check(text, toks, rules, T):
    pos = 0
    n = len(text)
    for item in toks:
        if not (isinstance(item, tuple) and len(item) == 2):
            return _fail('bad-token-item', text, repr(item), '(ttype, value)')
        tt, v = item
        if not isinstance(v, str) or v == '':
            return _fail('empty-token', text, repr(item), 'non-empty str value')
        if text[pos:pos + len(v)] != v:
            return _fail('not-a-partition', text, ''.join(str(x[1]) for x in toks), text, at=pos)
        if tt is T.Error and len(v) != 1:
            return _fail('long-error-token', text, repr(item), 'one character')
        recognised = False
        for rx, _ in rules:
            if rx.match(text, pos):
                recognised = True
                break
        if not recognised and not (tt is T.Error and len(v) == 1):
            return _fail('unrecognised-char-not-error', text, repr(item), repr((T.Error, text[pos])), at=pos)
        pos += len(v)
    if pos != n:
        return _fail('not-a-partition', text, ''.join(str(x[1]) for x in toks), text, at=pos)
    return None


@_total
def oracle_C01(case):
    _, _, T, lexer, _ = _lib()
    rules = _own_rules()
    if isinstance(case, tuple):
        _, t1, t2 = case
        try:
            g1, g2 = lexer.tokenize(t1), lexer.tokenize(t2)
            o1, o2 = [], []
            live1 = live2 = True
            while live1 or live2:
                if live1:
                    try:
                        o1.append(next(g1))
                    except StopIteration:
                        live1 = False
                if live2:
                    try:
                        o2.append(next(g2))
                    except StopIteration:
                        live2 = False
            e1, e2 = list(lexer.tokenize(t1)), list(lexer.tokenize(t2))
        except Exception as e:   # noqa: BLE001
            return _exc(e, case, 'tokenize (interleaved)')
        if o1 != e1:
            return _fail('interleaving-changes-tokens', case, repr(o1), repr(e1))
        if o2 != e2:
            return _fail('interleaving-changes-tokens', case, repr(o2), repr(e2))
        return _c01_check(t1, o1, rules, T) or _c01_check(t2, o2, rules, T)
    text = case
    try:
        toks = list(lexer.tokenize(text))
    except Exception as e:   # noqa: BLE001
        return _exc(e, text, 'lexer.tokenize')
    r = _c01_check(text, toks, rules, T)
    if r is not None:
        return r
    try:
        toks2 = list(lexer.Lexer.get_default_instance().get_tokens(text))
    except Exception as e:   # noqa: BLE001
        return _exc(e, text, 'Lexer.get_tokens')
    if toks2 != toks:
        r = _c01_check(text, toks2, rules, T)
        if r is not None:
            r['where'] = 'Lexer.get_tokens'
            return r
    return None


SUB_ALPHABET = ['a', 'E', '_', '0', '$', '#', '@', "'", '"', '`', '-', '+', '*', '/', '\\', '(', ')', '[', ']', ',', ';',
                ':', '.', '=', '!', '%', '?', ' ', '\n', '\r', 'é', '\x00', '\ud800']

_INTERLEAVE = ['', 'a', ' ', 'select 1', "'a;b'", "'unclosed", '/* c */ x', '-- c\nx', '$$ b $$', '$t$ b $t$ y', 'a.b', 'f(1)',
               'end if', 'order by a', '\x00', 'é業', '\ud800', 'x\r\ny', '1e3 2.5', 'a := b', 'case when a then b end',
               'select * from t where a <> 1;', '"q" `b` [c]', ':p ?', 'left outer join', 'go 2', 'not null', "'it''s'",
               ';', ';;', '((', '--', '/*', "at time zone 'utc'", 'create or replace', 'À']


# characters that Unicode case mapping or normalisation rewrites (full-width, ligature, dotless i, Kelvin sign, titlecase
# digraph, superscript, long s, combining mark): a lexer that upper-cases / folds / normalises a lexeme before handing it on
# shows up here
TRANSFORM_SENSITIVE = ['\uff33', '\ufb01', '\u0131', '\u212a', '\u01c5', '\u00b2', '\u017f', 'e\u0301', 'a', 'S', ' ', "'"]


def cases_C01(tier, seed):
    for s in domain.strings_upto(3):
        yield s
    for s in domain.strings_upto(3, TRANSFORM_SENSITIVE):
        yield s
    for w in ('\uff33\uff25\uff2c\uff25\uff23\uff34 1', 'select \ufb01eld from t', 'x\u00b2 + 1', '\u212aelvin', 'stra\u00dfe',
              '\u0130stanbul', '\u01c5emal'):
        yield w
    for t in UNUSUAL_TEXTS:
        yield t
    for a in _INTERLEAVE:
        for b in _INTERLEAVE:
            yield ('interleave', a, b)
    for t in domain.soups(2, seps=('',)):
        yield t
    for t in domain.soups(12, seed=seed * 13 + 1, count=5000 if tier == 'quick' else 100000,
                          seps=tuple(domain.SEPARATORS)):
        yield t
    if tier != 'quick':
        for t in itertools.product(SUB_ALPHABET, repeat=4):
            yield ''.join(t)
        rnd = random.Random(seed * 17 + 3)
        al = domain.ALPHABET
        for _ in range(600000):
            yield ''.join(rnd.choice(al) for _ in range(rnd.randint(4, 8)))
        rnd = random.Random(seed * 19 + 5)
        for _ in range(3000):
            yield ('interleave', rnd.choice(UNUSUAL_TEXTS), rnd.choice(UNUSUAL_TEXTS))


def classify_C01(case, failure):
    return None


def smoke_C01():
    return ['', 'select 1', "'unclosed ; x", '\x00\ud800´', 'a\r\nb\rc', '$a$ x $b$', ('interleave', 'select 1', "'a' -- c\nx"),
            ('interleave', '', 'a')]



# ======================================================================================================== C02

RULE_C02 = ('C02: texts = hand-picked unusual inputs (empty, blanks, lone delimiters, unclosed quote/comment/parenthesis, '
            'NUL, lone surrogate, CR/CRLF), every soup of <= 2 of the 105 lexical fragments of domain.FRAGMENTS joined by '
            "' ' and '' (quick; thorough also newline and comment separators and 150 000 random 3-fragment soups), "
            '6 000 (120 000) seeded random soups of <= 12 fragments with mixed separators, and 2 500 (40 000) seeded '
            'scripts of the verification grammar (1..3 statements, plain and procedural, keyword case varied, separators '
            'drawn from blanks, tabs, CR, LF, CRLF, block/line/hint comments).  Non-trivial = the parse has at least '
            'one group node.  Oracle: text == join(str(stmt)) + whitespace-only tail, and str(node) == concatenation of '
            'the leaf values found by an own walker over .tokens, for every node.')


def _own_leaves(node, sql, out):
    """own walker: leaves of node, left to right (iterative, independent of flatten())"""
    stack = [node]
    while stack:
        n = stack.pop()
        if isinstance(n, sql.TokenList):
            stack.extend(reversed(n.tokens))
        else:
            out.append(n)
    return out


def _parse(text):
    sqlparse = _lib()[0]
    try:
        return sqlparse.parse(text), None
    except Exception as e:   # noqa: BLE001
        return None, e


@_total
def oracle_C02(case):
    sqlparse, sql, T, lexer, _ = _lib()
    text = case
    if isinstance(case, tuple) and case and case[0] == 'after-mutation':
        # the same check after an earlier result for the SAME text was modified in place by its owner (trees returned by
        # parse() belong to the caller; a later call must not hand the modified objects out again)
        text = case[1]
        try:
            first = sqlparse.parse(text)
            from sqlparse import filters
            for st_ in first:
                filters.StripWhitespaceFilter().process(st_)
                if st_.tokens:
                    st_.tokens[-1].value = st_.tokens[-1].value + '/*edited*/'
        except Exception:   # noqa: BLE001  (the disturbing calls are not under test)
            pass
    stmts, e = _parse(text)
    if e is not None:
        return None if _is_parse_error(e) else _exc(e, text, 'parse')
    try:
        joined = ''.join(str(s) for s in stmts)
    except Exception as e:   # noqa: BLE001
        return _exc(e, text, 'str(statement)')
    if not text.startswith(joined):
        return _fail('text-not-preserved', text, joined, text)
    if not _isspace(text[len(joined):]):
        return _fail('non-blank-tail-dropped', text, joined, text)
    stack = list(stmts)
    while stack:
        n = stack.pop()
        if isinstance(n, sql.TokenList):
            own = ''.join(t.value for t in _own_leaves(n, sql, []))
            try:
                s = str(n)
            except Exception as e:   # noqa: BLE001
                return _exc(e, text, 'str(node)')
            if s != own:
                return _fail('str-differs-from-leaves', text, s, own, node=type(n).__name__)
            stack.extend(n.tokens)
        else:
            if str(n) != n.value:
                return _fail('str-differs-from-leaves', text, str(n), n.value, node='Token')
    return None


def cases_C02(tier, seed):
    n = 0
    for t in _soup_texts(tier, seed, 2):
        yield t
        n += 1
        if n % 60 == 0 and isinstance(t, str) and t.strip():
            yield ('after-mutation', t)
    for t in smoke_C02():
        yield ('after-mutation', t)


def classify_C02(case, failure):
    return None


def smoke_C02():
    return ['', 'select 1;  \n', "select 'a;b' from t; select 2", 'select (case when a then b end) x from t',
            'create function f() as $$ begin; end $$;\n-- c\n', 'a\r\nb;\rc', '( as )', '\x00;\ud800']



# ======================================================================================================== C03

RULE_C03 = ('C03: same text domain as C02 (different seeds).  Non-trivial = at least one group below the statement.  '
            'Oracle, per parsed statement: leaves found by an own walker equal the lexer tokens of the text in order '
            '(values and types; a Wildcard/Operator token may have become Operator), concatenated over the statements '
            'they are a prefix of the lexer stream with a whitespace-only rest; parent of every child is its container, '
            'statement parent is None; no empty group; no node reachable twice; cached value == text of the leaves; '
            'token_index, token_next/token_prev for every child index and the four skip_ws/skip_cm combinations, '
            'get_token_at_offset for every offset of every statement of <= 150 characters (first/last offset of up to 32 '
            'evenly spread leaves for longer statements, up to 8 for inner groups, plus -1, 0, len-1, len, len+1), '
            'within / has_ancestor / is_child_of against the ancestor chain of the own walker (all nodes; ~150 evenly spread nodes '
            'in statements with more).')

_BIG = 48


def _c03_statement(text, stmt, sql, T, seen, lex_iter):
    """returns failure or None; consumes the lexer tokens of this statement from lex_iter"""
    groups = []          # (node, ancestors tuple, first leaf, end leaf)
    nodes = []           # (node, parent, ancestors tuple)
    leaves = []

    if stmt.parent is not None:
        return _fail('root-has-parent', text, repr(stmt.parent), None)

    # own recursive walk with explicit stack: entries (node, parent, ancestors)
    def walk(node, parent, anc):
        if id(node) in seen:
            return _fail('node-occurs-twice', text, repr(node)[:80], 'every node once')
        seen.add(id(node))
        nodes.append((node, parent, anc))
        if isinstance(node, sql.TokenList):
            if not isinstance(node.tokens, list) or len(node.tokens) == 0:
                return _fail('empty-group', text, type(node).__name__, 'non-empty group')
            a = len(leaves)
            anc2 = anc + (node,)
            for ch in node.tokens:
                if ch.parent is not node:
                    return _fail('wrong-parent', text, '%s.parent = %s' % (_clip(repr(ch), 60), _clip(repr(ch.parent), 60)),
                                 _clip(repr(node), 60))
                r = walk(ch, node, anc2)
                if r is not None:
                    return r
            groups.append((node, anc, a, len(leaves)))
        else:
            leaves.append(node)
        return None
    r = walk(stmt, None, ())
    if r is not None:
        return r

    # leaves == lexer tokens
    for lf in leaves:
        try:
            ltt, lv = next(lex_iter)
        except StopIteration:
            return _fail('leaves-not-lexer-tokens', text, 'extra leaf %r' % (lf.value,), 'end of lexer stream')
        if lf.value != lv:
            return _fail('leaves-not-lexer-tokens', text, repr((lf.ttype, lf.value)), repr((ltt, lv)))
        if lf.ttype is not ltt:
            if not (lf.ttype is T.Operator and (ltt is T.Wildcard or ltt in T.Operator)):
                return _fail('leaf-retyped', text, repr((lf.ttype, lf.value)), repr((ltt, lv)))
        if not isinstance(lf.value, str):
            return _fail('leaf-value-not-str', text, repr(lf.value), 'str')

    vals = [lf.value for lf in leaves]
    starts = [0]
    for v in vals:
        starts.append(starts[-1] + len(v))

    # cached value
    for g, anc, a, b in groups:
        own = ''.join(vals[a:b])
        if g.value != own:
            return _fail('stale-cached-value', text, g.value, own, node=type(g).__name__)

    def is_ws(t):
        return t.ttype is not None and t.ttype in T.Whitespace

    def is_cm(t):
        return (t.ttype is not None and t.ttype in T.Comment) or isinstance(t, sql.Comment)

    # navigation helpers per group
    for g, anc, a, b in groups:
        ch = g.tokens
        n = len(ch)
        idxs = range(n) if n <= _BIG else sorted(set(list(range(0, n, max(1, n // _BIG))) + [0, 1, n - 2, n - 1]))
        for i in idxs:
            c = ch[i]
            try:
                got = g.token_index(c)
                got2 = g.token_index(c, i)
            except Exception as e:   # noqa: BLE001
                return _exc(e, text, 'token_index')
            if got != i or got2 != i:
                return _fail('token_index-wrong', text, (got, got2), i, node=type(g).__name__)
        for skip_ws in (True, False):
            for skip_cm in (False, True):
                keep = [not ((skip_ws and is_ws(t)) or (skip_cm and is_cm(t))) for t in ch]
                nxt = [None] * n
                last = None
                for i in range(n - 1, -1, -1):
                    nxt[i] = last
                    if keep[i]:
                        last = i
                prv = [None] * n
                last = None
                for i in range(n):
                    prv[i] = last
                    if keep[i]:
                        last = i
                for i in idxs:
                    try:
                        rn = g.token_next(i, skip_ws=skip_ws, skip_cm=skip_cm)
                        rp = g.token_prev(i, skip_ws=skip_ws, skip_cm=skip_cm)
                    except Exception as e:   # noqa: BLE001
                        return _exc(e, text, 'token_next/token_prev')
                    for nm, res, exp in (('token_next', rn, nxt[i]), ('token_prev', rp, prv[i])):
                        ok = isinstance(res, tuple) and len(res) == 2 and (
                            (exp is None and res[0] is None and res[1] is None) or
                            (exp is not None and res[0] == exp and res[1] is ch[exp]))
                        if not ok:
                            return _fail(nm + '-wrong', text, '%s(%d, skip_ws=%s, skip_cm=%s) -> %s' % (
                                nm, i, skip_ws, skip_cm, _clip(repr(res), 80)), repr(exp), node=type(g).__name__)
        # get_token_at_offset
        base = starts[a]
        glen = starts[b] - base
        if g is stmt and glen <= 150:
            offs = range(-1, glen + 2)
        else:
            # long statements / inner groups: both border offsets of (at most ~32 evenly spread) leaves
            offs = {-1, 0, glen - 1, glen, glen + 1}
            step = max(1, (b - a) // (32 if g is stmt else 8))
            for k in range(a, b, step):
                offs.add(starts[k] - base)
                offs.add(starts[k + 1] - 1 - base)
            offs = sorted(offs)
        k = a
        for off in offs:
            if 0 <= off < glen:
                while not (starts[k] - base <= off < starts[k + 1] - base):
                    k += 1
                exp = leaves[k]
            else:
                exp = None
            try:
                got = g.get_token_at_offset(off)
            except Exception as e:   # noqa: BLE001
                return _exc(e, text, 'get_token_at_offset')
            if got is not exp:
                return _fail('get_token_at_offset-wrong', text, 'offset %d -> %s' % (off, _clip(repr(got), 60)),
                             _clip(repr(exp), 60), node=type(g).__name__)

    # within / has_ancestor / is_child_of
    classes = [sql.Parenthesis, sql.Identifier, sql.Statement, sql.TokenList, sql.Function, sql.Where]
    for g, _, _, _ in groups:
        if type(g) not in classes:
            classes.append(type(g))
    all_groups = [g for g, _, _, _ in groups]
    small = len(nodes) * len(all_groups) <= 3000
    check_nodes = nodes if len(nodes) <= 150 else nodes[::len(nodes) // 150 + 1]
    for node, parent, anc in check_nodes:
        for cls in classes:
            exp = any(isinstance(x, cls) for x in anc)
            try:
                got = node.within(cls)
            except Exception as e:   # noqa: BLE001
                return _exc(e, text, 'within')
            if bool(got) != exp or not isinstance(got, bool):
                return _fail('within-wrong', text, '%s.within(%s) -> %r' % (_clip(repr(node), 50), cls.__name__, got), exp)
        if small:
            cands = all_groups
        else:
            cands = list(anc)
            if isinstance(node, sql.TokenList):
                cands.append(node)
                cands.extend(c for c in node.tokens if isinstance(c, sql.TokenList))
            if parent is not None:
                cands.extend(c for c in parent.tokens if isinstance(c, sql.TokenList))
        for other in cands:
            exp_a = any(x is other for x in anc)
            exp_c = parent is other
            try:
                got_a = node.has_ancestor(other)
                got_c = node.is_child_of(other)
            except Exception as e:   # noqa: BLE001
                return _exc(e, text, 'has_ancestor/is_child_of')
            if bool(got_a) != exp_a:
                return _fail('has_ancestor-wrong', text, '%s.has_ancestor(%s) -> %r' % (
                    _clip(repr(node), 50), _clip(repr(other), 50), got_a), exp_a)
            if bool(got_c) != exp_c:
                return _fail('is_child_of-wrong', text, '%s.is_child_of(%s) -> %r' % (
                    _clip(repr(node), 50), _clip(repr(other), 50), got_c), exp_c)
        # a leaf / foreign object is nobody's ancestor or parent
        if not isinstance(node, sql.TokenList) and parent is not None:
            try:
                if parent.has_ancestor(node) or parent.is_child_of(node):
                    return _fail('has_ancestor-wrong', text, 'group has its own leaf as ancestor', False)
            except Exception as e:   # noqa: BLE001
                return _exc(e, text, 'has_ancestor/is_child_of')
    return None


@_total
def oracle_C03(case):
    sqlparse, sql, T, lexer, _ = _lib()
    text = case
    stmts, e = _parse(text)
    if e is not None:
        return None if _is_parse_error(e) else _exc(e, text, 'parse')
    try:
        lex = list(lexer.tokenize(text))
    except Exception as e:   # noqa: BLE001
        return _exc(e, text, 'tokenize')
    it = iter(lex)
    seen = set()
    for stmt in stmts:
        if not isinstance(stmt, sql.Statement):
            return _fail('not-a-statement', text, type(stmt).__name__, 'Statement')
        r = _c03_statement(text, stmt, sql, T, seen, it)
        if r is not None:
            return r
    for ltt, lv in it:
        if not (ltt is not None and ltt in T.Whitespace):
            return _fail('leaves-not-lexer-tokens', text, 'lexer token %r in no statement' % (lv,),
                         'only whitespace may be dropped')
    return None


def _deep_texts():
    """statements nested far deeper than any fixed small bound (the navigation helpers walk the whole parent chain)"""
    for depth in (40, 120, 260):
        yield 'select a from t where ' + '(' * depth + 'x = 1' + ')' * depth + ' and y = 2'
        yield 'select ' + 'f(' * depth + 'a' + ')' * depth + ' from t'
        yield 'select ' + 'case when a then ' * (depth // 4) + '1' + ' end' * (depth // 4) + ' from t'


def cases_C03(tier, seed):
    for t in _deep_texts():
        yield t
    for t in _soup_texts(tier, seed, 3):
        yield t


def classify_C03(case, failure):
    return None


def smoke_C03():
    return ['', 'select a, b as c from t where x = 1 -- c\n', 'select * from t; select 2*3;', 'a[1].b(c, d)::int',
            'p q r s x := := b ;', 'select 1 /* a */ /* b */\n from (select 2) x', '(a::)', 'insert into t values (1, 2), (3)']



# ======================================================================================================== C04

RULE_C04 = ('C04: same text domain as C02 (different seeds).  Non-trivial = split() returns at least one piece.  Oracle: '
            'split(text) == [str(s).strip() for s in parse(text)]; every piece non-empty; scanning the text left to right, '
            'skipping whitespace, each piece is found exactly at the next non-blank position and only whitespace remains '
            'after the last one; split(piece) == [piece] for every piece.  Every 40th multi-statement text is checked again '
            'after three disturbing histories on the same text (abandoned partially consumed parsestream(), partially '
            'consumed token stream, a call on another text).')


def _locate(text, pieces):
    """spans of the pieces when they partition text up to whitespace, else (None, index of the offending piece)"""
    pos = 0
    n = len(text)
    spans = []
    for i, p in enumerate(pieces):
        while pos < n and text[pos].isspace():
            pos += 1
        if not p or not text.startswith(p, pos):
            return None, i
        spans.append((pos, pos + len(p)))
        pos += len(p)
    if not _isspace(text[pos:]):
        return None, len(pieces)
    return spans, None


@_total
def oracle_C04(case):
    sqlparse = _lib()[0]
    text = case
    keep = []
    if isinstance(case, tuple) and case and case[0] == 'history':
        # the same checks after a disturbing history on the same text: an abandoned, partially consumed parsestream(), a
        # partially consumed token stream, a call on another text (objects kept alive while the checks run)
        _h, kind, text = case
        try:
            if kind == 'partial-parsestream':
                g = sqlparse.parsestream(text)
                keep.append(g)
                next(g, None)
            elif kind == 'partial-tokens':
                g = _lib()[3].tokenize(text)
                keep.append(g)
                next(g, None)
                next(g, None)
            elif kind == 'other-text':
                sqlparse.split('select 0; select ' + text[:7])
        except Exception:   # noqa: BLE001  (the disturbing call itself is not under test here)
            pass
    try:
        pieces = sqlparse.split(text)
    except Exception as e:   # noqa: BLE001
        return None if _is_parse_error(e) else _exc(e, text, 'split')
    stmts, e = _parse(text)
    if e is not None:
        return None if _is_parse_error(e) else _exc(e, text, 'parse')
    if not isinstance(pieces, list) or not all(isinstance(p, str) for p in pieces):
        return _fail('split-result-type', text, repr(pieces), 'list of str')
    exp = [str(s).strip() for s in stmts]
    if pieces != exp:
        return _fail('split-disagrees-with-parse', text, repr(pieces), repr(exp))
    for p in pieces:
        if p == '':
            return _fail('empty-piece', text, repr(pieces), 'non-empty pieces')
    spans, bad = _locate(text, pieces)
    if spans is None:
        return _fail('pieces-do-not-partition-text', text, repr(pieces), 'pieces in order, only whitespace between',
                     at_piece=bad)
    for p in pieces:
        try:
            again = sqlparse.split(p)
        except Exception as e:   # noqa: BLE001
            if _is_parse_error(e):
                continue
            return _exc(e, p, 'split(piece)')
        if again != [p]:
            return _fail('resplit-changes-piece', text, repr(again), repr([p]))
    return None


def cases_C04(tier, seed):
    n = 0
    for t in _soup_texts(tier, seed, 4):
        yield t
        n += 1
        if n % 40 == 0 and isinstance(t, str) and ';' in t:
            for kind in ('partial-parsestream', 'partial-tokens', 'other-text'):
                yield ('history', kind, t)
    for t in smoke_C04():
        for kind in ('partial-parsestream', 'partial-tokens', 'other-text'):
            yield ('history', kind, t + '; select 2; select 3')


def classify_C04(case, failure):
    return None


def smoke_C04():
    return ['', '  \n', 'select 1; select 2', "select 'a;b' ; -- c\n select 2 ;", 'select 1;;select 2', 'select 1\nGO\nselect 2',
            'create function f() begin select 1; end; select 3', '/* c */ ; x']



# ======================================================================================================== C05

RULE_C05 = ('C05: (0) "big" cases: scripts of 5 000 / 70 000 / 140 000 characters (thorough: up to 1.1 M) made of known one-statement units in which every line end lies inside a string, quoted name, dollar-quoted body or comment, given as str and as a text stream: split() must return exactly the units.  (a) "plain" cases: k in 1..4 statements drawn from Grammar.plain_stmt() (queries with CTE/set operation/'
            'subquery/CASE, insert, update, delete, DDL; depth 1..3; keyword case varied), each rendered with random inner '
            'separators (blank, tab, LF, CRLF, block and line comments), joined by ";" with a separator before it from '
            "{'', ' ', LF, CRLF, '-- c' + LF, '/* c */'} and after it from the same set plus blank lines; the final ';' is "
            'present or absent.  Expected: exactly k statements from split() and from parse(), statement i containing '
            'the whole text of the i-th generated statement and its ";" (comments/blanks between statements may go to '
            'either side).  (b) "region" cases (kind, left, body, right): one opaque region (string, "name", `name`, $$ $$, '
            '$t$ $t$, /* */, -- to LF or CRLF, parenthesis) inside a multi-statement template (6 templates: select item, '
            'VALUES list, end of script, SET clause, directly after ";", function body); bodies = 60 hand-picked odd bodies '
            '(";", quotes of the other kinds, comment openers, keywords, NUL, non-ASCII, newlines, doubled quotes) plus '
            'seeded random bodies of length <= 6 over the class alphabet + ";" that lack the terminator (and backslash for '
            'quote-delimited kinds); parenthesis bodies are balanced texts of names, numbers, ";", commas, complete '
            'strings/comments, nested parentheses, CASE expressions and subqueries.  Expected: same number of statements '
            'as with body "x", and identical statement texts once the body is put back to "x".  quick: 4 000 plain + '
            '~5 500 region cases; thorough: 80 000 + ~60 000.')

BEFORE_SEMI = ('', '', ' ', '\n', '\r\n', ' -- c\n', ' /* c */ ', '\n-- c\n')
AFTER_SEMI = ('', ' ', '\n', '\n\n', '\r\n', '\t', ' -- c\n', ' /* c */ ', '\n/* c */\n', ' -- c\r\n', '\n-- c\n-- d\n')


def _plain_script(rnd, k):
    """(script, cores): cores[i] = (start, end) of statement i incl. its ';' when present"""
    g = domain.Grammar(seed=rnd.randrange(1 << 30), max_depth=rnd.choice((1, 1, 2, 2, 3)),
                       kw_case=rnd.choice(('upper', 'lower', 'mixed', 'upper')))
    out = []
    pos = 0
    cores = []
    lead = rnd.choice(('', '', ' ', '\n', '/* c */ ', '-- c\n'))
    out.append(lead)
    pos += len(lead)
    for i in range(k):
        seps = INNER_SEPS if rnd.random() < 0.5 else PLAIN_SEPS
        s = domain.render(g.plain_stmt(), rnd, seps=seps, glue=rnd.random() < 0.5)
        start = pos
        out.append(s)
        pos += len(s)
        if i < k - 1 or rnd.random() < 0.6:
            b = rnd.choice(BEFORE_SEMI)
            a = rnd.choice(AFTER_SEMI)
            out.append(b + ';')
            pos += len(b) + 1
            cores.append((start, pos))
            out.append(a)
            pos += len(a)
        else:
            cores.append((start, pos))
            tail = rnd.choice(('', ' ', '\n', ' -- c\n', ' /* c */'))
            out.append(tail)
            pos += len(tail)
    return ''.join(out), tuple(cores)


REGION_KINDS = {
    # kind: (open, close, value_like)
    'sq': ("'", "'", True), 'dq': ('"', '"', True), 'bt': ('`', '`', True), 'dollar': ('$$', '$$', True),
    'dtag': ('$t$', '$t$', True), 'mlc': ('/*', '*/', False), 'slc': ('--', '\n', False), 'slc_crlf': ('--', '\r\n', False),
    'paren': ('(', ')', True),
}
_QUOTE_KINDS = ('sq', 'dq', 'bt')

_TEMPLATES_VALUE = [
    ('select 1; select a, ', ' from t; select 2;'),
    ('insert into t values (1, ', '); select 2'),
    ('select 1;\nselect a, ', ''),
    ('update t set c = ', '\nwhere k = 1;\ndelete from t;'),
    ('select 1;', ' ;select 2;'),
    ('create function f() returns int as ', ' language sql; select 2;'),
    # a LATER occurrence of every closer, inside a string literal of a following statement (a region rule that looks
    # past its own terminator, e.g. for nested openers, would run on to it)
    ('select 1; select a, ', " from t; select '*/ $$ $t$ \" ` )' from u; select 2;"),
]
_TEMPLATES_COMMENT = [
    ('select 1; select a ', ' from t; select 2;'),
    ('insert into t values (1 ', '); select 2'),
    ('select 1;\nselect a ', ''),
    ('update t set c = 1 ', 'where k = 1;\ndelete from t;'),
    ('select 1;', 'select 2;'),
    ('', 'select 1; select 2'),
    ('select 1; select a ', " from t; select '*/ $$ $t$ \" ` )' from u; select 2;"),
]

_ODD_BODIES = [
    ';', ';;', 'a;b', ' ; ', '; select 2; ', 'x; drop table t; --', ';\n', '\n;\n', 'a\r\n;b', "'", "';'", "''", "'';''", '"',
    '";"', '""', '"";""', '`', '`;`', '``', '``;``', '$$', '$$;$$', '$t$', '$t$;$t$', '$x$;$x$', '$', '$;', '/*', '/*;', '/* ; */',
    '*/', ';*/', '*', '--', '--;', '-- ;\n', '#', '# ;', '(', '(;', ')', ';)', '(;)', 'é;業', '\x00;', ';\x00', '\ud800;',
    'END;', 'end; end', 'case when;', 'begin;', 'begin; end', 'declare;', 'create;', 'if; end if', 'go;', 'GO;', '\\', '\\;', "\\'",
    '\\";', ';+', '+;', 'x', '/* x', '/* /* x', "/* '", '/*/', '$t$ $$', '$$ $t', '-- /*', '(', '((',
]
_PAREN_BODIES = [
    ';', 'a;b', '1; 2', ' ; ', ';;', "';'", "a; 'b;' ; c", '/* ; */ ;', '(;)', '(a;(b;c))', 'select 1; select 2', 'a, b; c[1]',
    'case when a then b end; x', 'case when a then b end', 'x; case when a then b end', '; -- c\n', '; -- ;\n', '\n;\n', 'é;業',
    '$$;$$ ;', '"q;" ;', '`q;`;', 'f(;)', 'x := 1;', 'select (select 1; select 2) ; 3', 'a\r\n;\r\nb', '\x00;', 'x',
    'select case when a then (b;c) end', 'case when a then b end; case when c then d end; y',
]


def _region_body_ok(kind, body):
    op, cl, _ = REGION_KINDS[kind]
    if kind in _QUOTE_KINDS:
        if '\\' in body:
            return False
        return cl not in body.replace(cl + cl, '')
    if kind in ('slc', 'slc_crlf'):
        return '\n' not in body and '\r' not in body
    if kind == 'paren':
        return True     # only generated balanced
    return (body + cl).find(cl) == len(body)


def _rand_paren_body(rnd, depth=0):
    atoms = [';', ';', 'a', 'b', '1', ',', ' ', ' ', '\n', "'s;'", "'it''s'", '/*;*/', '-- ;\n', '+', '=', '"q;"', 'x.y', '::',
             'case when a then b end', 'select 1', ' $$;$$ ', '\x00', 'é']     # $$ needs a non-word character before it
    out = []
    for _ in range(rnd.randint(1, 6)):
        if depth < 2 and rnd.random() < 0.2:
            out.append('(' + _rand_paren_body(rnd, depth + 1) + ')')
        else:
            out.append(rnd.choice(atoms))
        out.append(rnd.choice(('', ' ', ' ')))
    s = ''.join(out)
    return s if ';' in s or depth else s + ';'


def _region_script(kind, left, body, right):
    op, cl, _ = REGION_KINDS[kind]
    return left + op + body + cl + right, len(left) + len(op), len(left) + len(op) + len(body)


def _stmt_texts(text):
    """(list of str(stmt) from parse, number of pieces from split) or raises"""
    sqlparse = _lib()[0]
    return [str(s) for s in sqlparse.parse(text)], len(sqlparse.split(text))


@_total
def oracle_C05(case):
    sqlparse = _lib()[0]
    kind = case[0]
    if kind == 'big':
        # a long script of known one-statement units, as str and as a text stream (readers that work block-wise must not
        # cut a string, comment or dollar-quoted body)
        import io
        _, n, form = case
        text, units = domain.big_script(n, salt=n % 7)
        try:
            pieces = sqlparse.split(io.StringIO(text) if form == 'stream' else text)
        except Exception as e:   # noqa: BLE001
            return None if _is_parse_error(e) else _exc(e, _clip(text), 'split')
        if pieces != units:
            i = next((j for j, (a, b) in enumerate(zip(pieces, units)) if a != b), min(len(pieces), len(units)))
            return _fail('long-script-statements-differ', ('big', n, form),
                         '%d pieces; piece %d = %s' % (len(pieces), i, _clip(repr(pieces[i:i + 1]), 200)),
                         '%d pieces; piece %d = %s' % (len(units), i, _clip(repr(units[i:i + 1]), 200)))
        return None
    if kind == 'longregion':
        # "opaque regions never split", however long the region is: one statement whose string / quoted name / comment /
        # dollar-quoted body has n characters with ';' all over it, followed by a second statement
        _, rk, n = case
        op, cl = {'sq': ("'", "'"), 'dq': ('"', '"'), 'mlc': ('/*', '*/'), 'dollar': ('$$', '$$'), 'bt': ('`', '`')}[rk]
        unit = 'ab; c\nd ;'
        body = unit * (n // len(unit) + 1)
        first = 'select ' + op + body + cl + ' from t;'
        text = first + ' select 2;'
        try:
            pieces = sqlparse.split(text)
        except Exception as e:   # noqa: BLE001
            return None if _is_parse_error(e) else _exc(e, _clip(text), 'split')
        if pieces != [first, 'select 2;']:
            return _fail('long-region-split', ('longregion', rk, n), '%d pieces; first = %s' % (len(pieces), _clip(repr(pieces[:1]), 120)),
                         '2 pieces: the statement with the %d-character region, then select 2;' % len(body))
        return None
    if kind == 'plain':
        _, script, cores = case
        k = len(cores)
        try:
            pieces = sqlparse.split(script)
            stmts = [str(s) for s in sqlparse.parse(script)]
        except Exception as e:   # noqa: BLE001
            return None if _is_parse_error(e) else _exc(e, script, 'split/parse')
        spans, bad = _locate(script, pieces)
        if spans is None:
            return _fail('pieces-do-not-partition-text', script, repr(pieces), 'pieces in order', at_piece=bad)
        spans2 = []
        pos = 0
        for s in stmts:
            spans2.append((pos, pos + len(s)))
            pos += len(s)
        # the statement is silent about comments *after* the last statement: a final extra piece lying wholly behind
        # the last generated statement (it can only consist of trailing comments/blanks) is tolerated
        for sp in (spans, spans2):
            if len(sp) == k + 1 and sp[-1][0] >= cores[-1][1]:
                sp.pop()
        for nm, n in (('split', len(spans)), ('parse', len(spans2))):
            if n != k:
                return _fail('too-many-statements' if n > k else 'too-few-statements', script,
                             '%s -> %d: %s' % (nm, n, _clip(repr(pieces), 200)), k)
        for nm, sp in (('split', spans), ('parse', spans2)):
            for i, ((s, e), (cs, ce)) in enumerate(zip(sp, cores)):
                if not (s <= cs and ce <= e):
                    return _fail('wrong-extent', script, '%s piece %d = %r' % (nm, i, _clip(script[s:e], 120)),
                                 'covers %r' % _clip(script[cs:ce], 120))
        return None
    if kind == 'region':
        _, rk, left, body, right = case
        sx, b0, b1x = _region_script(rk, left, 'x', right)
        sb, _, b1 = _region_script(rk, left, body, right)
        try:
            tx, nx = _stmt_texts(sx)
            tb, nb = _stmt_texts(sb)
        except Exception as e:   # noqa: BLE001
            return None if _is_parse_error(e) else _exc(e, sb, 'split/parse')
        if nb != nx or len(tb) != len(tx):
            return _fail('region-body-changes-count', sb, 'split %d, parse %d' % (nb, len(tb)),
                         'split %d, parse %d (as with body x)' % (nx, len(tx)), kind=rk)
        pos = 0
        back = []
        for s in tb:
            e = pos + len(s)
            if pos <= b0 and b1 <= e:
                back.append(sb[pos:b0] + 'x' + sb[b1:e])
            elif e <= b0 or pos >= b1:
                back.append(s)
            else:
                return _fail('split-inside-region', sb, repr(tb), repr(tx), kind=rk)
            pos = e
        if back != tx:
            return _fail('region-body-changes-extent', sb, repr(back), repr(tx), kind=rk)
        return None
    return _fail('bad-case', case, None, None)


def cases_C05(tier, seed):
    quick = tier == 'quick'
    for n in ((5000, 70000, 140000) if quick else (5000, 9000, 17000, 33000, 70000, 140000, 300000, 1100000)):
        for form in ('str', 'stream'):
            yield ('big', n, form)
    for rk in ('sq', 'dq', 'mlc', 'dollar', 'bt'):
        for n in ((70000, 300000) if quick else (70000, 140000, 300000, 1200000)):
            yield ('longregion', rk, n)
    # region cases: hand-picked bodies x templates (exhaustive part)
    for rk, (op, cl, value_like) in REGION_KINDS.items():
        templates = _TEMPLATES_VALUE if value_like else _TEMPLATES_COMMENT
        bodies = _PAREN_BODIES if rk == 'paren' else _ODD_BODIES
        for left, right in templates:
            for body in bodies:
                if _region_body_ok(rk, body):
                    yield ('region', rk, left, body, right)
    rnd = random.Random(seed * 37 + 5)
    al = list(domain.ALPHABET) + [';'] * 12
    for _ in range(2500 if quick else 50000):
        rk = rnd.choice(list(REGION_KINDS))
        op, cl, value_like = REGION_KINDS[rk]
        left, right = rnd.choice(_TEMPLATES_VALUE if value_like else _TEMPLATES_COMMENT)
        if rk == 'paren':
            body = _rand_paren_body(rnd)
        else:
            parts = [rnd.choice(al) for _ in range(rnd.randint(1, 6))]
            if rk in _QUOTE_KINDS:
                parts = [cl + cl if p == cl else p for p in parts]
            body = ''.join(parts)
            if not _region_body_ok(rk, body):
                continue
        yield ('region', rk, left, body, right)
    rnd = random.Random(seed * 41 + 7)
    for i in range(4000 if quick else 80000):
        script, cores = _plain_script(rnd, 1 + i % 4)
        yield ('plain', script, cores)


def classify_C05(case, failure):
    return None


def smoke_C05():
    return [('plain', 'select 1 ; -- c\nselect 2', ((0, 10), (16, 24))),
            ('plain', "select 'a;b' from t /* c */ ;\ninsert into t values (1); /* trailing */", ((0, 29), (30, 55))),
            ('region', 'sq', 'select 1; select a, ', "; drop ''x'' ;", ' from t; select 2;'),
            ('region', 'mlc', 'select 1;', ';*;/', 'select 2;'),
            ('region', 'slc', 'select 1; select a ', ';;', ' from t; select 2;'),
            ('region', 'dtag', 'create function f() returns int as ', 'begin; end; $$ ; $x$', ' language sql; select 2;'),
            ('region', 'paren', 'select 1; select a, ', 'a; (b;c)', ' from t; select 2;')]



# ======================================================================================================== C09

RULE_C09 = ('C09: texts over a vocabulary rich in openers/closers.  Exhaustive part: every sequence of <= 4 items of the '
            "12-item core vocabulary {( ) a[ ] case end if 'end if' for 'end loop' begin a} joined by one blank (22 620 "
            'texts: all nestings, crossings and unbalanced arrangements of the six kinds up to that length).  Random part: '
            '8 000 (thorough 150 000) seeded sequences of 1..14 items of a 60-item vocabulary (the above in both letter '
            'cases, FOREACH, LOOP, WHEN/THEN/ELSE, names, numbers, strings, commas, ";", "::", ":=", AS, operators, "f(", '
            'block/line comments, newlines) with separators from {blank, none, newline, comment}.  Non-trivial = at least '
            'one opener or closer token.  Oracle: own stack matcher over the leaf tokens of each statement, run per class '
            'in the order SquareBrackets, Parenthesis, Case, If, For, Begin, each class inside the scopes left by the '
            'earlier ones; the set of (class, opener leaf, closer leaf) must equal the set read off the tree, and each '
            'such node must start with its opener and end (ignoring trailing blanks/comments) with its closer.  Cases '
            'containing an END IF / END LOOP keyword spelled with more than one blank are skipped (spelling is C11).')

_C09_CLASSES = ('SquareBrackets', 'Parenthesis', 'Case', 'If', 'For', 'Begin')


def _c09_kind_tables(T):
    # (ttype, set of upper-cased / literal values) for opener and closer of every class, transcribed from the statement
    return {
        'SquareBrackets': ((T.Punctuation, ('[',)), (T.Punctuation, (']',))),
        'Parenthesis': ((T.Punctuation, ('(',)), (T.Punctuation, (')',))),
        'Case': ((T.Keyword, ('CASE',)), (T.Keyword, ('END',))),
        'If': ((T.Keyword, ('IF',)), (T.Keyword, ('END IF',))),
        'For': ((T.Keyword, ('FOR', 'FOREACH')), (T.Keyword, ('END LOOP',))),
        'Begin': ((T.Keyword, ('BEGIN',)), (T.Keyword, ('END',))),
    }


def _c09_is(tok, spec, T):
    tt, vals = spec
    if tok.ttype is not tt:
        return False
    v = tok.value
    if tt is T.Keyword:
        v = v.upper()
    return v in vals


class _Grp:
    __slots__ = ('cls', 'items')

    def __init__(self, cls, items):
        self.cls = cls
        self.items = items


def _c09_expected(leaves, T):
    """textbook matcher; returns set of (class, opener leaf index, closer leaf index)"""
    tables = _c09_kind_tables(T)
    items = list(range(len(leaves)))
    spans = set()

    def first_leaf(it):
        while isinstance(it, _Grp):
            it = it.items[0]
        return it

    def last_leaf(it):
        while isinstance(it, _Grp):
            it = it.items[-1]
        return it

    def run(items, cls, op, clo):
        out = []
        stack = []
        for it in items:
            if isinstance(it, _Grp):
                # inside, never across; the group's own delimiters are spoken for
                it.items = [it.items[0]] + run(it.items[1:-1], cls, op, clo) + [it.items[-1]]
                out.append(it)
                continue
            tok = leaves[it]
            if tok.ttype is not None and tok.ttype in T.Whitespace:
                out.append(it)
            elif _c09_is(tok, op, T):
                stack.append(len(out))
                out.append(it)
            elif _c09_is(tok, clo, T) and stack:
                oi = stack.pop()
                grp = _Grp(cls, out[oi:] + [it])
                del out[oi:]
                out.append(grp)
                spans.add((cls, first_leaf(grp), it))
            else:
                out.append(it)
        return out
    for cls in _C09_CLASSES:
        op, clo = tables[cls]
        items = run(items, cls, op, clo)
    return spans


@_total
def oracle_C09(case):
    sqlparse, sql, T, lexer, _ = _lib()
    text = case
    stmts, e = _parse(text)
    if e is not None:
        return None if _is_parse_error(e) else _exc(e, text, 'parse')
    tables = _c09_kind_tables(T)
    classes = {name: getattr(sql, name) for name in _C09_CLASSES}
    for stmt in stmts:
        leaves = _own_leaves(stmt, sql, [])
        for lf in leaves:
            if lf.ttype is T.Keyword:
                up = lf.value.upper()
                col = ' '.join(up.split())
                if up != col and col in ('END IF', 'END LOOP'):
                    return None          # spelling variants of multi-word closers: not this property's business
        index = {id(lf): i for i, lf in enumerate(leaves)}
        expected = _c09_expected(leaves, T)
        found = set()
        shape = None
        stack = [stmt]
        while stack:
            n = stack.pop()
            if not isinstance(n, sql.TokenList):
                continue
            stack.extend(n.tokens)
            name = None
            for nm in _C09_CLASSES:
                if type(n) is classes[nm] or isinstance(n, classes[nm]):
                    name = nm
                    break
            if name is None:
                continue
            op, clo = tables[name]
            ch = list(n.tokens)
            while ch and ((ch[-1].ttype is not None and (ch[-1].ttype in T.Whitespace or ch[-1].ttype in T.Comment))
                          or isinstance(ch[-1], sql.Comment)):
                ch.pop()
            if not ch:
                return _fail('group-without-delimiters', text, _clip(repr(n), 80), name + ' with opener and closer')
            first, last = ch[0], ch[-1]
            fl = _own_leaves(first, sql, [])
            ll = _own_leaves(last, sql, [])
            if not fl or not ll:
                return _fail('group-without-delimiters', text, _clip(repr(n), 80), name + ' with opener and closer')
            found.add((name, index[id(fl[0])], index[id(ll[-1])]))
            if shape is None:
                if isinstance(first, sql.TokenList) or not _c09_is(first, op, T):
                    shape = _fail('group-does-not-start-with-opener', text,
                                  '%s%r' % (name, [_clip(str(c), 20) for c in n.tokens][:8]),
                                  'first child is ' + repr(op[1]), absorber=type(first).__name__)
                elif isinstance(last, sql.TokenList) or not _c09_is(last, clo, T) or len(ch) < 2:
                    shape = _fail('group-does-not-end-with-closer', text,
                                  '%s%r' % (name, [_clip(str(c), 20) for c in n.tokens][-8:]),
                                  'last child is ' + repr(clo[1]), absorber=type(last).__name__)
        if found != expected:
            missing = sorted(expected - found)
            extra = sorted(found - expected)

            def show(sp):
                return [(c, a, b, _clip(''.join(l.value for l in leaves[a:b + 1]), 40)) for c, a, b in sp[:4]]
            what = 'pair-not-grouped' if missing and not extra else 'group-not-a-pair' if extra and not missing \
                else 'groups-differ-from-pairs'
            return _fail(what, text, 'extra groups: %r' % show(extra), 'missing pairs: %r' % show(missing))
        if shape is not None:
            return shape
    return None


_C09_CORE = ['(', ')', 'a[', ']', 'case', 'end', 'if', 'end if', 'for', 'end loop', 'begin', 'a']
_C09_VOCAB = _C09_CORE + [
    'CASE', 'END', 'IF', 'END IF', 'FOR', 'FOREACH', 'foreach', 'END LOOP', 'BEGIN', 'Begin', 'End', 'loop', 'LOOP', 'when', 'then',
    'else', 'in', 'b', 'x', 'foo', '1', "'s'", ',', ',', ';', '::', ':=', 'as', '.', '=', '+', '*', 'select', 'from', 'where', 'f(',
    '[', 'b[1]', '/* c */', '-- c\n', '\n', 'case$1', 'over', 'end while', 'while', 'end\nif', 'x.y', '(', ')', '(', ')', 'and',
]


def cases_C09(tier, seed):
    for t in ['', '(', ')', ')(', '()', '(())', '[a]', 'a[1]', 'a[b[1]]', 'case end', 'begin end', 'begin case end', 'begin case end end',
              'if end if', 'for end loop', 'foreach end loop', '( case ) end', 'case ( end )', 'if ( end if )', '(a) /* c */',
              '(a) -- c\n', 'case when a then b end -- c\n, x', '(a::)', '( as )', 'case$1 a::end', 'a[1 := 2]', '(a :=)', 'begin end;',
              'BEGIN x; END', 'CASE WHEN (a) THEN [b] END', 'for x in (select 1) loop y; end loop', 'if a then begin b; end; end if']:
        yield t
    for k in range(1, 5):
        for t in itertools.product(_C09_CORE, repeat=k):
            yield ' '.join(t)
    rnd = random.Random(seed * 43 + 11)
    for _ in range(8000 if tier == 'quick' else 150000):
        n = rnd.randint(1, 14)
        style = rnd.random()
        out = []
        for i in range(n):
            out.append(rnd.choice(_C09_VOCAB))
            if style < 0.5:
                out.append(' ')
            else:
                out.append(rnd.choice((' ', ' ', ' ', '', '\n', ' /* c */ ', '  ')))
        yield ''.join(out)
    if tier != 'quick':
        rnd = random.Random(seed * 47 + 13)
        for _ in range(150000):
            yield ' '.join(rnd.choice(_C09_CORE) for _ in range(rnd.randint(5, 9)))


def classify_C09(case, failure):
    return None


def smoke_C09():
    return ['', '( ( a ) [', 'begin case end end', 'case ( end )', 'if a then begin b end end if', '(a) /* c */ , (b)',
            'a[b[1]] ]', 'for x in (select case when a then 1 end) loop y end loop end loop', '( case a end [ if',
            'if a then begin b; end; end if']



# ======================================================================================================== C14

RULE_C14 = ('C14: (a) region cases (kind, left, body, right) for the kinds \'...\' (String.Single), "..." (String.Symbol), `...` (Name), '
            '$$...$$ and $t$...$t$ (Literal), /*...*/ (Comment.Multiline incl. Hint), --...LF and --...CRLF (Comment.Single incl. '
            'Hint).  Body letters = the 53-character class alphabet minus the terminator character (and backslash for the three '
            'quote-delimited kinds, which get the doubled quote as an extra letter); bodies whose text + terminator would '
            'contain the terminator earlier are left out.  left/right None = all 9 x 9 pairs of the delimiter contexts '
            "{'', ' ', TAB, LF, '(', ')', ',', ';', '='} are tried inside one case.  quick: every body of <= 2 letters x all 81 "
            'context pairs (about 1.9 M tokenisations), every body of 3 letters over a 33-letter sub-alphabet and 100 000 '
            'seeded random bodies of 3 letters over the full alphabet, each with the empty contexts and one seeded context '
            'pair.  thorough: all 3-letter bodies over the full alphabet and 1.5 M seeded 4-letter bodies.  Expected: exactly one '
            'token covers exactly the region and its type lies in the expected type.  (b) word cases (word, casing, left, '
            'right): every key of the nine KEYWORDS* dictionaries that some rule matches in full (796 of 799; BIT VARYING, '
            'CHARACTER VARYING, END-EXEC are matched by no rule, hence not words) and 40 non-dictionary names, in the casings upper, '
            "lower, capitalised, alternating, in all 9 x 9 contexts from left {'', ' ', TAB, LF, '(', ')', ',', ';', '='} and "
            "right {'', ' ', TAB, LF, ')', ',', ';', '=', '+'} (a following '(' or '.' is deliberately not a delimited "
            'context: earlier rules turn the word into a Name there).  Expected type: first rule of the real SQL_REGEX '
            '(own copy compiled with re.I|re.U) that full-matches the word alone; if its action is PROCESS_AS_KEYWORD the '
            'first registered dictionary containing upper(word), else Name.')

C14_KINDS = {
    # kind: (open, close, expected type path)
    'sq': ("'", "'", ('Literal', 'String', 'Single')),
    'dq': ('"', '"', ('Literal', 'String', 'Symbol')),
    'bt': ('`', '`', ('Name',)),
    'dollar': ('$$', '$$', ('Literal',)),
    'dtag': ('$t$', '$t$', ('Literal',)),
    'mlc': ('/*', '*/', ('Comment', 'Multiline')),
    'slc': ('--', '\n', ('Comment', 'Single')),
    'slc_crlf': ('--', '\r\n', ('Comment', 'Single')),
}
C14_LEFT = ('', ' ', '\t', '\n', '(', ')', ',', ';', '=')
# (the last context repeats every closer later in the text, inside a string literal: a region rule that looks past its own
# terminator - nested comments, greedy bodies - runs on to it)
C14_RIGHT_REGION = ('', ' ', '\t', '\n', '(', ')', ',', ';', '=', " x '*/ $$ $t$ \" ` )' y")
C14_RIGHT_WORD = ('', ' ', '\t', '\n', ')', ',', ';', '=', '+')
C14_CASINGS = ('upper', 'lower', 'capitalised', 'alternating')
C14_NON_WORDS = ['foo', 'bar', 'tbl', 'col1', 'x1', 'naïve', '業者', 'my_col', '_x', 'a1$', 'x#y', 'q', 'zz', 'selects', 'fromage', 'ends',
                 'endif', 'e1', 'x0x', 'ascii_', 'groupby', 'notnull', 'go2', 'ß', 'Àb', 'unionall', 'a_b_c', 'tbl_2', 'col$', 'v#',
                 'ilikes', 'joined', 'created', 'casex', 'asx', 'inx', 'usingx', 'valuesx', 'fromx', 'é1']


def _c14_letters(kind, alphabet):
    op, cl, _ = C14_KINDS[kind]
    if kind in ('sq', 'dq', 'bt'):
        return [c for c in alphabet if c != cl and c != '\\'] + [cl + cl]
    if kind in ('slc', 'slc_crlf'):
        return [c for c in alphabet if c not in '\r\n']
    return list(alphabet)


def _c14_body_ok(kind, body):
    op, cl, _ = C14_KINDS[kind]
    if kind in ('sq', 'dq', 'bt'):
        return '\\' not in body and cl not in body.replace(cl + cl, '')
    if kind in ('slc', 'slc_crlf'):
        return '\n' not in body and '\r' not in body
    return (body + cl).find(cl) == len(body)


def _c14_casing(word, casing):
    if casing == 'upper':
        return word.upper()
    if casing == 'lower':
        return word.lower()
    if casing == 'capitalised':
        return word[:1].upper() + word[1:].lower()
    return ''.join(c.upper() if i % 2 else c.lower() for i, c in enumerate(word))


def _c14_dicts():
    """the dictionaries in registration order (data read from the real lexer, not its lookup logic)"""
    _, _, _, lexer, kw = _lib()
    try:
        ds = list(lexer.Lexer.get_default_instance()._keywords)
        if ds:
            return ds
    except Exception:   # noqa: BLE001
        pass
    names = ['KEYWORDS_COMMON', 'KEYWORDS_ORACLE', 'KEYWORDS_MYSQL', 'KEYWORDS_PLPGSQL', 'KEYWORDS_HQL', 'KEYWORDS_MSACCESS',
             'KEYWORDS_SNOWFLAKE', 'KEYWORDS_BIGQUERY', 'KEYWORDS']
    return [getattr(kw, n) for n in names if hasattr(kw, n)]


def _c14_expected_word_type(word):
    """None when no rule full-matches the word alone (then it is not a lexical word and the property is silent)"""
    _, _, T, _, kw = _lib()
    for rx, act in _own_rules():
        m = rx.fullmatch(word)
        if not m:
            continue
        if act is kw.PROCESS_AS_KEYWORD:
            up = word.upper()
            for d in _c14_dicts():
                if up in d:
                    return d[up]
            return T.Name
        return act
    return None


def _c14_find(toks, start, end):
    """token exactly covering [start, end) -> its type; else a description"""
    pos = 0
    for tt, v in toks:
        e = pos + len(v)
        if pos == start and e == end:
            return tt, None
        if pos < end and e > start:
            return None, 'token %r spans [%d,%d), wanted [%d,%d)' % (v, pos, e, start, end)
        pos = e
    return None, 'no token at [%d,%d)' % (start, end)


@_total
def oracle_C14(case):
    _, _, T, lexer, _ = _lib()
    if case[0] == 'region':
        _, kind, left, body, right = case
        op, cl, path = C14_KINDS[kind]
        exp = T
        for p in path:
            exp = getattr(exp, p)
        region = op + body + cl
        for l in (C14_LEFT if left is None else (left,)):
            for r in (C14_RIGHT_REGION if right is None else (right,)):
                text = l + region + r
                try:
                    toks = list(lexer.tokenize(text))
                except Exception as e:   # noqa: BLE001
                    return _exc(e, text, 'tokenize')
                tt, why = _c14_find(toks, len(l), len(l) + len(region))
                if why is not None:
                    return _fail('region-not-one-token', text, _clip(repr(toks), 200), 'one token ' + repr(region), kind=kind,
                                 detail=why)
                if tt is None or tt not in exp:
                    return _fail('region-wrong-type', text, repr(tt), repr(exp), kind=kind)
        return None
    if case[0] == 'word':
        _, word, casing, left, right = case
        exp = _c14_expected_word_type(word)
        if exp is None:
            return None
        w = _c14_casing(word, casing)
        if w.upper() != word.upper():
            return None      # a case mapping that is not a pure re-casing (non-ASCII specials): outside the statement
        for l in (C14_LEFT if left is None else (left,)):
            for r in (C14_RIGHT_WORD if right is None else (right,)):
                text = l + w + r
                try:
                    toks = list(lexer.tokenize(text))
                except Exception as e:   # noqa: BLE001
                    return _exc(e, text, 'tokenize')
                tt, why = _c14_find(toks, len(l), len(l) + len(w))
                if why is not None:
                    return _fail('word-not-one-token', text, _clip(repr(toks), 200), 'one token ' + repr(w), detail=why)
                if tt is not exp:
                    return _fail('word-wrong-type', text, repr(tt), repr(exp))
        return None
    return _fail('bad-case', case, None, None)


def _c14_words():
    _, _, _, _, kw = _lib()
    seen = set()
    out = []
    for name in sorted(n for n in dir(kw) if n.startswith('KEYWORDS') and isinstance(getattr(kw, n), dict)):
        for w in getattr(kw, name):
            if w not in seen:
                seen.add(w)
                out.append(w)
    out.sort()
    return out


# further delimiters as left context (operators and punctuation that cannot fuse with an opener)
C14_LEFT_MORE = (':', '::', '+', '*', '<', '>', '|', '||', '%', '~', '^', '?', '&', '!=', '->', '@>', '.')


def cases_C14(tier, seed):
    quick = tier == 'quick'
    for kind in C14_KINDS:
        letters = _c14_letters(kind, SUB_ALPHABET)
        for k in range(0, 3):
            for t in itertools.product(letters, repeat=k):
                body = ''.join(t)
                if _c14_body_ok(kind, body):
                    for left in C14_LEFT_MORE:
                        yield ('region', kind, left, body, '')
                        if k <= 1:
                            yield ('region', kind, left, body, ' x')
    for w in _c14_words() + C14_NON_WORDS:
        for casing in C14_CASINGS:
            yield ('word', w, casing, None, None)
    # "whatever characters the body contains": a backslash in a quoted body.  The rules read a backslash in front of a quote
    # as an escape when that lets them go on, so such a region is one token as long as no further quote of its kind follows:
    # contexts without a quote only, bodies without a quote (a backslash next to a doubled quote is read as an escaped quote
    # plus a closing quote: the escape convention the rules implement, outside the statement as drawn here)
    for kind in ('sq', 'dq', 'bt'):
        op, cl, _ = C14_KINDS[kind]
        for body in ('\\', 'a\\', '\\a', 'C:\\temp\\', '\\\\', 'a\\b', ' \\', '\\ ', '\\n', 'x\\\\y\\'):
            for left in ('', ' ', '(', '=', ','):
                for right in ('', ' ', ')', ';', '\n', ' x', ', y'):
                    yield ('region', kind, left, body, right)
    for kind in C14_KINDS:
        letters = _c14_letters(kind, domain.ALPHABET)
        for k in range(0, 3):
            for t in itertools.product(letters, repeat=k):
                body = ''.join(t)
                if _c14_body_ok(kind, body):
                    yield ('region', kind, None, body, None)
    rnd = random.Random(seed * 53 + 17)

    def with_ctx(kind, body):
        yield ('region', kind, '', body, '')
        yield ('region', kind, rnd.choice(C14_LEFT), body, rnd.choice(C14_RIGHT_REGION))
    kinds = list(C14_KINDS)
    if quick:
        for kind in kinds:
            if kind == 'slc_crlf':
                continue
            letters = _c14_letters(kind, SUB_ALPHABET)
            for t in itertools.product(letters, repeat=3):
                body = ''.join(t)
                if _c14_body_ok(kind, body):
                    yield from with_ctx(kind, body)
        for _ in range(100000):
            kind = rnd.choice(kinds)
            letters = _c14_letters(kind, domain.ALPHABET)
            body = ''.join(rnd.choice(letters) for _ in range(3))
            if _c14_body_ok(kind, body):
                yield from with_ctx(kind, body)
    else:
        for kind in kinds:
            letters = _c14_letters(kind, domain.ALPHABET)
            for t in itertools.product(letters, repeat=3):
                body = ''.join(t)
                if _c14_body_ok(kind, body):
                    yield ('region', kind, rnd.choice(C14_LEFT), body, rnd.choice(C14_RIGHT_REGION))
        for _ in range(1500000):
            kind = rnd.choice(kinds)
            letters = _c14_letters(kind, domain.ALPHABET)
            body = ''.join(rnd.choice(letters) for _ in range(4))
            if _c14_body_ok(kind, body):
                yield ('region', kind, rnd.choice(C14_LEFT), body, rnd.choice(C14_RIGHT_REGION))


def classify_C14(case, failure):
    return None


def smoke_C14():
    return [('region', 'sq', None, "a''; --", None), ('region', 'dq', None, "x'/*", None), ('region', 'bt', '(', '``;', ')'),
            ('region', 'dollar', None, ' $ ; $t$ ', None), ('region', 'dtag', None, '$$;\n', None), ('region', 'mlc', None, "+';--\n", None),
            ('region', 'slc', None, "+ /* ' ;", None), ('word', 'SELECT', 'alternating', None, None),
            ('word', 'END', 'lower', None, None), ('word', 'foo', 'upper', None, None), ('word', 'ILIKE', 'capitalised', None, None)]



# ======================================================================================================== C17

RULE_C17 = ('C17: cases (forms, declare, script, cores): script = plain ; proc ; plain [;] with the three statements drawn from '
            'Grammar.plain_stmt() / Grammar.proc(d in 1..2, forms, declare), keyword case upper/lower/mixed, inner separators '
            'blank/newline/indent (half of the cases also tab, CR, CRLF, block and line comments), separators around the ";" '
            'as in C05.  Form sets generated: each of if, while_do, loop, block, case_expr alone and all five together '
            '(believed to hold), for_loop, while_loop, case_stmt alone, and declare=True with the five good forms (DESIGN 6: '
            'known deviations).  The case carries the sorted tuple of forms that actually occur in the generated body '
            '(detected from the lexemes; "none" when the body has only simple statements) so failures group by form.  '
            'Expected: split() and parse() give exactly 3 statements (a 4th piece made only of trailing comments is tolerated), '
            'piece i covers the i-th generated statement with its ";" -- so the procedure ends at the ";" after its final '
            'END and the neighbours are unchanged.  quick: 9 configurations x 400 scripts; thorough: x 6 000.')

C17_CONFIGS = [
    (('if',), False), (('while_do',), False), (('loop',), False), (('block',), False), (('case_expr',), False),
    (('if', 'while_do', 'loop', 'block', 'case_expr'), False),
    (('for_loop',), False), (('while_loop',), False), (('case_stmt',), False),
    (('if', 'while_do', 'loop', 'block', 'case_expr'), True),
]


def _c17_used_forms(lexemes, declare):
    up = [x.upper() for x in lexemes]
    n = up.count
    end_case = sum(1 for i in range(len(up) - 1) if up[i] == 'END' and up[i + 1] == 'CASE')
    used = set()
    if n('IF'):
        used.add('if')
    if n('DO'):
        used.add('while_do')
    if n('FOR'):
        used.add('for_loop')
    while_loop = n('WHILE') - n('DO')
    if while_loop > 0:
        used.add('while_loop')
    if n('LOOP') - n('FOR') - while_loop > 0:
        used.add('loop')
    if n('BEGIN') > 1:
        used.add('block')
    if end_case:
        used.add('case_stmt')
    if n('CASE') - 2 * end_case > 0:
        used.add('case_expr')
    if declare:
        used.add('declare')
    return tuple(sorted(used)) or ('none',)


def _c17_script(rnd, forms, declare):
    g = domain.Grammar(seed=rnd.randrange(1 << 30), max_depth=rnd.choice((1, 1, 2)),
                       kw_case=rnd.choice(('upper', 'lower', 'mixed', 'upper')))
    pre = g.plain_stmt()
    proc = g.proc(d=rnd.choice((1, 2)), forms=forms, declare=declare)
    post = g.plain_stmt()
    used = _c17_used_forms(proc, declare)
    seps = INNER_SEPS if rnd.random() < 0.5 else PLAIN_SEPS + ('\n    ',)
    out = []
    pos = 0
    cores = []
    lead = rnd.choice(('', '', '\n', '-- c\n'))
    out.append(lead)
    pos += len(lead)
    for i, lx in enumerate((pre, proc, post)):
        s = domain.render(lx, rnd, seps=seps, glue=rnd.random() < 0.5)
        start = pos
        out.append(s)
        pos += len(s)
        if i < 2 or rnd.random() < 0.6:
            b = rnd.choice(BEFORE_SEMI)
            a = rnd.choice(AFTER_SEMI)
            out.append(b + ';' + a)
            cores.append((start, pos + len(b) + 1))
            pos += len(b) + 1 + len(a)
        else:
            cores.append((start, pos))
    return used, ''.join(out), tuple(cores)


def _c17_diagnose(sp, cores, total):
    """None when the pieces are exactly the generated statements, else a failure class"""
    k = len(cores)
    for i in range(k):
        cs, ce = cores[i]
        if i >= len(sp):
            return ('preceding-statement-swallows-procedure', 'following-statement-swallowed',
                    'following-statement-swallowed')[min(i, 2)] if i else 'no-statements'
        s, e = sp[i]
        nxt = cores[i + 1][0] if i + 1 < k else total + 1
        if s > cs or e <= cs:
            return ('preceding-statement-wrong', 'procedure-start-wrong', 'following-statement-wrong')[min(i, 2)]
        if e < ce:
            return ('preceding-statement-split-early', 'procedure-split-early', 'following-statement-split-early')[min(i, 2)]
        if e > nxt:
            return ('preceding-statement-swallows-procedure', 'following-statement-swallowed',
                    'following-statement-wrong')[min(i, 2)]
    if len(sp) != k:
        return 'extra-statements'
    return None


@_total
def oracle_C17(case):
    sqlparse = _lib()[0]
    forms, declare, script, cores = case
    k = len(cores)
    try:
        pieces = sqlparse.split(script)
        stmts = [str(s) for s in sqlparse.parse(script)]
    except Exception as e:   # noqa: BLE001
        return None if _is_parse_error(e) else _exc(e, script, 'split/parse', )
    spans, bad = _locate(script, pieces)
    if spans is None:
        return _fail('pieces-do-not-partition-text', script, repr(pieces), 'pieces in order', at_piece=bad, forms=forms)
    spans2 = []
    pos = 0
    for s in stmts:
        spans2.append((pos, pos + len(s)))
        pos += len(s)
    for sp in (spans, spans2):
        if len(sp) == k + 1 and sp[-1][0] >= cores[-1][1]:
            sp.pop()
    for nm, sp in (('split', spans), ('parse', spans2)):
        what = _c17_diagnose(sp, cores, len(script))
        if what is not None:
            return _fail(what, script, '%s -> %d pieces: %s' % (nm, len(sp), _clip(repr([_clip(script[s:e], 60) for s, e in sp]), 260)),
                         '%d pieces, each covering its statement' % k, forms=forms)
    return None


def _c17_nested_case_blocks():
    """blocks nested in the branches of CASE statements (and CASE statements / expressions nested in such blocks): what an
    END closes depends on which opener is innermost"""
    a, z = 'select 1;', 'select 2;'
    bodies = [
        'case x when 1 then begin select 1; end; end case;',
        'case x when 1 then select 1; when 2 then begin select 2; select 3; end; else begin v := 4; end; end case; select 4;',
        'case when a = 1 then begin v := case when b = 2 then 3 else 4 end; end; end case;',
        'case x when 1 then begin case y when 2 then begin select 5; end; end case; end; end case; return 6;',
        'if a = 1 then case x when 1 then begin select 1; end; end case; end if;',
        'begin case x when 1 then v := 1; end case; end; v := case when a = 1 then 2 else 3 end;',
    ]
    for b in bodies:
        for hdr in ('create procedure p() begin ', 'CREATE OR REPLACE FUNCTION f() RETURNS int AS BEGIN '):
            yield _c17_smoke_case(('case_stmt', 'block'), [a, hdr + b + (' end;' if hdr.islower() else ' END;'), z])


def cases_C17(tier, seed):
    per = 400 if tier == 'quick' else 6000
    for c in _c17_nested_case_blocks():
        yield c
    for ci, (forms, declare) in enumerate(C17_CONFIGS):
        rnd = random.Random(seed * 59 + 19 + ci)
        for _ in range(per):
            used, script, cores = _c17_script(rnd, forms, declare)
            yield (used, declare, script, cores)


def classify_C17(case, failure):
    return None


def _c17_smoke_case(forms, text_parts):
    pos = 0
    cores = []
    for p in text_parts:
        cores.append((pos, pos + len(p)))
        pos += len(p) + 1
    return (forms, False, '\n'.join(text_parts), tuple(cores))


def smoke_C17():
    a, z = 'select 1;', 'select 2;'
    return [
        _c17_smoke_case(('none',), [a, 'create function f() returns int as begin return 1; end;', z]),
        _c17_smoke_case(('if',), [a, 'create procedure p() begin if a = 1 then update t set x = 1; else return 2; end if; end;', z]),
        _c17_smoke_case(('while_do',), [a, 'CREATE PROCEDURE p() BEGIN WHILE a < 1 DO UPDATE t SET x = 1; END WHILE; END;', z]),
        _c17_smoke_case(('loop',), [a, 'create or replace function f() begin loop v := 1; end loop; end;', z]),
        _c17_smoke_case(('block',), [a, 'create function f() begin begin v := 1; end; return v; end;', z]),
        _c17_smoke_case(('case_expr',), [a, 'create function f() begin v := case when a = 1 then 2 else 3 end; end;', z]),
    ]

