"""Python regular expressions (the subset the lexer's region rules use) as z3 regular languages.

translate(pattern) -> Lang(re=<z3 regex of the texts the pattern can match>, lazy=<every quantifier is lazy>,
                          greedy=<every quantifier is greedy>)   or raises Unsupported

What is modelled: literals (IGNORECASE: the case variants CPython's re accepts, found by asking re itself), character classes
with ranges, negation and the categories \\s \\S \\w \\W \\d \\D (their code-point sets are computed by asking re for every code
point below 0x30000, z3's character range), '.', groups, alternation, greedy and lazy repetition, '$' at the very end of the
pattern (as: end of match - see below).  NOT modelled (Unsupported): back references, look-arounds, \\b, anchors elsewhere.

The LANGUAGE says which texts a rule can match, not which one of several matching prefixes CPython's backtracking picks.
The obligations built on it (props/C14.py) are therefore: (O1) every well-formed region is in the language; (O2) no proper
prefix of a well-formed region is (then a rule whose quantifiers are all lazy, which stops at the first way to finish, ends
exactly at the region's end); (O3) no proper extension by a text that does not begin with the closing character is (then a
rule whose quantifiers are all greedy cannot run past the region).  Which prefix is chosen when several match is left to
the bounded family.

'$' inside the final alternation of a rule, e.g. (\\r\\n|\\r|\\n|$): the match may end without a line break only at the end of the
text (or before a final line break); the language keeps that alternative as the empty word and the obligations that use the
rule add the context condition themselves.
"""
import re
import functools

import z3

try:
    import re._parser as sre_parse
    import re._constants as sre_c
except ImportError:      # pragma: no cover
    import sre_parse
    import sre_constants as sre_c

MAXCP = 0x2FFFF
FLAGS = re.IGNORECASE | re.UNICODE


class Unsupported(Exception):
    pass


class Lang:
    def __init__(self, rx, lazy, greedy, ends_with_eot_alternative):
        self.re = rx
        self.lazy = lazy
        self.greedy = greedy
        self.eot = ends_with_eot_alternative


def _ranges(codepoints):
    out = []
    start = prev = None
    for c in codepoints:
        if start is None:
            start = prev = c
        elif c == prev + 1:
            prev = c
        else:
            out.append((start, prev))
            start = prev = c
    if start is not None:
        out.append((start, prev))
    return out


@functools.lru_cache(None)
def category_ranges(cat):
    """code points below 0x30000 in the category, by asking re (so that the sets are CPython's own)"""
    pat = {'space': r'\s', 'word': r'\w', 'digit': r'\d'}[cat]
    rx = re.compile(pat, re.UNICODE)
    return tuple(_ranges(c for c in range(MAXCP + 1) if rx.match(chr(c))))


@functools.lru_cache(None)
def case_variants(ch):
    """all characters that re.IGNORECASE treats as equal to ch (asked from re for every code point)"""
    if not (ch.lower() != ch or ch.upper() != ch or ch.casefold() != ch):
        cands = {ch}
    else:
        cands = None
    if cands is None:
        rx = re.compile(re.escape(ch), FLAGS)
        cands = {chr(c) for c in range(MAXCP + 1) if rx.fullmatch(chr(c))}
    return frozenset(cands)


def _chr(c):
    return z3.StringVal(chr(c))


def _set_re(ranges):
    parts = []
    for a, b in ranges:
        parts.append(z3.Re(_chr(a)) if a == b else z3.Range(_chr(a), _chr(b)))
    if not parts:
        return z3.Empty(z3.ReSort(z3.StringSort()))
    return parts[0] if len(parts) == 1 else z3.Union(*parts)


def _complement_ranges(ranges):
    out = []
    nxt = 0
    for a, b in sorted(ranges):
        if a > nxt:
            out.append((nxt, a - 1))
        nxt = max(nxt, b + 1)
    if nxt <= MAXCP:
        out.append((nxt, MAXCP))
    return out


def _merge(ranges):
    out = []
    for a, b in sorted(ranges):
        if out and a <= out[-1][1] + 1:
            out[-1] = (out[-1][0], max(out[-1][1], b))
        else:
            out.append((a, b))
    return out


class _Tr:
    def __init__(self, flags):
        self.icase = bool(flags & re.IGNORECASE)
        self.lazy = True
        self.greedy = True
        self.eot = False
        self.eot_dropped = False
        self.eot_as = 'epsilon'

    def lit_ranges(self, c):
        ch = chr(c)
        if self.icase:
            return [(ord(x), ord(x)) for x in case_variants(ch)]
        return [(c, c)]

    def cls(self, items):
        neg = False
        rs = []
        for op, av in items:
            if op is sre_c.NEGATE:
                neg = True
            elif op is sre_c.LITERAL:
                rs += self.lit_ranges(av)
            elif op is sre_c.RANGE:
                lo, hi = av
                rs.append((lo, hi))
                if self.icase:
                    # case variants of a range: asked from re for the whole class below (cheap for the rules at hand)
                    rx = re.compile('[%s-%s]' % (re.escape(chr(lo)), re.escape(chr(hi))), FLAGS)
                    rs += _ranges(c for c in range(MAXCP + 1) if rx.match(chr(c)))
            elif op is sre_c.CATEGORY:
                name = str(av).lower()
                base = 'space' if 'space' in name else 'word' if 'word' in name else 'digit' if 'digit' in name else None
                if base is None:
                    raise Unsupported('category %s' % av)
                r = list(category_ranges(base))
                rs += _complement_ranges(r) if '_not_' in name else r
            else:
                raise Unsupported('class item %s' % (op,))
        rs = _merge(rs)
        return _complement_ranges(rs) if neg else rs

    def seq(self, items, last=True):
        parts = []
        n = len(items)
        for i, (op, av) in enumerate(items):
            parts.append(self.one(op, av, last and i == n - 1))
        if not parts:
            return z3.Re(z3.StringVal(''))
        return parts[0] if len(parts) == 1 else z3.Concat(*parts)

    def one(self, op, av, last):
        if op is sre_c.LITERAL:
            return _set_re(_merge(self.lit_ranges(av)))
        if op is sre_c.NOT_LITERAL:
            return _set_re(_complement_ranges(_merge(self.lit_ranges(av))))
        if op is sre_c.ANY:
            return _set_re(_complement_ranges([(10, 10)]))
        if op is sre_c.IN:
            return _set_re(self.cls(av))
        if op is sre_c.BRANCH:
            alts = [self.seq(list(p), last) for p in av[1]]
            return z3.Union(*alts) if len(alts) > 1 else alts[0]
        if op is sre_c.SUBPATTERN:
            if av[1] or av[2]:
                raise Unsupported('inline flags')
            return self.seq(list(av[3]), last)
        if op in (sre_c.MAX_REPEAT, sre_c.MIN_REPEAT):
            lo, hi, p = av
            if op is sre_c.MAX_REPEAT:
                self.lazy = False
            else:
                self.greedy = False
            inner = self.seq(list(p), False)
            if hi is sre_c.MAXREPEAT:
                if lo == 0:
                    return z3.Star(inner)
                if lo == 1:
                    return z3.Plus(inner)
                return z3.Concat(z3.Loop(inner, lo, lo), z3.Star(inner))
            if lo == 0 and hi == 1:
                return z3.Option(inner)
            return z3.Loop(inner, lo, hi)
        if op is sre_c.AT:
            if av is sre_c.AT_END and last:
                self.eot = True
                return z3.Empty(z3.ReSort(z3.StringSort())) if self.eot_as == 'none' else z3.Re(z3.StringVal(''))
            if av is sre_c.AT_END:
                # '$' followed by more pattern: such an alternative can only match at the very end of the text (everything
                # after it must match the empty word there); it is left out of the language of matches INSIDE a text
                self.eot_dropped = True
                return z3.Empty(z3.ReSort(z3.StringSort()))
            raise Unsupported('anchor %s' % av)
        raise Unsupported(str(op))


def translate(pattern, flags=FLAGS, eot_as='epsilon'):
    """eot_as: what a final '$' contributes - 'epsilon' (the match may end here: end of text) or 'none' (matches that end
    INSIDE a text only)"""
    tree = sre_parse.parse(pattern, flags)
    tr = _Tr(flags)
    tr.eot_as = eot_as
    rx = tr.seq(list(tree), True)
    L = Lang(rx, tr.lazy, tr.greedy, tr.eot)
    L.eot_dropped = tr.eot_dropped
    return L


def any_char():
    return _set_re([(0, MAXCP)])


def all_strings():
    return z3.Star(any_char())


def not_chars(chars):
    return _set_re(_complement_ranges(_merge([(ord(c), ord(c)) for c in chars])))


def lit(s):
    return z3.Re(z3.StringVal(s))


def decide_empty(constraints, timeout_ms=20000):
    """(verdict, model): 'unsat' when no strings satisfy the constraints"""
    s = z3.Solver()
    s.set('timeout', timeout_ms)
    s.add(*constraints)
    r = s.check()
    if r == z3.sat:
        return 'sat', s.model()
    return ('unsat' if r == z3.unsat else 'unknown'), None
