"""Python regular expressions (the subset the lexer's region rules use) as z3 regular languages.

translate(pattern) -> Lang(re=<z3 regex of the texts the pattern can match>, lazy=<every quantifier is lazy>,
                          greedy=<every quantifier is greedy>)   or raises Unsupported

What is modelled: literals (IGNORECASE: the case variants CPython's re accepts, found by asking re itself), character classes
with ranges, negation and the categories \\s \\S \\w \\W \\d \\D (their code-point sets are computed by asking re for every code
point below 0x30000, z3's character range), '.', groups, alternation, greedy and lazy repetition, '$' at the very end of the
pattern (as: end of match - see below).  NOT modelled (Unsupported): back references, look-arounds, \\b, anchors elsewhere.

The LANGUAGE says which texts a rule can match, not which one of several matching prefixes CPython's backtracking picks.
The obligations built on it (props/C14.py) are therefore: (O1) every well-formed region is in the language; (O2) no proper
prefix of a well-formed region is (then a rule whose quantifiers are all lazy, which stops at the first way to finish, ends
exactly at the region's end); (O3) no proper extension by a text that does not begin with the closing character is (then a
rule whose quantifiers are all greedy cannot run past the region).  Which prefix is chosen when several match is left to
the bounded family.

'$' inside the final alternation of a rule, e.g. (\\r\\n|\\r|\\n|$): the match may end without a line break only at the end of the
text (or before a final line break); the language keeps that alternative as the empty word and the obligations that use the
rule add the context condition themselves.
"""
import re
import functools

import z3

try:
    import re._parser as sre_parse
    import re._constants as sre_c
except ImportError:      # pragma: no cover
    import sre_parse
    import sre_constants as sre_c

MAXCP = 0x2FFFF
FLAGS = re.IGNORECASE | re.UNICODE


class Unsupported(Exception):
    pass


class Lang:
    def __init__(self, rx, lazy, greedy, ends_with_eot_alternative):
        self.re = rx
        self.lazy = lazy
        self.greedy = greedy
        self.eot = ends_with_eot_alternative


def _ranges(codepoints):
    out = []
    start = prev = None
    for c in codepoints:
        if start is None:
            start = prev = c
        elif c == prev + 1:
            prev = c
        else:
            out.append((start, prev))
            start = prev = c
    if start is not None:
        out.append((start, prev))
    return out


@functools.lru_cache(None)
def category_ranges(cat):
    """code points below 0x30000 in the category, by asking re (so that the sets are CPython's own)"""
    pat = {'space': r'\s', 'word': r'\w', 'digit': r'\d'}[cat]
    rx = re.compile(pat, re.UNICODE)
    return tuple(_ranges(c for c in range(MAXCP + 1) if rx.match(chr(c))))


@functools.lru_cache(None)
def case_variants(ch):
    """all characters that re.IGNORECASE treats as equal to ch (asked from re for every code point)"""
    if not (ch.lower() != ch or ch.upper() != ch or ch.casefold() != ch):
        cands = {ch}
    else:
        cands = None
    if cands is None:
        rx = re.compile(re.escape(ch), FLAGS)
        cands = {chr(c) for c in range(MAXCP + 1) if rx.fullmatch(chr(c))}
    return frozenset(cands)


def _chr(c):
    return z3.StringVal(chr(c))


def _set_re(ranges):
    parts = []
    for a, b in ranges:
        parts.append(z3.Re(_chr(a)) if a == b else z3.Range(_chr(a), _chr(b)))
    if not parts:
        return z3.Empty(z3.ReSort(z3.StringSort()))
    return parts[0] if len(parts) == 1 else z3.Union(*parts)


def _complement_ranges(ranges):
    out = []
    nxt = 0
    for a, b in sorted(ranges):
        if a > nxt:
            out.append((nxt, a - 1))
        nxt = max(nxt, b + 1)
    if nxt <= MAXCP:
        out.append((nxt, MAXCP))
    return out


def _merge(ranges):
    out = []
    for a, b in sorted(ranges):
        if out and a <= out[-1][1] + 1:
            out[-1] = (out[-1][0], max(out[-1][1], b))
        else:
            out.append((a, b))
    return out


class _Tr:
    def __init__(self, flags):
        self.icase = bool(flags & re.IGNORECASE)
        self.lazy = True
        self.greedy = True
        self.eot = False
        self.eot_dropped = False
        self.eot_as = 'epsilon'

    def lit_ranges(self, c):
        ch = chr(c)
        if self.icase:
            return [(ord(x), ord(x)) for x in case_variants(ch)]
        return [(c, c)]

    def cls(self, items):
        neg = False
        rs = []
        for op, av in items:
            if op is sre_c.NEGATE:
                neg = True
            elif op is sre_c.LITERAL:
                rs += self.lit_ranges(av)
            elif op is sre_c.RANGE:
                lo, hi = av
                rs.append((lo, hi))
                if self.icase:
                    # case variants of a range: asked from re for the whole class below (cheap for the rules at hand)
                    rx = re.compile('[%s-%s]' % (re.escape(chr(lo)), re.escape(chr(hi))), FLAGS)
                    rs += _ranges(c for c in range(MAXCP + 1) if rx.match(chr(c)))
            elif op is sre_c.CATEGORY:
                name = str(av).lower()
                base = 'space' if 'space' in name else 'word' if 'word' in name else 'digit' if 'digit' in name else None
                if base is None:
                    raise Unsupported('category %s' % av)
                r = list(category_ranges(base))
                rs += _complement_ranges(r) if '_not_' in name else r
            else:
                raise Unsupported('class item %s' % (op,))
        rs = _merge(rs)
        return _complement_ranges(rs) if neg else rs

    def seq(self, items, last=True):
        parts = []
        n = len(items)
        for i, (op, av) in enumerate(items):
            parts.append(self.one(op, av, last and i == n - 1))
        if not parts:
            return z3.Re(z3.StringVal(''))
        return parts[0] if len(parts) == 1 else z3.Concat(*parts)

    def one(self, op, av, last):
        if op is sre_c.LITERAL:
            return _set_re(_merge(self.lit_ranges(av)))
        if op is sre_c.NOT_LITERAL:
            return _set_re(_complement_ranges(_merge(self.lit_ranges(av))))
        if op is sre_c.ANY:
            return _set_re(_complement_ranges([(10, 10)]))
        if op is sre_c.IN:
            return _set_re(self.cls(av))
        if op is sre_c.BRANCH:
            alts = [self.seq(list(p), last) for p in av[1]]
            return z3.Union(*alts) if len(alts) > 1 else alts[0]
        if op is sre_c.SUBPATTERN:
            if av[1] or av[2]:
                raise Unsupported('inline flags')
            return self.seq(list(av[3]), last)
        if op in (sre_c.MAX_REPEAT, sre_c.MIN_REPEAT):
            lo, hi, p = av
            if op is sre_c.MAX_REPEAT:
                self.lazy = False
            else:
                self.greedy = False
            inner = self.seq(list(p), False)
            if hi is sre_c.MAXREPEAT:
                if lo == 0:
                    return z3.Star(inner)
                if lo == 1:
                    return z3.Plus(inner)
                return z3.Concat(z3.Loop(inner, lo, lo), z3.Star(inner))
            if lo == 0 and hi == 1:
                return z3.Option(inner)
            return z3.Loop(inner, lo, hi)
        if op is sre_c.AT:
            if av is sre_c.AT_END and last:
                self.eot = True
                return z3.Empty(z3.ReSort(z3.StringSort())) if self.eot_as == 'none' else z3.Re(z3.StringVal(''))
            if av is sre_c.AT_END:
                # '$' followed by more pattern: such an alternative can only match at the very end of the text (everything
                # after it must match the empty word there); it is left out of the language of matches INSIDE a text
                self.eot_dropped = True
                return z3.Empty(z3.ReSort(z3.StringSort()))
            raise Unsupported('anchor %s' % av)
        raise Unsupported(str(op))


def translate(pattern, flags=FLAGS, eot_as='epsilon'):
    """eot_as: what a final '$' contributes - 'epsilon' (the match may end here: end of text) or 'none' (matches that end
    INSIDE a text only)"""
    tree = sre_parse.parse(pattern, flags)
    tr = _Tr(flags)
    tr.eot_as = eot_as
    rx = tr.seq(list(tree), True)
    L = Lang(rx, tr.lazy, tr.greedy, tr.eot)
    L.eot_dropped = tr.eot_dropped
    return L


# ---------------------------------------------------------------------------------------------- rules with context
# A rule with a look-behind at the start of the match and/or single-character look-aheads outside any repetition is a
# finite union of CONTEXTED BRANCHES (lb, rx, la): the rule matches the text m at a position with the text `left` before
# it and `right` after it iff for some branch  left in lb,  m in rx,  right in la  (lb / la None = no condition).

def _single_class(tr, p):
    """ranges of a look-around body that is exactly one character (literal, class, category), else None"""
    p = list(p)
    if len(p) != 1:
        return None
    op, av = p[0]
    if op is sre_c.LITERAL:
        return _merge(tr.lit_ranges(av))
    if op is sre_c.NOT_LITERAL:
        return _complement_ranges(_merge(tr.lit_ranges(av)))
    if op is sre_c.IN:
        return tr.cls(av)
    return None


def _has_ctx(items):
    for op, av in items:
        if op in (sre_c.ASSERT, sre_c.ASSERT_NOT):
            return True
        if op is sre_c.AT and av is sre_c.AT_BOUNDARY:
            return True
        if op is sre_c.BRANCH and any(_has_ctx(list(p)) for p in av[1]):
            return True
        if op is sre_c.SUBPATTERN and _has_ctx(list(av[3])):
            return True
        if op in (sre_c.MAX_REPEAT, sre_c.MIN_REPEAT) and _has_ctx(list(av[2])):
            return True
    return False


def _lastset(tr, items):
    """(ranges of the characters a text of the item sequence can END with, can the sequence match the empty text?)"""
    out, nullable = [], True
    for op, av in reversed(list(items)):
        if op is sre_c.LITERAL:
            r, n = tr.lit_ranges(av), False
        elif op is sre_c.NOT_LITERAL:
            r, n = _complement_ranges(_merge(tr.lit_ranges(av))), False
        elif op is sre_c.ANY:
            r, n = _complement_ranges([(10, 10)]), False
        elif op is sre_c.IN:
            r, n = tr.cls(av), False
        elif op is sre_c.BRANCH:
            r, n = [], False
            for p in av[1]:
                r1, n1 = _lastset(tr, list(p))
                r += r1
                n = n or n1
        elif op is sre_c.SUBPATTERN:
            r, n = _lastset(tr, list(av[3]))
        elif op in (sre_c.MAX_REPEAT, sre_c.MIN_REPEAT):
            r, n = _lastset(tr, list(av[2]))
            n = n or av[0] == 0
        else:
            raise Unsupported('last character of %s' % (op,))
        out += r
        if not n:
            nullable = False
            break
    return _merge(out), nullable


def _subset(ranges, of):
    of = _merge(list(of))
    return all(any(a >= c and b <= d for c, d in of) for a, b in ranges)


def _and(a, b):
    """conjunction of context conditions: tuples of (ranges, negated) on ONE neighbouring character"""
    return (a or ()) + (b or ()) or None


def ctx_holds(cond, neighbour):
    """does the neighbouring character ('' = none: start / end of the text) satisfy the condition?"""
    for ranges, neg in cond or ():
        inside = bool(neighbour) and any(a <= ord(neighbour[0]) <= b for a, b in ranges)
        if inside == neg:
            return False
    return True


def _ctx_seq(tr, items, at_start):
    """contexted branches of the item sequence (the rest of the pattern from here on)"""
    items = list(items)
    if not _has_ctx(items):
        return [(None, tr.seq(items, True), None)]
    for i, (op, av) in enumerate(items):
        if op is sre_c.SUBPATTERN and _has_ctx(list(av[3])):
            if av[1] or av[2]:
                raise Unsupported('inline flags')
            # a group is transparent for the language: splice its items in
            return _ctx_seq(tr, items[:i] + list(av[3]) + items[i + 1:], at_start)
        if op is sre_c.BRANCH and any(_has_ctx(list(p)) for p in av[1]):
            out = []
            for p in av[1]:
                out += _ctx_seq(tr, items[:i] + list(p) + items[i + 1:], at_start)
            return out
        if op in (sre_c.MAX_REPEAT, sre_c.MIN_REPEAT) and _has_ctx(list(av[2])):
            raise Unsupported('look-around inside a repetition')
        if op is sre_c.AT and av is sre_c.AT_BOUNDARY:
            # \\b as the LAST item, behind a text that always ends in a word character: the next character is not one
            if items[i + 1:] or not items[:i]:
                raise Unsupported('\\b that is not at the end of the pattern')
            pre = tr.seq(items[:i], False)
            last, nullable = _lastset(tr, items[:i])
            if nullable or not _subset(last, category_ranges('word')):
                raise Unsupported('\\b behind a text that may end in a non-word character')
            return [(None, pre, ((tuple(category_ranges('word')), True),))]
        if op in (sre_c.ASSERT, sre_c.ASSERT_NOT):
            direction, p = av
            rs = _single_class(tr, p)
            if rs is None:
                raise Unsupported('look-around that is not one character')
            C = _set_re(rs)
            neg = op is sre_c.ASSERT_NOT
            before = items[:i]
            rest = _ctx_seq(tr, items[i + 1:], at_start and not before)
            if direction < 0:
                if before or not at_start:
                    raise Unsupported('look-behind that is not at the start of the match')
                lb = ((tuple(rs), neg),)
                return [(_and(lb, lb2), rx, la) for lb2, rx, la in rest]
            pre = tr.seq(before, False) if before else None
            out = []
            starts = z3.Concat(C, all_strings())
            for lb2, rx, la in rest:
                if lb2 is not None:
                    raise Unsupported('look-behind after a look-ahead')
                nonempty = z3.Intersect(rx, z3.Plus(any_char()), z3.Complement(starts) if neg else starts)
                empty = z3.Intersect(rx, z3.Re(z3.StringVal('')))
                la_e = _and(la, ((tuple(rs), neg),))
                for r2, l2 in ((nonempty, la), (empty, la_e)):
                    out.append((None, z3.Concat(pre, r2) if pre is not None else r2, l2))
            return out
    raise Unsupported('context operator not found')      # pragma: no cover


def translate_ctx(pattern, flags=FLAGS):
    """list of contexted branches (lb, rx, la) of the rule; a rule without look-arounds has the single branch
    (None, language, None)"""
    tree = sre_parse.parse(pattern, flags)
    tr = _Tr(flags)
    return _ctx_seq(tr, list(tree), True)


def any_char():
    return _set_re([(0, MAXCP)])


def all_strings():
    return z3.Star(any_char())


def not_chars(chars):
    return _set_re(_complement_ranges(_merge([(ord(c), ord(c)) for c in chars])))


def lit(s):
    return z3.Re(z3.StringVal(s))


class _Model:
    """string values of a model found in a child process"""

    def __init__(self, vals):
        self.vals = vals

    def eval(self, v, model_completion=True):
        return z3.StringVal(self.vals.get(str(v), ''))


def _decode(raw):
    return re.sub(r'\\u\{([0-9a-fA-F]+)\}', lambda k: chr(int(k.group(1), 16)), raw)


def decide_empty(constraints, timeout_ms=20000):
    """(verdict, model): 'unsat' when no strings satisfy the constraints.  The check runs in a forked child that is
    killed after the budget (z3's own timeout is not honoured inside some regex preprocessing steps)."""
    import os
    import pickle
    import select
    import signal
    rfd, wfd = os.pipe()
    pid = os.fork()
    if pid == 0:
        try:
            os.close(rfd)
            sv = z3.Solver()
            sv.set('timeout', timeout_ms)
            sv.add(*constraints)
            r = sv.check()
            if r == z3.sat:
                m = sv.model()
                vals = {}
                for d in m.decls():
                    try:
                        vals[d.name()] = _decode(m[d].as_string())
                    except Exception:       # noqa: BLE001
                        pass
                payload = ('sat', vals)
            else:
                payload = ('unsat' if r == z3.unsat else 'unknown', None)
            os.write(wfd, pickle.dumps(payload))
        finally:
            os._exit(0)
    os.close(wfd)
    data = b''
    try:
        ready, _, _ = select.select([rfd], [], [], timeout_ms / 1000.0 + 5)
        if ready:
            while True:
                chunk = os.read(rfd, 65536)
                if not chunk:
                    break
                data += chunk
    finally:
        os.close(rfd)
        try:
            os.kill(pid, signal.SIGKILL)
        except OSError:
            pass
        os.waitpid(pid, 0)
    if not data:
        return 'unknown', None
    v, vals = pickle.loads(data)
    return v, (_Model(vals) if vals is not None else None)


def accepts(rx, text):
    """is the concrete text in the language? (decided by z3 on a ground formula)"""
    v, _ = decide_empty([z3.InRe(z3.StringVal(text), rx)], 5000)
    return v == 'sat'
