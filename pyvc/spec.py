"""Sidecar contract registry and the per-function verification driver.

A contract is a class registered with @contract('<qualified name>', case='...') carrying:
  params    : {param: shape}          how to make the symbolic inputs ('str','int','bool','tt', callable(ex, st)->value)
  requires  : [expr]                  preconditions (assumed at entry, asserted at call sites)
  ensures   : [expr]                  postconditions at normal exit (over params, `result`, ghosts, old(...))
  raises    : [names]                 exception classes that may escape (default none)
  ghost     : {NAME: init-expr}       ghost variables
  loops     : {ordinal: {'inv': [expr], 'havoc': ['fld:K', ...]}}
  on_yield  : code                    ghost code run at every yield with `item` bound
  yield_asserts : [expr]              must hold at every yield
  inline    : True                    call sites take the body's strongest postcondition (loop-free helpers only)
  make_result(ex, st, env) -> [(st, value)]   shape of the result at call sites (modular use)
  model(ex, self, args, kw, st)       trusted library model (only for things outside the repo)
"""
import ast
import sys
import time
import traceback

import z3

from . import smt
from .core import Obl, DISCHARGED, FAILED, UNDECIDED, STALE, source, loops_of
from .symex import (Exec, State, Outcome, PyExc, OutsideSubset, Sym, SInt, SBool, SStr, STy, Rec, LRef, Opaque,
                    Func, World, fresh, fresh_int, fresh_str, fresh_bool)


class Registry(dict):
    def __init__(self):
        super().__init__()
        self.cases = {}          # (qualname, case) -> contract
        self.inline_ok = set()   # repo functions that may be inlined without a contract (loop-free helpers)

    def add(self, q, case, c):
        c.qualname, c.case = q, case
        self.cases[(q, case)] = c
        if case is None or getattr(c, 'callsite', False):
            self[q] = c


REG = Registry()


def contract(qualname, case=None):
    def deco(cls):
        REG.add(qualname, case, cls)
        return cls
    return deco


def module_globals(qualname):
    parts = qualname.split('.')
    for i in range(len(parts), 0, -1):
        m = sys.modules.get('.'.join(parts[:i]))
        if m is not None and hasattr(m, '__file__'):
            return vars(m)
    raise KeyError(qualname)


def make_param(ex, st, name, shape):
    if callable(shape):
        return shape(ex, st)
    if shape == 'str':
        return SStr(z3.String('in_' + name))
    if shape == 'int':
        return SInt(z3.Int('in_' + name))
    if shape == 'bool':
        return SBool(z3.Bool('in_' + name))
    if shape == 'tt':
        return STy(z3.Const('in_' + name, ex.W.TT))
    if shape == 'none':
        return None
    if shape == 'opaque':
        from .symex import Opaque
        return Opaque('in_' + name)
    raise ValueError('unknown shape %r' % (shape,))


class Verifier:
    """Runs one function under one contract case and turns the goals into obligations."""

    ExecClass = Exec

    def __init__(self, prop, reg=None):
        self.prop = prop
        self.reg = reg or REG
        self.stats = {'paths': 0, 'goals': 0}

    def verify(self, qualname, case=None, only=None):
        """returns list of Obl"""
        c = self.reg.cases.get((qualname, case))
        oid = '%s/%s%s' % (self.prop, qualname, '[%s]' % case if case else '')
        node = source().get(qualname)
        if c is None:
            return [Obl(oid + '/contract', qualname, status=STALE, detail={'reason': 'no contract'})]
        if node is None:
            return [Obl(oid + '/source', qualname, status=STALE,
                        detail={'reason': 'function no longer exists under this name'})]
        t0 = time.time()
        try:
            ex = getattr(c, 'exec_class', self.ExecClass)(self.reg, module_globals(qualname), qualname, c)
            ex.loop_ords = loops_of(node)
            ex.fn_node = node
            ex.top_contract = c        # (ex.contract changes while a helper is executed in place)
            missing = [k for k in (getattr(c, 'loops', None) or {}) if k not in ex.loop_ords]
            if missing:
                return [Obl(oid + '/loops', qualname, status=STALE,
                            detail={'reason': 'contract names loops %s that do not exist any more' % missing})]
            st = State()
            self.enter(ex, c, node, st)
            if getattr(c, 'decorated', False):
                res = self.run_decorated(ex, node, st, qualname)
            else:
                res = ex.exec_block(node.body, st)
            self.exits(ex, c, res)
        except OutsideSubset as e:
            return [Obl(oid + '/subset', qualname, status=UNDECIDED,
                        detail={'reason': 'outside the verified subset: %s' % e})]
        except PyExc as e:
            return [Obl(oid + '/subset', qualname, status=UNDECIDED,
                        detail={'reason': 'unexpected exception at top level: %s %s' % (e.cls_name, e.msg)})]
        gen_s = time.time() - t0
        return self.discharge(ex, oid, qualname, gen_s, only)

    def run_decorated(self, ex, node, st, qualname):
        """the function AS DECORATED in the source: the decorator expressions are evaluated and applied (innermost
        first) to the undecorated function, and the result is called with the parameters of the contract"""
        from .symex import Func, Outcome
        import ast as _ast
        if not node.decorator_list:
            raise OutsideSubset('contract speaks about the decorated function, but %s has no decorator' % qualname)
        f = Func(qualname + '.<undecorated>', node=node, closure=None)
        for dec in reversed(node.decorator_list):
            rr = ex.eval(dec, st)
            if len(rr) != 1:
                raise OutsideSubset('forking decorator expression')
            st, d = rr[0]
            rr = ex.call(d, [f], {}, st, dec)
            if len(rr) != 1:
                raise OutsideSubset('forking decorator application')
            st, f = rr[0]
        a = node.args
        args = [st.env[x.arg] for x in a.posonlyargs + a.args]
        kw = {x.arg: st.env[x.arg] for x in a.kwonlyargs}
        call = _ast.Call(func=_ast.Name(id=node.name, ctx=_ast.Load()), args=[], keywords=[])
        _ast.copy_location(call, node)
        return [(s, Outcome.RET, v) for s, v in ex.call(f, args, kw, st, call)]

    def enter(self, ex, c, node, st):
        a = node.args
        names = [x.arg for x in a.posonlyargs + a.args + a.kwonlyargs]
        params = getattr(c, 'params', {})
        pos = a.posonlyargs + a.args
        dflt = {x.arg: d for x, d in zip(pos[len(pos) - len(a.defaults):], a.defaults)}
        dflt.update({x.arg: d for x, d in zip(a.kwonlyargs, a.kw_defaults) if d is not None})
        for n in names:
            if n not in params:
                # a parameter the contract does not name (added after the contract was written): if it has an integer or
                # boolean default, the contract is proved for EVERY value of it (callers old and new are covered)
                d = dflt.get(n)
                if isinstance(d, ast.Constant) and isinstance(d.value, bool):
                    st.env[n] = make_param(ex, st, n, 'bool')
                elif isinstance(d, ast.Constant) and isinstance(d.value, int):
                    st.env[n] = make_param(ex, st, n, 'int')
                else:
                    raise OutsideSubset('contract gives no shape for parameter %s' % n)
                from .models import lib
                lib('parameter %s of %s is not named by its contract: proved for every %s value'
                    % (n, ex.fn, type(d.value).__name__))
                continue
            st.env[n] = make_param(ex, st, n, params[n])
        if a.vararg or a.kwarg:
            for extra in (a.vararg, a.kwarg):
                if extra is not None:
                    if extra.arg not in params:
                        raise OutsideSubset('no shape for *%s' % extra.arg)
                    st.env[extra.arg] = make_param(ex, st, extra.arg, params[extra.arg])
        for g, init in (getattr(c, 'ghost', None) or {}).items():
            st.ghost[g] = None
        for g, init in (getattr(c, 'ghost', None) or {}).items():
            st.ghost[g] = ex.eval1(ast.parse(init, mode='eval').body, st)
        gi = getattr(c, 'ghost_init', None)
        if gi:
            gi(ex, st)
        for r in getattr(c, 'requires', []):
            t = ex.spec(r, st)
            st.assume(z3.BoolVal(t) if isinstance(t, bool) else t)
        self.pre_state = st.fork()
        ex._old_state = self.pre_state
        if not smt.feasible(st.pc):
            raise OutsideSubset('vacuous: the preconditions are unsatisfiable')

    def exits(self, ex, c, res):
        allowed = getattr(c, 'raises', [])
        name = ex.fn
        n_ok = 0
        for s, oc, val in res:
            if oc == Outcome.RAISE:
                ok = any(_exc_sub(val.cls_name, a) for a in allowed)
                if not ok:
                    ex.goal('%s/raises[%s]' % (name, val.cls_name), s, False,
                            {'exception': val.cls_name, 'msg': val.msg, 'allowed': allowed})
                else:
                    n_ok += 1
                    ex.goal('%s/raises-only-allowed[%s]' % (name, val.cls_name), s, True,
                            {'exception': val.cls_name, 'allowed': allowed})
                continue
            if oc not in (Outcome.RET, Outcome.NEXT):
                raise OutsideSubset('loop control leaves function')
            n_ok += 1
            ex._old_state = self.pre_state
            # post_bind: ghost values computed ONCE in the exit state (e.g. the result of a pure query method), so
            # that the postconditions can refer to them by name instead of re-evaluating the call
            states = [(s, {'result': val})]
            for gname, gexpr in (getattr(c, 'post_bind', None) or {}).items():
                nxt = []
                for s_b, binds in states:
                    tmp = s_b.fork()
                    tmp.env.update(binds)
                    old_spec, ex._in_spec = getattr(ex, '_in_spec', False), True
                    old_facts, ex._facts = getattr(ex, '_facts', None), None
                    try:
                        rr = ex.eval(ast.parse(gexpr, mode='eval').body, tmp)
                    finally:
                        ex._in_spec, ex._facts = old_spec, old_facts
                    for s_r, v_r in rr:
                        if smt.feasible(s_r.pc):
                            b2 = dict(binds)
                            b2[gname] = v_r
                            s_r.env = dict(s_b.env)
                            nxt.append((s_r, b2))
                states = nxt
            for s_b, binds in states:
                for j, e in enumerate(getattr(c, 'ensures', [])):
                    try:
                        fm = ex.spec(e, s_b, binds)
                        info = {'ensures': e}
                    except PyExc as pe:
                        # a postcondition that is undefined in this exit state (e.g. result[0] of an empty result) does
                        # not hold there
                        fm = False
                        info = {'ensures': e, 'undefined in this exit state': '%s %s' % (pe.cls_name, pe.msg)}
                    ex.goal('%s/ensures#%d' % (name, j), s_b, fm, info)
        ex.feasible_paths = len(res)
        # vacuity canary: `ensures False` must be refutable, i.e. some normal exit is reachable
        ex.canary_refuted = any(oc in (Outcome.RET, Outcome.NEXT) and smt.feasible(s.pc) for s, oc, _v in res)

    def discharge(self, ex, oid, qualname, gen_s, only=None):
        groups = {}
        for g in ex.goals:
            groups.setdefault(g.name, []).append(g)
        obls = []
        if not ex.goals:
            return [Obl(oid + '/vacuity', qualname, status=UNDECIDED,
                        detail={'reason': 'no proof goals were generated (vacuous contract)'})]
        for name, gs in groups.items():
            short = name.split('/', 1)[1] if '/' in name else name
            if name.startswith(qualname):
                short = name[len(qualname):].lstrip('/')
            ob = Obl('%s/%s' % (oid, short), qualname, kind='smt', backend='z3')
            status, secs, detail = DISCHARGED, 0.0, {'paths': len(gs)}
            for g in gs:
                v, be, dt, m = smt.check(g.pc, g.formula)
                secs += dt
                if be != 'z3':
                    ob.backend = be
                if v == 'unsat':
                    continue
                if v == 'sat':
                    md = smt.model_to_dict(m)
                    unev = sorted(k for k in md if str(k).startswith('UNEVALUATED_'))
                    if unev:
                        # the counter-model runs through an all()/any() whose elements the engine did not evaluate (an
                        # unknown boolean): that is a gap of the engine, not a refutation
                        status = UNDECIDED
                        detail.update({'verdict': 'sat, but through an unevaluated all()/any()', 'unevaluated': unev,
                                       'path': g.trace[-12:], 'info': g.info, 'model': md})
                        continue
                    status = FAILED
                    detail.update({'verdict': 'sat', 'path': g.trace[-12:], 'info': g.info,
                                   'model': smt.model_to_dict(m)})
                    ob.witness = {"model": smt.model_to_dict(m)}
                    break
                status = UNDECIDED
                detail.update({'verdict': 'unknown', 'reason': str(m)[:300], 'path': g.trace[-12:], 'info': g.info})
            ob.status, ob.seconds, ob.detail = status, secs, detail
            obls.append(ob)
        if smt.CROSSCHECK:
            cr = dict(smt.STATS['cross'])
            base = getattr(self, '_cross_base', {'n': 0, 's': 0.0, 'unsat': 0, 'sat': 0, 'unknown': 0})
            delta = {k: (cr.get(k, 0) - base.get(k, 0)) for k in cr}
            self._cross_base = cr
            obls.append(Obl('%s/cvc5-agreement' % oid, qualname, kind='structural', backend='cvc5',
                            status=DISCHARGED if delta.get('sat', 0) == 0 else UNDECIDED,
                            detail={'goals re-checked by cvc5': delta.get('n', 0), 'cvc5 unsat (agrees)': delta.get('unsat', 0),
                                    'cvc5 unknown/timeout': delta.get('unknown', 0), 'cvc5 sat (disagrees)': delta.get('sat', 0),
                                    'seconds': round(delta.get('s', 0.0), 2)}))
        self.stats['paths'] += ex.feasible_paths
        self.stats['goals'] += len(ex.goals)
        obls.append(Obl('%s/feasible-paths>0' % oid, qualname, kind='structural', backend='structural',
                        status=DISCHARGED if ex.feasible_paths > 0 and (
                            getattr(ex, 'canary_refuted', True) != bool(getattr(ex.contract, 'no_normal_exit', False)))
                        else UNDECIDED,
                        detail={'feasible_paths': ex.feasible_paths, 'goals': len(ex.goals),
                                'canary_ensures_False_refuted': getattr(ex, 'canary_refuted', None),
                                'vc_generation_s': round(gen_s, 3)}))
        return obls


def _exc_sub(name, allowed):
    from .symex import exc_isinstance
    return exc_isinstance(name, [allowed])
