"""Structural facts about regular expressions, computed over CPython's own parse tree (re._parser).

These are total recursive functions over a finite tree: back end 'structural' (no solver).  The semantics of the
`re` engine itself is trusted (DESIGN 4.4); what is decided here is only what follows from the pattern's syntax.
"""
import re
import sys
import unicodedata

try:
    import re._parser as sre_parse
    import re._constants as C
except ImportError:  # pragma: no cover
    import sre_parse
    import sre_constants as C

FLAGS = re.IGNORECASE | re.UNICODE
INF = 1 << 30


def parse(pattern, flags=FLAGS):
    return sre_parse.parse(pattern, flags)


def minwidth(pattern, flags=FLAGS):
    """minimum number of characters any match of `pattern` consumes (own structural function)"""
    return _minw(parse(pattern, flags))


def _minw(seq):
    total = 0
    for op, av in seq:
        total += _minw_item(op, av)
    return min(total, INF)


def _minw_item(op, av):
    if op in (C.LITERAL, C.NOT_LITERAL, C.IN, C.ANY, C.RANGE, C.CATEGORY):
        return 1
    if op is C.BRANCH:
        return min(_minw(b) for b in av[1])
    if op in (C.MAX_REPEAT, C.MIN_REPEAT) or getattr(C, 'POSSESSIVE_REPEAT', None) is op:
        lo, _hi, sub = av
        return lo * _minw(sub)
    if op is C.SUBPATTERN:
        return _minw(av[3])
    if getattr(C, 'ATOMIC_GROUP', None) is op:
        return _minw(av)
    if op in (C.AT, C.ASSERT, C.ASSERT_NOT):
        return 0
    if op in (C.GROUPREF, C.GROUPREF_EXISTS):
        return 0
    raise ValueError('regex op %r not modelled' % (op,))


def sre_getwidth(pattern, flags=FLAGS):
    return parse(pattern, flags).getwidth()


# ------------------------------------------------------------------------------ whitespace-only patterns

def _is_ws_char(cp):
    return chr(cp).isspace()


def matches_only_whitespace(pattern, flags=FLAGS):
    """True if every string matched by `pattern` consists of whitespace characters only (sufficient syntactic
    condition: literals that are whitespace, the category \\s, and their branches/repeats/groups)"""
    return _ws_only(parse(pattern, flags))


def _ws_only(seq):
    for op, av in seq:
        if op is C.LITERAL:
            if not _is_ws_char(av):
                return False
        elif op is C.IN:
            for iop, iav in av:
                if iop is C.LITERAL and _is_ws_char(iav):
                    continue
                if iop is C.CATEGORY and iav is C.CATEGORY_SPACE:
                    continue
                return False
        elif op is C.BRANCH:
            if not all(_ws_only(b) for b in av[1]):
                return False
        elif op in (C.MAX_REPEAT, C.MIN_REPEAT):
            if not _ws_only(av[2]):
                return False
        elif op is C.SUBPATTERN:
            if not _ws_only(av[3]):
                return False
        elif op is C.AT:
            continue
        else:
            return False
    return True


# ------------------------------------------------------------------------------ first characters

class AnyChar:
    def __repr__(self):
        return 'ANY'


ANY = AnyChar()


def first_chars(pattern, flags=FLAGS):
    """over-approximation of the set of characters a match can start with: a set of code points (case-folded
    both ways under IGNORECASE) or ANY.  Look-arounds are ignored (over-approximation)."""
    r = _first(parse(pattern, flags))
    if r is ANY:
        return ANY
    chars, nullable = r
    if nullable:
        return ANY
    out = set()
    for c in chars:
        out.add(c)
        if flags & re.IGNORECASE:
            for v in (chr(c).lower(), chr(c).upper()):
                if len(v) == 1:
                    out.add(ord(v))
    return out


def _first(seq):
    """returns ANY or (set of code points, nullable)"""
    acc = set()
    for op, av in seq:
        r = _first_item(op, av)
        if r is ANY:
            return ANY
        chars, nullable = r
        acc |= chars
        if not nullable:
            return acc, False
    return acc, True


def _first_item(op, av):
    if op is C.LITERAL:
        return {av}, False
    if op in (C.NOT_LITERAL, C.ANY):
        return ANY
    if op is C.IN:
        s = set()
        for iop, iav in av:
            if iop is C.LITERAL:
                s.add(iav)
            elif iop is C.RANGE:
                if iav[1] - iav[0] > 4096:
                    return ANY
                s |= set(range(iav[0], iav[1] + 1))
            else:
                return ANY      # categories, negation
        return s, False
    if op is C.BRANCH:
        acc, nullable = set(), False
        for b in av[1]:
            r = _first(b)
            if r is ANY:
                return ANY
            acc |= r[0]
            nullable = nullable or r[1]
        return acc, nullable
    if op in (C.MAX_REPEAT, C.MIN_REPEAT):
        lo, _hi, sub = av
        r = _first(sub)
        if r is ANY:
            return ANY
        return r[0], (lo == 0) or r[1]
    if op is C.SUBPATTERN:
        return _first(av[3])
    if op in (C.AT, C.ASSERT, C.ASSERT_NOT):
        return set(), True
    if op in (C.GROUPREF, C.GROUPREF_EXISTS):
        return ANY
    if op is C.CATEGORY:
        return ANY
    raise ValueError('regex op %r not modelled' % (op,))


# ------------------------------------------------------------------------------ multi-word keyword rules

def word_separators(pattern, flags=FLAGS):
    """For a rule that can match several words: the list of separator sub-patterns found between two literal
    letters sequences, rendered as 'ws+' (\\s+), 'ws' (\\s once), 'lit:<c>' (a literal blank etc.).
    Used by C11: every separator inside a multi-word keyword rule must be 'ws+'."""
    seps = []
    _walk_seps(parse(pattern, flags), seps)
    return seps


def _walk_seps(seq, seps):
    for op, av in seq:
        if op is C.LITERAL and _is_ws_char(av):
            seps.append('lit:%r' % chr(av))
        elif op is C.IN and len(av) == 1 and av[0] == (C.CATEGORY, C.CATEGORY_SPACE):
            seps.append('ws')
        elif op in (C.MAX_REPEAT, C.MIN_REPEAT):
            lo, hi, sub = av
            items = list(sub)
            if len(items) == 1 and items[0][0] is C.IN and list(items[0][1]) == [(C.CATEGORY, C.CATEGORY_SPACE)]:
                if lo >= 1 and hi >= C.MAXREPEAT - 1 and op is C.MAX_REPEAT:
                    seps.append('ws+')
                else:
                    seps.append('ws{%d,%s}%s' % (lo, hi if hi < C.MAXREPEAT else '', '?' if op is C.MIN_REPEAT else ''))
            elif len(items) == 1 and items[0][0] is C.LITERAL and _is_ws_char(items[0][1]):
                seps.append('lit-rep:%r' % chr(items[0][1]))
            else:
                _walk_seps(sub, seps)
        elif op is C.BRANCH:
            for b in av[1]:
                _walk_seps(b, seps)
        elif op is C.SUBPATTERN:
            _walk_seps(av[3], seps)
        elif op in (C.ASSERT, C.ASSERT_NOT):
            _walk_seps(av[1], seps)


def has_letters(pattern, flags=FLAGS):
    """does the pattern contain at least two literal ASCII letters (i.e. spells a word)?"""
    n = [0]

    def rec(seq):
        for op, av in seq:
            if op is C.LITERAL and chr(av).isalpha():
                n[0] += 1
            elif op in (C.MAX_REPEAT, C.MIN_REPEAT):
                rec(av[2])
            elif op is C.BRANCH:
                for b in av[1]:
                    rec(b)
            elif op is C.SUBPATTERN:
                rec(av[3])
    rec(parse(pattern, flags))
    return n[0] >= 2


# ------------------------------------------------------------------------------ can a match start with character c

def can_start_with(pattern, ch, flags=FLAGS):
    """over-approximation: may some match of `pattern` begin with character `ch`? (look-arounds and anchors are
    ignored, back-references count as 'anything')"""
    acc, _nullable = _starts(parse(pattern, flags), ch, bool(flags & re.IGNORECASE))
    return acc


def _ci_eq(a, b, ic):
    if a == b:
        return True
    return ic and (a.lower() == b.lower() or a.upper() == b.upper())


def _cat(cat, ch):
    if cat is C.CATEGORY_SPACE:
        return ch.isspace()
    if cat is C.CATEGORY_NOT_SPACE:
        return not ch.isspace()
    if cat is C.CATEGORY_DIGIT:
        return ch.isdigit()
    if cat is C.CATEGORY_NOT_DIGIT:
        return not ch.isdigit()
    if cat is C.CATEGORY_WORD:
        return ch.isalnum() or ch == '_'
    if cat is C.CATEGORY_NOT_WORD:
        return not (ch.isalnum() or ch == '_')
    return True


def _in_accepts(av, ch, ic):
    neg = False
    hit = False
    for iop, iav in av:
        if iop is C.NEGATE:
            neg = True
        elif iop is C.LITERAL:
            hit = hit or _ci_eq(chr(iav), ch, ic)
        elif iop is C.RANGE:
            lo, hi = iav
            hit = hit or lo <= ord(ch) <= hi or (ic and (lo <= ord(ch.lower()) <= hi or lo <= ord(ch.upper()[:1] or ch) <= hi))
        elif iop is C.CATEGORY:
            hit = hit or _cat(iav, ch)
        else:
            hit = True
    return (not hit) if neg else hit


def _starts(seq, ch, ic):
    """(can a match start with ch, can the sequence match the empty string)"""
    for op, av in seq:
        a, n = _starts_item(op, av, ch, ic)
        if a:
            return True, False
        if not n:
            return False, False
    return False, True


def _starts_item(op, av, ch, ic):
    if op is C.LITERAL:
        return _ci_eq(chr(av), ch, ic), False
    if op is C.NOT_LITERAL:
        return not _ci_eq(chr(av), ch, ic), False
    if op is C.ANY:
        return True, False
    if op is C.IN:
        return _in_accepts(av, ch, ic), False
    if op is C.BRANCH:
        acc, nullable = False, False
        for b in av[1]:
            a, n = _starts(b, ch, ic)
            acc, nullable = acc or a, nullable or n
        return acc, nullable
    if op in (C.MAX_REPEAT, C.MIN_REPEAT):
        lo, _hi, sub = av
        a, n = _starts(sub, ch, ic)
        return a, (lo == 0) or n
    if op is C.SUBPATTERN:
        return _starts(av[3], ch, ic)
    if op in (C.AT, C.ASSERT, C.ASSERT_NOT):
        return False, True
    if op in (C.GROUPREF, C.GROUPREF_EXISTS):
        return True, True
    raise ValueError('regex op %r not modelled' % (op,))


def phrases(pattern, flags=FLAGS, limit=512):
    """For a rule that spells keywords: the finite set of phrases it can match, as upper-cased words joined by single
    blanks (every whitespace separator rendered as one blank, zero-width assertions ignored).  None if the rule is not of
    that kind (character classes other than \\s, unbounded repeats of anything but whitespace, back references ...)."""
    try:
        out = _phr(list(parse(pattern, flags)), limit)
    except _NotPhrase:
        return None
    res = set()
    for s in out:
        res.add(' '.join(s.upper().split()))
    return res


class _NotPhrase(Exception):
    pass


def _phr(seq, limit):
    acc = {''}
    for op, av in seq:
        nxt = _phr_item(op, av, limit)
        acc = {a + b for a in acc for b in nxt}
        if len(acc) > limit:
            raise _NotPhrase()
    return acc


def _phr_item(op, av, limit):
    if op is C.LITERAL:
        return {' ' if _is_ws_char(av) else chr(av)}
    if op is C.AT:
        return {''}
    if op in (C.ASSERT, C.ASSERT_NOT):
        return {''}
    if op is C.IN:
        if len(av) == 1 and av[0] == (C.CATEGORY, C.CATEGORY_SPACE):
            return {' '}
        raise _NotPhrase()
    if op in (C.MAX_REPEAT, C.MIN_REPEAT):
        lo, hi, sub = av
        items = list(sub)
        if len(items) == 1 and items[0][0] is C.IN and list(items[0][1]) == [(C.CATEGORY, C.CATEGORY_SPACE)]:
            return {' '} if lo >= 1 else {'', ' '}
        if hi > 1:
            raise _NotPhrase()
        body = _phr(items, limit)
        return (body | {''}) if lo == 0 else body
    if op is C.BRANCH:
        res = set()
        for b in av[1]:
            res |= _phr(list(b), limit)
        return res
    if op is C.SUBPATTERN:
        return _phr(list(av[3]), limit)
    raise _NotPhrase()
