"""Native oracles and bounded case generators for C11, C12, C13, C15, C18, C19, C20.

Every oracle is an executable transcription of the property statement in /verif/properties.jsonl, calls the real
library, never raises, and returns None (holds) or a small failure dict.  Expected values are computed by code in
this file (own tree walker, own text builders), not by the accessors under test.
"""
import itertools
import json
import os
import random
import subprocess
import sys

from pyvc import core
from pyvc.domain import Grammar

__all__ = [
    'RULE_C11', 'cases_C11', 'oracle_C11', 'classify_C11', 'smoke_C11',
    'RULE_C12', 'cases_C12', 'oracle_C12', 'classify_C12', 'smoke_C12',
    'RULE_C13', 'cases_C13', 'oracle_C13', 'classify_C13', 'smoke_C13',
    'RULE_C15', 'cases_C15', 'oracle_C15', 'classify_C15', 'smoke_C15',
    'RULE_C18', 'cases_C18', 'oracle_C18', 'classify_C18', 'smoke_C18',
    'RULE_C19', 'cases_C19', 'oracle_C19', 'classify_C19', 'smoke_C19',
    'RULE_C20', 'cases_C20', 'oracle_C20', 'classify_C20', 'smoke_C20',
]

_VENV_PY = os.path.join(core.VERIF, '.venv', 'bin', 'python')


def _python():
    return _VENV_PY if os.path.exists(_VENV_PY) else sys.executable


def _clip(x, n=300):
    s = x if isinstance(x, str) else repr(x)
    return s if len(s) <= n else s[:n] + '...'


def _exc(e):
    return 'exception:' + type(e).__name__


def _norm_ws(s):
    """whitespace-normalised text: runs of whitespace -> one blank, stripped"""
    return ' '.join(s.split())


def _is_ws_leaf(tok):
    from sqlparse import tokens as T
    return (not tok.is_group) and tok.ttype is not None and tok.ttype in T.Whitespace


def _walk(node):
    """own pre-order walker over a token tree (does not use flatten / get_sublists)"""
    stack = [node]
    while stack:
        n = stack.pop()
        yield n
        kids = getattr(n, 'tokens', None)
        if getattr(n, 'is_group', False) and kids:
            stack.extend(reversed(kids))


def _text(node):
    """text of a node from its leaves (own iterative concatenation)"""
    out = []
    for n in _walk(node):
        if not n.is_group:
            out.append(n.value)
    return ''.join(out)


def _plain_tree(node):
    """plain-data form of a tree: groups -> (class name, [children]); leaves -> (ttype string, value)"""
    def rec(n, depth):
        if n.is_group:
            if depth > 400:
                return (type(n).__name__, _text(n))
            return (type(n).__name__, [rec(c, depth + 1) for c in n.tokens])
        return (str(n.ttype), n.value)
    return rec(node, 0)


# ======================================================================================================== C11

RULE_C11 = (
    'Scripts of 1-3 statements of the verification grammar (plain statements and procedural bodies with '
    'IF / WHILE..DO / LOOP / BEGIN..END / CASE expression; Grammar depth 1-2; a fifth of them with /* */ or -- '
    'comments as extra lexemes) plus a fixed list of hand-written scripts.  Multi-word keyword lexemes (ORDER BY, '
    'END IF, LEFT OUTER JOIN, CREATE OR REPLACE, NOT NULL, ...) are split into words, so their inner blanks are '
    'whitespace positions too.  Script A joins the words with seps_a (non-empty whitespace, or empty next to '
    'punctuation), script B with seps_b which differs from seps_a only where seps_a is non-empty and is again '
    'non-empty whitespace from {" ", "  ", TAB, LF, CRLF, " LF "}.  Words lying inside a Keyword token of A (found by '
    'tokenising A) are re-cased in B (same/upper/lower/alternating).  Per script: every uniform replacement x '
    'casing, then every single whitespace position replaced by LF and by two blanks (thorough: also TAB), then seeded random '
    'assignments.  Non-trivial: B differs from A.  Compared: len(split), len(parse), get_type() per statement and '
    'the tree with whitespace leaves removed (group -> class name, leaf -> ttype; keyword leaves compared '
    'upper-cased with inner whitespace collapsed, other leaves by value).')

_C11_WS = (' ', '  ', '\t', '\n', '\r\n', ' \n ')
_C11_CASINGS = ('same', 'upper', 'lower', 'mixed')
_C11_FORMS = ('if', 'while_do', 'loop', 'block', 'case_expr')
_GLUE_PUNCT = ('(', ')', ',', ';', '.', '::')

_C11_FIXED = [
    # keywords that stand for a value, with and without an alias, in lists and conditions (every place where a pass could
    # look at the raw spelling)
    ('select', 'NULL', 'AS', 'n', ',', 'a', 'from', 't', 'where', 'a', 'IS', 'NOT NULL'),
    ('select', 'TRUE', 'AS', 'flag', ',', 'FALSE', 'AS', 'f2', ',', 'CURRENT_DATE', 'AS', 'today', 'from', 't'),
    ('select', 'a', 'from', 't', 'where', 'b', 'IS', 'NULL', 'OR', 'c', '=', 'TRUE', 'ORDER BY', 'a', 'DESC', 'NULLS LAST'),
    ('select', 'CASE', 'WHEN', 'a', 'IS', 'NULL', 'THEN', 'NULL', 'ELSE', 'CURRENT_TIMESTAMP', 'END', 'AS', 'x', 'from', 't'),
    ('select', 'a', 'from', 't', 'LEFT OUTER JOIN', 'u', 'ON', 't', '.', 'x', '=', 'u', '.', 'y', 'CROSS JOIN', 'v'),
    ('select', '1', 'GO', 'select', '2'),
    ('select', '1', ';', 'GO', 'select', '2'),
    ('create', 'table', 't', '(', 'x', 'int', ')', 'AS', 'select', 'f', '(', '1', ')'),
    ('select', 'a', 'from', 't', 'where', 'x', '=', '1', 'ORDER BY', 'a'),
    ('select', 'a', 'from', 't', 'where', 'x', '=', '1', 'GROUP BY', 'a', 'HAVING', 'a', '>', '1', 'ORDER BY', 'a'),
    ('select', 'a', 'from', 't', 'where', 'x', '=', '1', 'UNION ALL', 'select', 'b', 'from', 'u'),
    ('select', '1', '/* a */', '/* b */', 'from', 't'),
    ('/* a */', '/* b */', 'select', '1'),
    ('select', '1', '-- a\n', '-- b\n', 'from', 't'),
    ('CREATE OR REPLACE', 'VIEW', 'v', 'AS', 'select', '1'),
    ('CREATE OR REPLACE', 'FUNCTION', 'f', '(', ')', 'BEGIN', 'IF', 'a', '=', '1', 'THEN', 'x', ':=', '1', ';',
     'END IF', ';', 'END', ';', 'select', '2'),
    ('CREATE', 'PROCEDURE', 'p', '(', ')', 'BEGIN', 'WHILE', 'a', '<', '3', 'DO', 'x', ':=', '1', ';', 'END WHILE',
     ';', 'LOOP', 'y', ':=', '2', ';', 'END LOOP', ';', 'END', ';', 'select', '2'),
    ('select', '*', 'from', 'a', 'LEFT OUTER JOIN', 'b', 'ON', 'a', '.', 'x', '=', 'b', '.', 'x', 'CROSS JOIN', 'c'),
    ('create', 'table', 't', '(', 'id', 'int', 'PRIMARY KEY', ',', 'n', 'text', 'NOT NULL', ')'),
    ('select', 'a', 'from', 't', 'ORDER BY', 'a', 'DESC', ',', 'b', 'ASC'),
    ('select', 'CASE', 'WHEN', 'a', 'IS', 'NOT NULL', 'THEN', '1', 'ELSE', '2', 'END', 'from', 't'),
    ('insert', 'into', 't', 'values', '(', '1', ',', "'x y'", ')', ';', 'delete', 'from', 't', 'where', 'a',
     'BETWEEN', '1', 'AND', '2'),
    ('update', 't', 'set', 'a', '=', '1', 'where', 'b', 'IN', '(', '1', ',', '2', ')', 'RETURNING', 'a'),
    ('select', 'a', 'AS', 'x', ',', 'b', 'y', 'from', 't', 'AS', 'u', 'where', 'a', 'NOT LIKE', "'z%'"),
    ('with', 'w', 'AS', '(', 'select', '1', ')', 'select', '*', 'from', 'w', 'LIMIT', '1'),
]


def _c11_words(lexemes):
    """split multi-word lexemes on blanks (not quoted literals, not comments)"""
    out = []
    for lx in lexemes:
        if lx[:1] in ('\'', '"', '`', '$') or lx.startswith('/*') or lx.startswith('--') or ' ' not in lx:
            out.append(lx)
        else:
            out.extend(w for w in lx.split(' ') if w)
    return out


def _recase(w, how):
    if how == 'upper':
        return w.upper()
    if how == 'lower':
        return w.lower()
    if how == 'mixed':
        return ''.join(c.upper() if i % 2 else c.lower() for i, c in enumerate(w))
    return w


def _c11_build(case):
    """-> (A, B) or None if the case is malformed"""
    import sqlparse
    from sqlparse import tokens as T
    lexemes, seps_a, seps_b, casing = case
    words = _c11_words(lexemes)
    n = len(words)
    if n == 0 or len(seps_a) != n - 1 or len(seps_b) != n - 1:
        return None
    for sa, sb in zip(seps_a, seps_b):
        if (sa == '') != (sb == ''):
            return None
        if sa.strip() or sb.strip():
            return None
    spans = []
    pos = 0
    parts = []
    for i, w in enumerate(words):
        if i:
            parts.append(seps_a[i - 1])
            pos += len(seps_a[i - 1])
        spans.append((pos, pos + len(w)))
        parts.append(w)
        pos += len(w)
    a = ''.join(parts)
    kwmask = bytearray(len(a))
    p = 0
    for ttype, value in sqlparse.lexer.tokenize(a):
        if ttype in T.Keyword:
            for k in range(p, p + len(value)):
                kwmask[k] = 1
        p += len(value)
    out = []
    for i, w in enumerate(words):
        if i:
            out.append(seps_b[i - 1])
        s, e = spans[i]
        out.append(_recase(w, casing) if e > s and all(kwmask[s:e]) else w)
    return a, ''.join(out)


def _c11_canon(node):
    from sqlparse import tokens as T
    if node.is_group:
        kids = [_c11_canon(c) for c in node.tokens if not _is_ws_leaf(c)]
        return (type(node).__name__, kids)
    tt = node.ttype
    if tt in T.Keyword:
        return (str(tt), ' '.join(node.value.upper().split()))
    if tt in T.Literal.String or tt in T.Comment or tt is T.Literal:
        return (str(tt), node.value)
    return (str(tt), ' '.join(node.value.split()))


def _first_diff(x, y, path=()):
    """first difference of two canonical trees: (path, x-part, y-part)"""
    if isinstance(x, tuple) and isinstance(y, tuple) and len(x) == 2 and len(y) == 2 \
            and isinstance(x[1], list) and isinstance(y[1], list):
        if x[0] != y[0]:
            return path, x[0], y[0]
        for i, (cx, cy) in enumerate(zip(x[1], y[1])):
            if cx != cy:
                return _first_diff(cx, cy, path + (x[0], i))
        return path + (x[0],), 'children=%d %s' % (len(x[1]), _clip(_head(x[1][len(y[1]):]), 80)), \
            'children=%d %s' % (len(y[1]), _clip(_head(y[1][len(x[1]):]), 80))
    return path, _head(x), _head(y)


def _head(c):
    if isinstance(c, list):
        return [_head(k) for k in c[:4]]
    if isinstance(c, tuple) and len(c) == 2 and isinstance(c[1], list):
        return c[0]
    return c


def oracle_C11(case):
    try:
        import sqlparse
        built = _c11_build(case)
    except Exception as e:
        return {'what': 'build-' + _exc(e), 'input': _clip(case), 'observed': str(e), 'expected': 'two scripts'}
    if built is None:
        return None
    a, b = built
    if a == b:
        return None
    try:
        sa, sb = sqlparse.split(a), sqlparse.split(b)
        pa, pb = sqlparse.parse(a), sqlparse.parse(b)
        ta = [s.get_type() for s in pa]
        tb = [s.get_type() for s in pb]
    except Exception as e:
        return {'what': _exc(e), 'input': (a, b), 'observed': _clip(str(e)), 'expected': 'no exception'}
    inp = (a, b)
    if len(sa) != len(sb):
        return {'what': 'split-count', 'input': inp, 'observed': len(sb), 'expected': len(sa)}
    if len(pa) != len(pb):
        return {'what': 'parse-count', 'input': inp, 'observed': len(pb), 'expected': len(pa)}
    for i, (x, y) in enumerate(zip(sa, sb)):
        if ''.join(x.split()).upper() != ''.join(y.split()).upper():
            return {'what': 'split-boundary', 'input': inp, 'observed': _clip(y, 120), 'expected': _clip(x, 120)}
    if ta != tb:
        return {'what': 'get_type', 'input': inp, 'observed': tb, 'expected': ta}
    for i, (x, y) in enumerate(zip(pa, pb)):
        try:
            cx, cy = _c11_canon(x), _c11_canon(y)
        except RecursionError:
            return None
        if cx != cy:
            path, dx, dy = _first_diff(cx, cy)
            return {'what': 'tree-shape', 'input': inp, 'observed': _clip((i, path, dy), 300),
                    'expected': _clip((i, path, dx), 300)}
    return None


def _c11_scripts(tier, seed):
    rnd = random.Random(seed * 7919 + 11)
    n = 420 if tier == 'quick' else 2000
    for lx in _C11_FIXED:
        yield tuple(lx)
    for k in range(n):
        g = Grammar(seed=rnd.randrange(1 << 30), max_depth=rnd.choice((1, 1, 2)),
                    kw_case=rnd.choice(('upper', 'upper', 'lower')))
        lex = []
        for j in range(rnd.choice((1, 1, 2, 3))):
            if j:
                lex.append(';')
            if rnd.random() < 0.25:
                lex += g.proc(d=rnd.choice((1, 2)), forms=_C11_FORMS)
            else:
                lex += g.plain_stmt()
        if rnd.random() < 0.3:
            lex.append(';')
        if rnd.random() < 0.2:
            for _ in range(rnd.choice((1, 2, 2))):
                at = rnd.randrange(len(lex) + 1)
                lex.insert(at, rnd.choice(('/* c */', '/* d\n e */', '-- c\n', '/*+ h */')))
        if len(_c11_words(lex)) <= (60 if tier == 'quick' else 120):
            yield tuple(lex)


def _c11_seps_a(words, rnd, style):
    out = []
    for i in range(len(words) - 1):
        l, r = words[i], words[i + 1]
        if l.startswith('--'):
            # a line comment lexeme ends with its newline; anything may follow, keep one separator
            out.append(' ' if style != 'nl' else '\n')
            continue
        if style == 'glue' and (l in _GLUE_PUNCT or r in _GLUE_PUNCT) and rnd.random() < 0.7:
            out.append('')
        elif style == 'nl':
            out.append('\n')
        elif style == 'rand':
            out.append(rnd.choice(_C11_WS))
        else:
            out.append(' ')
    return tuple(out)


def cases_C11(tier, seed):
    rnd = random.Random(seed * 104729 + 5)
    for lex in _c11_scripts(tier, seed):
        words = _c11_words(lex)
        if len(words) < 2:
            continue
        style = rnd.choice(('blank', 'blank', 'glue', 'nl', 'rand'))
        sa = _c11_seps_a(words, rnd, style)
        # uniform replacements x casings
        for ws in _C11_WS:
            for cs in _C11_CASINGS:
                sb = tuple(ws if s else '' for s in sa)
                yield (lex, sa, sb, cs)
        # one position at a time
        for i, s in enumerate(sa):
            if not s:
                continue
            for ws in ('\n', '  ') if tier == 'quick' else ('\n', '  ', '\t'):
                if ws != s:
                    yield (lex, sa, sa[:i] + (ws,) + sa[i + 1:], 'same')
        # seeded random assignments
        for _ in range(6 if tier == 'quick' else 12):
            sb = tuple(rnd.choice(_C11_WS) if s else '' for s in sa)
            yield (lex, sa, sb, rnd.choice(_C11_CASINGS))


def classify_C11(case, failure):
    return None


def smoke_C11():
    sel = ('select', 'a', ',', 'b', 'from', 't', 'where', 'x', '=', '1')
    one = (' ',) * 9
    return [
        (sel, one, ('\n',) * 9, 'upper'),
        (sel, one, ('  ',) * 9, 'mixed'),
        (('select', 'a', 'from', 't', 'GROUP BY', 'a'), (' ',) * 6, ('\t',) * 6, 'lower'),
        (('select', '*', 'from', 'a', 'LEFT OUTER JOIN', 'b', 'ON', 'a', '.', 'x', '=', 'b', '.', 'x'),
         (' ',) * 15, ('\r\n',) * 15, 'lower'),
        (('insert', 'into', 't', 'values', '(', '1', ')', ';', 'select', '2'), (' ',) * 9, (' \n ',) * 9, 'upper'),
        (('update', 't', 'set', 'a', '=', '1', 'where', 'b', '=', '2'), (' ',) * 9, ('\n',) * 9, 'mixed'),
    ]


# ======================================================================================================== C12

RULE_C12 = (
    'Exhaustive product of: 16 name spellings (ASCII, non-ASCII, mixed case, digits/underscore; quoted-only names '
    'with a blank, a dot, a keyword, a doubled or foreign quote character inside) x quoting (none, double quotes, '
    'backticks, where the spelling allows it) x qualifier (none, plain, double-quoted, back-ticked, quoted with a '
    'blank) x alias (none; AS / bare x plain, non-ASCII, double-quoted with blank, back-ticked, doubled quote) x '
    'whitespace (" ", "  ", LF, TAB+blank, CRLF) x 19 contexts (select list alone / first / middle / last with two '
    'sets of neighbour items, FROM alone / with WHERE / first / second, JOIN, LEFT OUTER JOIN, UPDATE, INSERT '
    'VALUES / SELECT, DELETE, subquery select item and subquery table).  quick: a seeded sample of 60 000 of the '
    'product plus the full product restricted to blank whitespace and three contexts; thorough: the full product. '
    'The Identifier is located with an own tree walker as the node whose whitespace-normalised text equals the '
    'written reference; expected accessor values are the written pieces with only the outer quote pair removed.')

_C12_NAMES = [
    ('foo', ('', '"', '`')), ('naïve', ('', '"', '`')), ('業者', ('', '"', '`')), ('MyTable', ('', '"', '`')),
    ('col_1', ('', '"', '`')), ('_x1', ('', '"', '`')), ('T1', ('', '"', '`')), ('Ünï9', ('', '"', '`')),
    ('we""ird', ('"',)), ('we``ird', ('`',)), ('my col', ('"', '`')), ('select', ('"', '`')), ('a.b', ('"', '`')),
    ("it's", ('"', '`')), ('we"ird', ('`',)), ('we`ird', ('"',)),
]
_C12_QUALS = [(None, ''), ('sch', ''), ('Sch_1', '"'), ('業', '`'), ('my sch', '"')]
_C12_ALIASES = [('none', None, '')] + [(k, a, q) for k in ('as', 'bare') for a, q in
                                       (('al', ''), ('nä', ''), ('Al 1', '"'), ('x1', '`'), ('q""x', '"'))]
_C12_WS = (' ', '  ', '\n', '\t ', '\r\n')
_C12_CONTEXTS = {
    'sel1': 'select {R} from t',
    'sel1_nofrom': 'select {R}',
    'sel_first:0': 'select {R}, b, c from t',
    'sel_first:1': "select {R}, f(1) as z, 'lit' from t",
    'sel_mid:0': 'select a, {R}, c from t',
    'sel_mid:1': 'select u.v as w, {R}, 1+2 from t',
    'sel_last:0': 'select a, b, {R} from t',
    'sel_last:1': 'select count(*), x.y z, {R} from t',
    'from1': 'select * from {R}',
    'from1_where': 'select * from {R} where c1 = 1',
    'from_first': 'select * from {R}, other o',
    'from_second': 'select * from other o, {R}',
    'join': 'select * from t1 join {R} on t1.id = 1',
    'join_left': 'select * from t1 left outer join {R} on 1 = 1',
    'update': 'update {R} set c1 = 1',
    'insert_values': 'insert into {R} values (1)',
    'insert_select': 'insert into {R} select 1',
    'delete': 'delete from {R} where c1 = 1',
    'subquery': 'select * from (select {R} from t) s',
    'subquery_from': 'select * from (select 1 from {R}) s',
}


def _c12_ref(case):
    ctx, qual, qq, name, nq, akind, alias, aq, ws = case
    ref = ''
    if qual is not None:
        ref += qq + qual + qq + '.'
    ref += nq + name + nq
    if akind == 'as':
        ref += ws + 'as' + ws + aq + alias + aq
    elif akind == 'bare':
        ref += ws + aq + alias + aq
    return ref


def oracle_C12(case):
    try:
        ctx, qual, qq, name, nq, akind, alias, aq, ws = case
        tmpl = _C12_CONTEXTS.get(ctx)
        if tmpl is None or akind not in ('none', 'as', 'bare'):
            return None
        ref = _c12_ref(case)
        text = tmpl.replace(' ', ws).replace('{R}', ref)
    except Exception:
        return None
    try:
        import sqlparse
        from sqlparse import sql as S
        stmts = sqlparse.parse(text)
    except Exception as e:
        return {'what': _exc(e), 'input': text, 'observed': _clip(str(e)), 'expected': 'parse result'}
    want = _norm_ws(ref)
    exact, prefix = [], []
    for st in stmts:
        for n in _walk(st):
            if isinstance(n, S.Identifier):
                t = _norm_ws(_text(n))
                if t == want:
                    exact.append(n)
                elif t.startswith(want):
                    prefix.append(n)
    cands = exact or prefix
    if not cands:
        return {'what': 'no-identifier', 'input': text, 'observed': None, 'expected': 'Identifier covering %r' % ref}
    node = cands[0]
    has = akind != 'none'
    expected = {'get_real_name': name, 'get_parent_name': qual, 'get_alias': alias if has else None,
                'get_name': alias if has else name, 'has_alias': has}
    observed = {}
    for acc in ('get_real_name', 'get_parent_name', 'get_alias', 'get_name', 'has_alias'):
        try:
            observed[acc] = getattr(node, acc)()
        except Exception as e:
            observed[acc] = _exc(e)
    bad = [a for a in expected if observed[a] != expected[a]]
    if bad:
        return {'what': 'accessor:' + bad[0], 'input': text, 'observed': {a: observed[a] for a in bad},
                'expected': {a: expected[a] for a in bad}}
    return None


def _c12_product(contexts=None, wss=None):
    for ctx in (contexts or _C12_CONTEXTS):
        for name, quotes in _C12_NAMES:
            for nq in quotes:
                for qual, qq in _C12_QUALS:
                    for akind, alias, aq in _C12_ALIASES:
                        for ws in (wss or _C12_WS):
                            yield (ctx, qual, qq, name, nq, akind, alias, aq, ws)


def cases_C12(tier, seed):
    if tier != 'quick':
        yield from _c12_product()
        return
    yield from _c12_product(contexts=('sel_mid:0', 'from1', 'join'), wss=(' ',))
    full = list(_c12_product())
    rnd = random.Random(seed * 31 + 12)
    rnd.shuffle(full)
    yield from full[:60000]


def classify_C12(case, failure):
    return None


def smoke_C12():
    return [
        ('sel1', None, '', 'foo', '', 'none', None, '', ' '),
        ('sel_mid:0', 'sch', '', 'foo', '"', 'as', 'al', '', '\n'),
        ('from_second', 'Sch_1', '"', '業者', '`', 'bare', 'Al 1', '"', '  '),
        ('join', None, '', 'we""ird', '"', 'bare', 'x1', '`', ' '),
        ('update', 'sch', '', 'MyTable', '', 'none', None, '', '\t '),
        ('subquery', 'my sch', '"', 'col_1', '', 'as', 'q""x', '"', '\r\n'),
        ('insert_values', None, '', 'naïve', '', 'none', None, '', ' '),
    ]


# ======================================================================================================== C13

RULE_C13 = (
    'Constructs are generated from parts that are kept in the case, so the written extents are known: '
    "('where', prefix, where, rest, ws) with the condition from Grammar.cond (depth 0-2, may contain subqueries with "
    'their own clauses, CASE, BETWEEN, IN) x 16 continuations (GROUP BY, ORDER BY, LIMIT, UNION, UNION ALL, EXCEPT, '
    'HAVING, RETURNING, INTO, end of statement, ";", "; next statement", end of a FROM-subquery, end of an '
    'IN-subquery, closer inside a subquery) ; '
    "('idlist', prefix, items, rest, ws) select and FROM lists of 2-4 items (Grammar.expr / Grammar.ref items and "
    '18 hand-picked item kinds); '
    "('func', prefix, name, args, rest, ws) calls with 0-3 arguments of 14 kinds (all 0/1/2-argument combinations, "
    'sampled 3-argument ones) in 4 contexts; '
    "('case', prefix, operand, whens, else, rest, ws); ('cmp', prefix, left, op, right, rest, ws) with 12 operand "
    "kinds x 10 operators; ('typed', prefix, literal, rest, ws) DATE/TIMESTAMP/INTERVAL literals with and without "
    'unit in 6 contexts.  ws in {" ", LF, "  "} is used at every gap, also inside multi-word keywords; keywords '
    'upper or lower.  The node is located with an own walker by whitespace-normalised text; accessor results are '
    'compared as whitespace-normalised texts with the written parts.')

_C13_FUNCS = ('f', 'g', 'h', 'count', 'coalesce', 'my_fn')
_C13_MULTI = ('GROUP BY', 'ORDER BY', 'UNION ALL', 'LEFT OUTER JOIN', 'INNER JOIN', 'LEFT JOIN', 'CROSS JOIN',
              'NOT NULL', 'NOT LIKE')


def _c13_render(lexemes, ws):
    out = []
    prev = None
    for lx in lexemes:
        if lx.upper() in _C13_MULTI:
            lx = ws.join(lx.split(' '))
        if prev is None:
            sep = ''
        elif lx in (',', ')', '.', '::', ';') or prev in ('(', '.', '::'):
            sep = ''
        elif lx == '(' and prev in _C13_FUNCS:
            sep = ''
        else:
            sep = ws
        out.append(sep + lx)
        prev = lx
    return ''.join(out)


def _c13_nodes(stmts, cls):
    for st in stmts:
        for n in _walk(st):
            if isinstance(n, cls):
                yield n


def _c13_find(stmts, cls, want):
    for n in _c13_nodes(stmts, cls):
        if _norm_ws(_text(n)) == want:
            return n
    return None


def _kw_is(tok, words):
    from sqlparse import tokens as T
    return (not tok.is_group) and tok.ttype in T.Keyword and tok.value.upper() in words


def oracle_C13(case):
    try:
        kind = case[0]
        ws = case[-1]
        R = lambda lx: _c13_render(lx, ws)          # noqa: E731
        N = lambda lx: _norm_ws(_c13_render(lx, ws))  # noqa: E731
        if kind == 'where':
            _, prefix, where, rest, _ = case
            text = R(tuple(prefix) + tuple(where) + tuple(rest))
        elif kind == 'idlist':
            _, prefix, items, rest, _ = case
            flat = []
            for i, it in enumerate(items):
                if i:
                    flat.append(',')
                flat.extend(it)
            text = R(tuple(prefix) + tuple(flat) + tuple(rest))
        elif kind == 'func':
            _, prefix, name, args, rest, _ = case
            flat = [name, '(']
            for i, it in enumerate(args):
                if i:
                    flat.append(',')
                flat.extend(it)
            flat.append(')')
            text = R(tuple(prefix) + tuple(flat) + tuple(rest))
        elif kind == 'case':
            _, prefix, operand, whens, els, rest, _ = case
            kw = (lambda w: w.lower()) if prefix and prefix[0].islower() else (lambda w: w)
            flat = [kw('CASE')] + list(operand or ())
            for c, v in whens:
                flat += [kw('WHEN')] + list(c) + [kw('THEN')] + list(v)
            if els is not None:
                flat += [kw('ELSE')] + list(els)
            flat.append(kw('END'))
            text = R(tuple(prefix) + tuple(flat) + tuple(rest))
        elif kind == 'cmp':
            _, prefix, left, op, right, rest, _ = case
            flat = list(left) + [op] + list(right)
            text = R(tuple(prefix) + tuple(flat) + tuple(rest))
        elif kind == 'typed':
            _, prefix, lit, rest, _ = case
            flat = list(lit)
            text = R(tuple(prefix) + tuple(flat) + tuple(rest))
        else:
            return None
    except Exception:
        return None
    try:
        import sqlparse
        from sqlparse import sql as S
        stmts = sqlparse.parse(text)
    except Exception as e:
        return {'what': _exc(e), 'input': text, 'observed': _clip(str(e)), 'expected': 'parse result'}
    try:
        if kind == 'where':
            want = N(where)
            texts = [_norm_ws(_text(n)) for n in _c13_nodes(stmts, S.Where)]
            ok = want in texts
            if not ok and (not rest or rest[0] == ';'):
                ok = any(t.rstrip(' ;') == want and t.startswith(want) for t in texts)
            if ok:
                return None
            near = [t for t in texts if t.startswith(want) or want.startswith(t)]
            return {'what': 'where-extent' if near else 'where-missing', 'input': text,
                    'observed': _clip(near or texts, 200), 'expected': _clip(want, 200)}
        if kind == 'idlist':
            want = N(flat)
            node = _c13_find(stmts, S.IdentifierList, want)
            if node is None:
                return {'what': 'idlist-missing', 'input': text,
                        'observed': _clip([_norm_ws(_text(n)) for n in _c13_nodes(stmts, S.IdentifierList)], 200),
                        'expected': _clip(want, 200)}
            obs = [_norm_ws(_text(t)) for t in node.get_identifiers()]
            exp = [N(it) for it in items]
            if obs != exp:
                return {'what': 'idlist-items', 'input': text, 'observed': _clip(obs, 200), 'expected': _clip(exp, 200)}
            return None
        if kind == 'func':
            want = N(flat)
            node = _c13_find(stmts, S.Function, want)
            if node is None:
                return {'what': 'function-missing', 'input': text,
                        'observed': _clip([_norm_ws(_text(n)) for n in _c13_nodes(stmts, S.Function)], 200),
                        'expected': _clip(want, 200)}
            obs = [_norm_ws(_text(t)) for t in node.get_parameters()]
            exp = [N(it) for it in args]
            if obs != exp:
                return {'what': 'function-parameters', 'input': text, 'observed': _clip(obs, 200),
                        'expected': _clip(exp, 200)}
            return None
        if kind == 'case':
            want = N(flat)
            node = _c13_find(stmts, S.Case, want)
            if node is None:
                return {'what': 'case-missing', 'input': text,
                        'observed': _clip([_norm_ws(_text(n)) for n in _c13_nodes(stmts, S.Case)], 200),
                        'expected': _clip(want, 200)}
            obs = []
            for c, v in node.get_cases():
                ct = None if c is None else _norm_ws(''.join(_text(t) for t in c if not _kw_is(t, ('WHEN',))))
                vt = _norm_ws(''.join(_text(t) for t in v if not _kw_is(t, ('THEN', 'ELSE'))))
                obs.append((ct, vt))
            # lenient: a pair that holds nothing but whitespace (the blank after CASE) is not a written part,
            # and the operand of a simple CASE may be reported as a leading condition without value
            obs = [p for p in obs if p != ('', '')]
            if operand and obs and obs[0] == (N(operand), ''):
                obs = obs[1:]
            exp = [(N(c), N(v)) for c, v in whens]
            if els is not None:
                exp.append((None, N(els)))
            if obs != exp:
                return {'what': 'case-parts', 'input': text, 'observed': _clip(obs, 200), 'expected': _clip(exp, 200)}
            return None
        if kind == 'cmp':
            want = N(flat)
            node = _c13_find(stmts, S.Comparison, want)
            if node is None:
                return {'what': 'comparison-missing', 'input': text,
                        'observed': _clip([_norm_ws(_text(n)) for n in _c13_nodes(stmts, S.Comparison)], 200),
                        'expected': _clip(want, 200)}
            obs = (_norm_ws(_text(node.left)), _norm_ws(_text(node.right)))
            exp = (N(left), N(right))
            if obs != exp:
                return {'what': 'comparison-operands', 'input': text, 'observed': obs, 'expected': exp}
            return None
        if kind == 'typed':
            want = N(flat)
            node = _c13_find(stmts, S.TypedLiteral, want)
            if node is None:
                return {'what': 'typedliteral-missing', 'input': text,
                        'observed': _clip([_norm_ws(_text(n)) for n in _c13_nodes(stmts, S.TypedLiteral)], 200),
                        'expected': _clip(want, 200)}
            return None
    except Exception as e:
        return {'what': 'accessor-' + _exc(e), 'input': text, 'observed': _clip(str(e)), 'expected': 'accessor result'}
    return None


def _c13_closers(kw):
    sel = [kw('SELECT'), 'a', kw('FROM'), 't']
    out = []
    for rest in (
        [kw('GROUP BY'), 'a'], [kw('ORDER BY'), 'a', kw('DESC')], [kw('LIMIT'), '1'],
        [kw('UNION'), kw('SELECT'), '2'], [kw('UNION ALL'), kw('SELECT'), 'b', kw('FROM'), 'u'],
        [kw('EXCEPT'), kw('SELECT'), '2'], [kw('HAVING'), 'count', '(', '*', ')', '>', '1'],
        [kw('INTO'), 'outfile'], [], [';'], [';', kw('SELECT'), '2'],
    ):
        out.append((tuple(sel), tuple(rest)))
    upd = [kw('UPDATE'), 't', kw('SET'), 'a', '=', '1']
    out.append((tuple(upd), (kw('RETURNING'), 'id')))
    out.append(((kw('DELETE'), kw('FROM'), 't'), (kw('RETURNING'), 'id')))
    sub = [kw('SELECT'), '*', kw('FROM'), '('] + sel
    out.append((tuple(sub), (')', 's')))
    out.append((tuple(sub), (kw('GROUP BY'), 'a', ')', 's', kw('ORDER BY'), 'b')))
    insub = [kw('SELECT'), 'b', kw('FROM'), 'u', kw('WHERE'), 'y', kw('IN'), '('] + sel
    out.append((tuple(insub), (')',)))
    out.append((tuple(insub), (kw('ORDER BY'), 'q', ')', kw('LIMIT'), '3')))
    return out


_C13_ITEMS = [
    ('a',), ('t1', '.', 'c'), ('a', 'AS', 'x'), ('b', 'y'), ('1',), ('2.5',), ("'s'",), ('a', '+', 'b'),
    ('f', '(', 'a', ')'), ('g', '(', 'b', ',', 'c', ')', 'AS', 'z'), ('count', '(', '*', ')'),
    ('CASE', 'WHEN', 'a', '=', '1', 'THEN', 'b', 'END'), ('x', '::', 'int'), ('NULL',), ('*',), ('t1', '.', '*'),
    ('(', 'a', '+', 'b', ')'), ('(', 'a', ')', 'AS', 'p'), ('(', 'SELECT', '1', ')'), ('(', 'SELECT', '1', ')', 'AS', 'q'),
    ('DATE', "'2020-01-01'"), ('INTERVAL', "'1'", 'DAY'), ('a', '=', '1'),
]
_C13_ARGS = [
    ('a',), ('t1', '.', 'b'), ('1',), ("'s'",), ('a', '+', 'b'), ('g', '(', 'x', ')'),
    ('CASE', 'WHEN', 'a', 'THEN', 'b', 'END'), ('(', 'a', ')'), ('NULL',), ('*',), ('DATE', "'2020-01-01'"),
    ('a', '=', '1'), ('x', '::', 'int'), ('(', 'SELECT', '1', ')'),
]
_C13_OPERANDS = [
    ('a',), ('t1', '.', 'b'), ('1',), ('2.5',), ("'s'",), ('f', '(', 'x', ')'), ('a', '+', 'b'), ('(', 'a', ')'),
    ('(', 'SELECT', '1', ')'), ('x', '::', 'int'), ('DATE', "'2020-01-01'"), ('INTERVAL', "'1'", 'DAY'),
    ('CASE', 'WHEN', 'a', 'THEN', 'b', 'END'), ('NULL',), ('"q"',), ('?',),
]
_C13_CMPOPS = ('=', '<>', '!=', '<', '>', '<=', '>=', 'LIKE', 'NOT LIKE', 'ILIKE')
_C13_WS = (' ', '\n', '  ')


def _lower_kw(lex):
    """lower-case the keyword-looking (all upper-case alphabetic, len>1) lexemes of hand-written parts"""
    return tuple(x.lower() if (x.replace(' ', '').isalpha() and x.isupper() and len(x) > 1) else x for x in lex)


def cases_C13(tier, seed):
    rnd = random.Random(seed * 4409 + 13)
    quick = tier == 'quick'
    up = lambda w: w            # noqa: E731
    lo = lambda w: w.lower()    # noqa: E731

    # ---- where: fixed conditions x all closers x ws x case
    fixed_conds = [('x', '=', '1'), ('x', 'BETWEEN', '1', 'AND', '2'), ('a', '=', '1', 'AND', 'b', '<', '2', 'OR', 'c', 'LIKE', "'z%'"),
                   ('x', 'IN', '(', 'SELECT', 'y', 'FROM', 'u', 'WHERE', 'z', '=', '1', 'ORDER BY', 'q', 'LIMIT', '1', ')'),
                   ('CASE', 'WHEN', 'a', '=', '1', 'THEN', 'b', 'ELSE', 'c', 'END', '>', '0'),
                   ('f', '(', 'a', ',', 'b', ')', '=', "'GROUP BY'"), ('x', 'IS', 'NOT NULL')]
    for kwf in (up, lo):
        for prefix, rest in _c13_closers(kwf):
            for cond in fixed_conds:
                c = cond if kwf is up else _lower_kw(cond)
                for ws in _C13_WS:
                    yield ('where', prefix, (kwf('WHERE'),) + tuple(c), rest, ws)
    n = 1800 if quick else 12000
    for _ in range(n):
        case = rnd.choice(('upper', 'lower'))
        g = Grammar(seed=rnd.randrange(1 << 30), max_depth=2, kw_case=case)
        prefix, rest = rnd.choice(_c13_closers(g.kw))
        cond = g.cond(rnd.choice((0, 1, 1, 2)))
        if len(cond) > 60:
            continue
        yield ('where', prefix, (g.kw('WHERE'),) + tuple(cond), rest, rnd.choice(_C13_WS))

    # ---- identifier lists
    sel_ctx = [(('SELECT',), ('FROM', 't')), (('SELECT',), ()), (('SELECT', 'DISTINCT'), ('FROM', 't', 'WHERE', 'x', '=', '1')),
               (('SELECT', '*', 'FROM', '(', 'SELECT'), ('FROM', 't', ')', 's'))]
    for a, b in itertools.product(_C13_ITEMS, repeat=2):
        for (prefix, rest) in sel_ctx[:1] if quick else sel_ctx:
            yield ('idlist', prefix, (a, b), rest, ' ')
    for _ in range(2500 if quick else 20000):
        k = rnd.choice((2, 3, 3, 4))
        items = tuple(rnd.choice(_C13_ITEMS) for _ in range(k))
        prefix, rest = rnd.choice(sel_ctx)
        ws = rnd.choice(_C13_WS)
        if rnd.random() < 0.5:
            items, prefix, rest = tuple(_lower_kw(i) for i in items), _lower_kw(prefix), _lower_kw(rest)
        yield ('idlist', prefix, items, rest, ws)
    from_ctx = [(('SELECT', '*', 'FROM'), ()), (('SELECT', 'a', 'FROM'), ('WHERE', 'x', '=', '1')),
                (('SELECT', 'a', 'FROM'), ('ORDER BY', 'a')), (('SELECT', '*', 'FROM', '(', 'SELECT', 'a', 'FROM'), (')', 's'))]
    refs = [('t',), ('s1', '.', 't'), ('t', 'x'), ('t', 'AS', 'x'), ('"T"', 'y'), ('`u`',), ('s1', '.', 'u', 'AS', 'v'),
            ('(', 'SELECT', '1', ')', 'q'), ('(', 'SELECT', 'a', 'FROM', 'b', ')', 'AS', 'r'), ('業者', 'n')]
    for a, b in itertools.product(refs, repeat=2):
        for prefix, rest in from_ctx[:2] if quick else from_ctx:
            yield ('idlist', prefix, (a, b), rest, ' ')
    for _ in range(1600 if quick else 10000):
        k = rnd.choice((2, 3, 4))
        items = tuple(rnd.choice(refs) for _ in range(k))
        prefix, rest = rnd.choice(from_ctx)
        if rnd.random() < 0.5:
            items, prefix, rest = tuple(_lower_kw(i) for i in items), _lower_kw(prefix), _lower_kw(rest)
        yield ('idlist', prefix, items, rest, rnd.choice(_C13_WS))
    for _ in range(3000 if quick else 20000):
        g = Grammar(seed=rnd.randrange(1 << 30), max_depth=2, kw_case=rnd.choice(('upper', 'lower')))
        k = rnd.choice((2, 3, 4))
        if rnd.random() < 0.6:
            items = []
            for _i in range(k):
                it = g.expr(rnd.choice((0, 1, 1, 2)))
                if rnd.random() < 0.3:
                    it = it + ([g.kw('AS')] if rnd.random() < 0.5 else []) + [rnd.choice(['al', 'x1', '"Al"'])]
                items.append(tuple(it))
            prefix, rest = (g.kw('SELECT'),), (g.kw('FROM'), 't')
        else:
            items = [tuple(g.ref(rnd.choice((0, 1)))) for _i in range(k)]
            prefix, rest = (g.kw('SELECT'), '*', g.kw('FROM')), rnd.choice(((), (g.kw('WHERE'), 'x', '=', '1')))
        if sum(len(i) for i in items) > 70:
            continue
        yield ('idlist', prefix, tuple(items), rest, rnd.choice(_C13_WS))

    # ---- function calls
    fctx = [(('SELECT',), ('FROM', 't')), (('SELECT', 'a', ','), (',', 'b', 'FROM', 't')),
            (('SELECT', '*', 'FROM', 't', 'WHERE', 'x', '='), ()), (('SELECT', 'h', '('), (')',))]
    arglists = [()] + [(a,) for a in _C13_ARGS] + list(itertools.product(_C13_ARGS, repeat=2))
    for args in arglists:
        for prefix, rest in fctx:
            for ws in (' ', '\n') if quick else _C13_WS:
                yield ('func', prefix, 'f', tuple(args), rest, ws)
    for _ in range(600 if quick else 6000):
        args = tuple(rnd.choice(_C13_ARGS) for _ in range(3))
        prefix, rest = rnd.choice(fctx)
        name = rnd.choice(('f', 'my_fn', 'coalesce', 'count'))
        if rnd.random() < 0.5:
            args, prefix, rest = tuple(_lower_kw(i) for i in args), _lower_kw(prefix), _lower_kw(rest)
        yield ('func', prefix, name, args, rest, rnd.choice(_C13_WS))
    for _ in range(2000 if quick else 10000):
        g = Grammar(seed=rnd.randrange(1 << 30), max_depth=2, kw_case=rnd.choice(('upper', 'lower')))
        args = tuple(tuple(g.expr(rnd.choice((0, 1, 2)))) for _i in range(rnd.randint(0, 3)))
        if sum(len(i) for i in args) > 60:
            continue
        yield ('func', (g.kw('SELECT'),), rnd.choice(('f', 'my_fn')), args, (g.kw('FROM'), 't'), rnd.choice(_C13_WS))

    # ---- CASE
    cctx = [(('SELECT',), ('FROM', 't')), (('SELECT', 'a', ','), ('AS', 'c', 'FROM', 't')),
            (('SELECT', '*', 'FROM', 't', 'WHERE'), ('=', '1')), (('SELECT', 'f', '('), (',', '1', ')')),
            (('UPDATE', 't', 'SET', 'a', '='), ('WHERE', 'b', '=', '1'))]
    for _ in range(5000 if quick else 30000):
        g = Grammar(seed=rnd.randrange(1 << 30), max_depth=2, kw_case=rnd.choice(('upper', 'lower')))
        d = rnd.choice((0, 0, 1, 2))
        operand = tuple(g.atom(0)) if rnd.random() < 0.3 else None
        whens = tuple((tuple(g.cond(d)) if operand is None else tuple(g.atom(d)), tuple(g.atom(d)))
                      for _i in range(rnd.randint(1, 3)))
        els = tuple(g.atom(d)) if rnd.random() < 0.5 else None
        prefix, rest = rnd.choice(cctx)
        if g.kw_case == 'lower':
            prefix, rest = _lower_kw(prefix), _lower_kw(rest)
        if sum(len(c) + len(v) for c, v in whens) > 70:
            continue
        yield ('case', prefix, operand, whens, els, rest, rnd.choice(_C13_WS))

    # ---- comparisons
    pctx = [(('SELECT', '*', 'FROM', 't', 'WHERE'), ()), (('SELECT', '*', 'FROM', 't', 'WHERE', 'z', '=', '0', 'AND'), ('OR', 'w', '>', '9')),
            (('SELECT', '*', 'FROM', 't', 'JOIN', 'u', 'ON'), ()), (('UPDATE', 't', 'SET', 'a', '=', '1', 'WHERE'), ()),
            (('SELECT', 'CASE', 'WHEN'), ('THEN', '1', 'END')), (('SELECT', '*', 'FROM', 't', 'WHERE', '('), (')',))]
    for l, r in itertools.product(_C13_OPERANDS, repeat=2):
        for op in _C13_CMPOPS if not quick else ('=', '<>', '>=', 'LIKE', 'NOT LIKE'):
            yield ('cmp', pctx[0][0], l, op, r, pctx[0][1], ' ')
    for _ in range(1500 if quick else 20000):
        l, r = rnd.choice(_C13_OPERANDS), rnd.choice(_C13_OPERANDS)
        op = rnd.choice(_C13_CMPOPS)
        prefix, rest = rnd.choice(pctx)
        if rnd.random() < 0.5:
            l, r, op, prefix, rest = _lower_kw(l), _lower_kw(r), op.lower(), _lower_kw(prefix), _lower_kw(rest)
        yield ('cmp', prefix, l, op, r, rest, rnd.choice(_C13_WS))
    for _ in range(2500 if quick else 10000):
        g = Grammar(seed=rnd.randrange(1 << 30), max_depth=2, kw_case=rnd.choice(('upper', 'lower')))
        d = rnd.choice((0, 1, 1, 2))
        l, r = tuple(g.expr(d)), tuple(g.expr(d))
        if len(l) + len(r) > 60:
            continue
        yield ('cmp', (g.kw('SELECT'), '*', g.kw('FROM'), 't', g.kw('WHERE')), l, g.kw(rnd.choice(_C13_CMPOPS[:8])), r, (),
               rnd.choice(_C13_WS))

    # ---- typed literals
    lits = []
    for kwd in ('DATE', 'TIMESTAMP'):
        for s in ("'2020-01-01'", "'2020-01-01 00:00:00'", "''", "'it''s'"):
            lits.append((kwd, s))
    for s in ("'1'", "'1 day'", "'2 hours'", "'1-2'"):
        lits.append(('INTERVAL', s))
        for u in ('DAY', 'HOUR', 'MINUTE', 'MONTH', 'SECOND', 'YEAR'):
            lits.append(('INTERVAL', s, u))
    tctx = [(('SELECT',), ()), (('SELECT',), ('FROM', 't')), (('SELECT', 'a', ','), (',', 'b', 'FROM', 't')),
            (('SELECT', '*', 'FROM', 't', 'WHERE', 'd', '>'), ()), (('SELECT', 'd', '+'), ('FROM', 't')),
            (('SELECT', 'f', '('), (')',)), (('SELECT',), ('AS', 'x', 'FROM', 't')),
            (('SELECT', '*', 'FROM', 't', 'WHERE', 'd', 'BETWEEN'), ('AND', 'e'))]
    for lit in lits:
        for prefix, rest in tctx:
            for ws in _C13_WS:
                for low in (False, True):
                    if low:
                        yield ('typed', _lower_kw(prefix), _lower_kw(lit), _lower_kw(rest), ws)
                    else:
                        yield ('typed', prefix, lit, rest, ws)


def classify_C13(case, failure):
    return None


def smoke_C13():
    sel = ('SELECT', 'a', 'FROM', 't')
    return [
        ('where', sel, ('WHERE', 'x', '=', '1'), ('GROUP BY', 'a'), ' '),
        ('where', sel, ('WHERE', 'x', 'BETWEEN', '1', 'AND', '2'), ('LIMIT', '1'), '\n'),
        ('where', ('SELECT', '*', 'FROM', '(') + sel, ('WHERE', 'x', '=', '1'), (')', 's'), ' '),
        ('idlist', ('SELECT',), (('a',), ('b', 'AS', 'c'), ('f', '(', 'x', ')')), ('FROM', 't'), ' '),
        ('idlist', ('SELECT', '*', 'FROM'), (('t', 'x'), ('s1', '.', 'u', 'AS', 'v')), (), '  '),
        ('func', ('SELECT',), 'f', (('a',), ('1',), ("'s'",)), ('FROM', 't'), ' '),
        ('func', ('SELECT',), 'f', (), ('FROM', 't'), ' '),
        ('case', ('SELECT',), None, ((('a', '=', '1'), ('b',)),), ('c',), ('FROM', 't'), ' '),
        ('case', ('SELECT',), ('x',), ((('1',), ("'a'",)), (('2',), ("'b'",))), None, ('FROM', 't'), '\n'),
        ('cmp', ('SELECT', '*', 'FROM', 't', 'WHERE'), ('a', '+', 'b'), '>=', ('f', '(', 'x', ')'), (), ' '),
        ('typed', ('SELECT',), ('INTERVAL', "'1'", 'DAY'), ('FROM', 't'), ' '),
        ('typed', ('SELECT', '*', 'FROM', 't', 'WHERE', 'd', '>'), ('DATE', "'2020-01-01'"), (), '\n'),
    ]


# ======================================================================================================== C15

RULE_C15 = (
    'Each case runs in a fresh interpreter (subprocess): (entry point, options, nesting kind, depth, recursion '
    'limit).  Entry points/option sets: parse, parsestream, split, split(strip_semicolon), format with {}, reindent, '
    'reindent_aligned, strip_whitespace, strip_comments, use_space_around_operators, keyword_case=upper, '
    'output_format=python, reindent+strip_comments+keyword_case.  Nesting kinds: parentheses, brackets, CASE, '
    'function calls, subqueries, unclosed "(", unclosed "[", BEGIN..END blocks, mixed "(f([".  quick: depths 50, 300, '
    '1000, 5000 x recursion limits 200 and 300, and depths 50, 100 with limit 1000 (a case costs many seconds '
    'once the tree grows some hundred levels deep before the limit is hit): every (entry, kind) pair once with '
    '(depth, limit) assigned round-robin, parse and format(reindent) x 4 kinds with every (depth, limit), plus seeded '
    'extras (about 200 cases).  thorough: full product over depths 50..20000 x limits 200, 400 and depths <= 300 x '
    'limit 1000, depth 1000 / limit 1000 for five entry points, depth 5000 / limit 1000 for parse and format(reindent).  The child sets the limit, calls the entry point, '
    'checks the round trip on success, then calls parse / format(reindent=True) on ordinary input.  Allowed: '
    'success or SQLParseError.  Failures: RecursionError or any other exception, wrong round trip, death of the '
    'child (signal, non-zero exit), later ordinary call failing.')

_C15_ENTRIES = (
    ('parse', ()), ('parsestream', ()), ('split', ()), ('split', (('strip_semicolon', True),)),
    ('format', ()), ('format', (('reindent', True),)), ('format', (('reindent_aligned', True),)),
    ('format', (('strip_whitespace', True),)), ('format', (('strip_comments', True),)),
    ('format', (('use_space_around_operators', True),)), ('format', (('keyword_case', 'upper'),)),
    ('format', (('output_format', 'python'),)),
    ('format', (('keyword_case', 'upper'), ('reindent', True), ('strip_comments', True))),
)
_C15_KINDS = ('paren', 'bracket', 'case', 'func', 'subquery', 'unclosed', 'unclosed_bracket', 'begin', 'mixed')
_C15_DEPTHS = (50, 300, 1000, 5000)
_C15_LIMITS = (200, 1000)

_C15_CHILD = r'''
import sys, json
sys.path.insert(0, sys.argv[1])
entry, options, kind, depth, limit = json.loads(sys.argv[2])
options = dict(options)
import sqlparse
from sqlparse.exceptions import SQLParseError
d = depth
if kind == 'paren':
    text = 'select ' + '(' * d + '1' + ')' * d
elif kind == 'bracket':
    text = 'select a' + '[' * d + '1' + ']' * d
elif kind == 'case':
    text = 'select ' + 'case when a then ' * d + '1' + ' end' * d
elif kind == 'func':
    text = 'select ' + 'f(' * d + '1' + ')' * d
elif kind == 'subquery':
    text = 'select * from (' * d + 'select 1' + ') t' * d
elif kind == 'unclosed':
    text = 'select ' + '(' * d + '1'
elif kind == 'unclosed_bracket':
    text = 'select a' + '[' * d + '1'
elif kind == 'begin':
    text = 'begin ' * d + 'select 1; ' + 'end; ' * d
elif kind == 'mixed':
    text = 'select ' + '(f([' * d + '1' + ']))' * d
else:
    text = 'select 1'
out = {'len': len(text)}
HIGH = 1000000


def nows(s):
    return ''.join(s.split())


sys.setrecursionlimit(limit)
try:
    if entry == 'parse':
        res = sqlparse.parse(text)
    elif entry == 'parsestream':
        res = list(sqlparse.parsestream(text))
    elif entry == 'split':
        res = sqlparse.split(text, **options)
    else:
        res = sqlparse.format(text, **options)
    out['outcome'] = 'ok'
except SQLParseError:
    out['outcome'] = 'SQLParseError'
except RecursionError:
    out['outcome'] = 'exception:RecursionError'
except BaseException as e:
    out['outcome'] = 'exception:' + type(e).__name__
    out['detail'] = str(e)[:200]
if out['outcome'] == 'ok':
    # the round trip is checked with a generous limit: the property is about the call, the check is ours
    sys.setrecursionlimit(HIGH)
    try:
        if entry in ('parse', 'parsestream'):
            parts = []
            for st in res:
                stack = [st]
                while stack:
                    n = stack.pop()
                    if n.is_group:
                        stack.extend(reversed(n.tokens))
                    else:
                        parts.append(n.value)
            if ''.join(parts) != text:
                out['outcome'] = 'roundtrip'
            elif ''.join(str(s) for s in res) != text:
                out['outcome'] = 'roundtrip-str'
        elif entry == 'split':
            want = nows(text)
            if options.get('strip_semicolon'):
                if nows(''.join(res)).replace(';', '') != want.replace(';', ''):
                    out['outcome'] = 'roundtrip'
            elif nows(''.join(res)) != want:
                out['outcome'] = 'roundtrip'
        else:
            if not isinstance(res, str):
                out['outcome'] = 'result-type'
            elif not options and nows(res) != nows(text):
                out['outcome'] = 'roundtrip'
    except BaseException as e:
        out['outcome'] = 'roundtrip-exception:' + type(e).__name__
    sys.setrecursionlimit(limit)
try:
    later = sqlparse.parse('select 1 from t')
    ok = len(later) == 1 and str(later[0]) == 'select 1 from t' and later[0].get_type() == 'SELECT'
    f = sqlparse.format('select a, b from t where x = 1', reindent=True)
    ok = ok and f == 'select a,\n       b\nfrom t\nwhere x = 1'
    out['later'] = 'ok' if ok else 'wrong-result'
except BaseException as e:
    out['later'] = 'exception:' + type(e).__name__
sys.stdout.write('\n@@RESULT@@' + json.dumps(out) + '\n')
sys.stdout.flush()
'''


def oracle_C15(case):
    try:
        entry, options, kind, depth, limit = case
        arg = json.dumps([entry, [list(o) for o in options], kind, depth, limit])
    except Exception:
        return None
    env = dict(os.environ)
    env['PYTHONPATH'] = core.REPO
    env.pop('PYTHONSTARTUP', None)
    try:
        p = subprocess.run([_python(), '-c', _C15_CHILD, core.REPO, arg], capture_output=True, timeout=300, env=env)
    except subprocess.TimeoutExpired:
        return {'what': 'timeout', 'input': case, 'observed': 'no result within 300 s', 'expected': 'result or SQLParseError'}
    except Exception as e:
        return {'what': 'spawn-' + _exc(e), 'input': case, 'observed': str(e), 'expected': 'child process'}
    outp = p.stdout.decode('utf-8', 'replace')
    if p.returncode != 0 or '@@RESULT@@' not in outp:
        what = 'child-signal:%d' % -p.returncode if p.returncode < 0 else 'child-exit:%d' % p.returncode
        return {'what': what, 'input': case, 'observed': _clip(p.stderr.decode('utf-8', 'replace')[-300:]),
                'expected': 'result or SQLParseError'}
    try:
        out = json.loads(outp.rsplit('@@RESULT@@', 1)[1].strip())
    except Exception as e:
        return {'what': 'child-output', 'input': case, 'observed': _clip(outp[-200:]), 'expected': 'json result'}
    if out.get('outcome') not in ('ok', 'SQLParseError'):
        return {'what': out.get('outcome'), 'input': case, 'observed': out, 'expected': 'ok or SQLParseError'}
    if out.get('later') != 'ok':
        return {'what': 'later-call:' + str(out.get('later')), 'input': case, 'observed': out, 'expected': 'later call works'}
    return None


def cases_C15(tier, seed):
    # cost note: a case costs seconds once the tree gets a few hundred levels deep before the limit is hit
    # (TokenList.__init__ serialises every new group), so limit 1000 is combined with small depths in the quick tier
    pairs = [(d, l) for d in _C15_DEPTHS for l in (200, 300)] + [(50, 1000), (100, 1000)]
    if tier != 'quick':
        pairs = [(d, l) for d in (50, 100, 300, 1000, 5000, 20000) for l in (200, 400)] + \
                [(d, 1000) for d in (50, 100, 300)]
        for e, o in _C15_ENTRIES:
            for k in _C15_KINDS:
                for d, l in pairs:
                    yield (e, o, k, d, l)
                if (e, o) in (_C15_ENTRIES[0], _C15_ENTRIES[2], _C15_ENTRIES[4], _C15_ENTRIES[5], _C15_ENTRIES[6]):
                    yield (e, o, k, 1000, 1000)      # 10-40 s each
        for e, o in (_C15_ENTRIES[0], _C15_ENTRIES[5]):
            for k in ('paren', 'func', 'case'):
                yield (e, o, k, 5000, 1000)
        return
    i = 0
    for e, o in _C15_ENTRIES:
        for k in _C15_KINDS:
            d, l = pairs[i % len(pairs)]
            i += 3
            yield (e, o, k, d, l)
    for e, o in (_C15_ENTRIES[0], _C15_ENTRIES[5]):
        for k in ('paren', 'case', 'func', 'unclosed'):
            for d, l in pairs:
                yield (e, o, k, d, l)
    rnd = random.Random(seed * 53 + 15)
    for _ in range(12):
        e, o = rnd.choice(_C15_ENTRIES)
        yield (e, o, rnd.choice(_C15_KINDS), rnd.choice((20, 80, 150, 250, 600, 2000)), rnd.choice((200, 300, 400)))


def classify_C15(case, failure):
    return None


def smoke_C15():
    return [
        ('parse', (), 'paren', 5000, 400),
        ('parse', (), 'bracket', 1000, 200),
        ('format', (('reindent', True),), 'case', 300, 200),
        ('split', (), 'unclosed', 5000, 200),
        ('format', (('strip_whitespace', True),), 'func', 100, 1000),
        ('parsestream', (), 'subquery', 50, 1000),
    ]


# ======================================================================================================== C18

RULE_C18 = (
    'Exhaustive product of: every word typed Keyword.DML / Keyword.DDL in the dictionaries of sqlparse.keywords '
    '(read from the tables at generation time) plus CREATE OR REPLACE with four inner-whitespace spellings '
    'x casing (upper, lower, capitalised, alternating) x 19 leading trivia (blanks, line ends, block / line / '
    'hash / hint comments, comments containing keywords, several comments) x 24 continuations (nothing, blank, '
    'TAB, LF, CRLF, ";", number, "* from t", "(1)", " (1)", ".x", " .5", "*", ",", quoted literal, "[1]", "=1", "+1", '
    'comment glued to the keyword ...; never one that extends the word).  WITH statements: 11 shapes of CTE '
    'definitions (one / two CTEs, column list, RECURSIVE, MATERIALIZED, quoted name, comments, nested WITH, glued '
    'parenthesis) x following word (SELECT INSERT UPDATE DELETE MERGE -> that word; foo, VALUES -> UNKNOWN) x casing '
    'x trivia subset.  Other first words (21: EXPLAIN, SHOW, SET, BEGIN, names, number, string, "(" ...) -> '
    "UNKNOWN, with continuations free of DML/DDL words.  Expected value: ' '.join(keyword.upper().split()) when "
    'the tables type the (first) word DML/DDL, computed from the tables not from the lexer.')

_C18_TRIVIA = ('', ' ', '\n', '\t  ', '\r\n', '\n\n', '/* c */', '/* c */ ', '-- c\n', ' -- c\n  /* d */\n', '/*+ h */ ',
               '# c\n', '--\n', '/* select */ ', '-- insert into\n', '/* a */ /* b */ ', '/* a */\n/* b */\n',
               '-- a\n-- b\n', '--+ h\n')
_C18_CONT = ('', ' ', '\t', '\n', '\r\n', ';', ' 1', '\n1', '\t1', ' * from t', ' x, y from t where z = 1', '(1)', ' (1)',
             '.x', ' .5', ' 1.5', ' -1', '*', ',', "'a'", ' "a"', '[1]', '=1', '+1', '/* c */1', '--c\n1', ' /* c */ 1',
             '@x')
_C18_CASINGS = ('upper', 'lower', 'capitalize', 'mixed')
_C18_CTE_DEFS = (' x AS (select 1) ', ' x AS (select 1), y AS (select 2) ', ' x (a, b) AS (select 1, 2) ',
                 ' RECURSIVE x AS (select 1 union all select 2) ', '\nx\nAS\n(select 1)\n', ' "x" AS (select 1) ',
                 ' x AS (select 1)', ' /* c */ x AS (select 1) /* d */ ', ' x AS MATERIALIZED (select 1) ',
                 ' x AS (with y as (select 1) select * from y) ', ' x as (select 1) , y as (select 2)\n',
                 # comments between the CTE definitions and the main keyword (own line, end of line, several)
                 ' x AS (select 1)\n-- main\n', ' x AS (select 1) -- c\n', ' x AS (select 1)\n/* main */\n',
                 ' x AS (select 1), y AS (select 2)\n-- c\n-- d\n', ' x AS (select 1)\r\n-- c\r\n')
_C18_CTE_NEXT = (('SELECT', ' * from x'), ('SELECT', ' 1'), ('SELECT', '\n1'), ('INSERT', ' into t select * from x'),
                 ('UPDATE', ' t set a = 1'), ('DELETE', ' from t'), ('MERGE', ' into t using x on 1 = 1'), ('foo', ' bar'),
                 ('VALUES', ' (1)'))
_C18_OTHER = ('EXPLAIN', 'SHOW', 'SET', 'BEGIN', 'GRANT', 'CALL', 'USE', 'DECLARE', 'VALUES', 'ANALYZE', 'FROM', 'WHERE',
              'END', 'IF', 'foo', 'x1', '業者', '1', "'s'", '(', '"select"')
_C18_OTHER_CONT = ('', ' ', ';', ' 1', ' * from t', '\nx', '(1)', '.x', ' x = 1')
_C18_DICTS = ('KEYWORDS_COMMON', 'KEYWORDS_ORACLE', 'KEYWORDS_MYSQL', 'KEYWORDS_PLPGSQL', 'KEYWORDS_HQL',
              'KEYWORDS_MSACCESS', 'KEYWORDS_SNOWFLAKE', 'KEYWORDS_BIGQUERY', 'KEYWORDS')


def _c18_table_type(word):
    """type of a word according to the keyword dictionaries (documented lookup order), None if not listed"""
    from sqlparse import keywords as K
    w = word.upper()
    for name in _C18_DICTS:
        d = getattr(K, name, None)
        if d and w in d:
            return d[w]
    return None


def _c18_dml_ddl_words():
    from sqlparse import keywords as K, tokens as T
    out = []
    names = list(_C18_DICTS) + sorted(n for n in dir(K) if n.startswith('KEYWORDS') and n not in _C18_DICTS)
    for name in names:
        d = getattr(K, name, None)
        if isinstance(d, dict):
            for k in sorted(d):
                if d[k] in (T.Keyword.DML, T.Keyword.DDL) and k not in out and _c18_table_type(k) is d[k]:
                    out.append(k)
    return out


def _c18_recase(w, how):
    if how == 'capitalize':
        return w[:1].upper() + w[1:].lower()
    return _recase(w, how)


def oracle_C18(case):
    try:
        from sqlparse import tokens as T
        leading, keyword, casing, cont = case
        kw = _c18_recase(keyword, casing)
        words = keyword.upper().split()
        collapsed = ' '.join(words)
        if isinstance(cont, tuple):
            if cont[0] != 'cte' or collapsed != 'WITH':
                return None
            _, defs, dml, rest = cont
            text = leading + kw + defs + _c18_recase(dml, casing) + rest
            expected = dml.upper() if _c18_table_type(dml) is T.Keyword.DML else 'UNKNOWN'
        else:
            text = leading + kw + cont
            if collapsed == 'CREATE OR REPLACE':
                expected = collapsed
            elif len(words) == 1 and words[0].isalpha() and _c18_table_type(words[0]) in (T.Keyword.DML, T.Keyword.DDL):
                expected = collapsed
            elif collapsed == 'WITH':
                return None
            else:
                expected = 'UNKNOWN'
    except Exception:
        return None
    try:
        import sqlparse
        stmts = sqlparse.parse(text)
        if not stmts:
            observed = 'UNKNOWN'      # no statement at all: nothing to type
        else:
            observed = stmts[0].get_type()
    except Exception as e:
        return {'what': _exc(e), 'input': text, 'observed': _clip(str(e)), 'expected': expected}
    if observed != expected:
        if expected == 'UNKNOWN':
            what = 'typed-but-unknown-expected'
        elif observed == 'UNKNOWN':
            what = 'unknown-for-keyword'
        elif ' '.join(str(observed).split()) == expected:
            what = 'inner-whitespace-kept'
        else:
            what = 'wrong-type'
        return {'what': what, 'input': text, 'observed': observed, 'expected': expected}
    return None


def cases_C18(tier, seed):
    words = _c18_dml_ddl_words() + ['CREATE OR REPLACE', 'CREATE  OR   REPLACE', 'CREATE\nOR\tREPLACE', 'CREATE OR\r\nREPLACE']
    for kw in words:
        for cs in _C18_CASINGS:
            for lead in _C18_TRIVIA:
                for cont in _C18_CONT:
                    yield (lead, kw, cs, cont)
    trivia = _C18_TRIVIA if tier != 'quick' else _C18_TRIVIA[:10]
    for defs in _C18_CTE_DEFS:
        for dml, rest in _C18_CTE_NEXT:
            for cs in _C18_CASINGS:
                for lead in trivia:
                    yield (lead, 'WITH', cs, ('cte', defs, dml, rest))
    for w in _C18_OTHER:
        for cs in _C18_CASINGS:
            for lead in trivia:
                for cont in _C18_OTHER_CONT:
                    yield (lead, w, cs, cont)
    # "everything after the leading keyword" may be long: a pretty-printed column list of more than 10 000 tokens (every
    # blank of the indentation is a token) behind the keyword
    tail = ' into t select\n        ' + ',\n        '.join('col_%04d' % i for i in range(1000)) + '\nfrom x'
    yield ('', 'WITH', 'lower', ('cte', ' x AS (select 1) ', 'INSERT', tail))
    yield ('-- c\n', 'SELECT', 'upper', '\n        ' + ',\n        '.join('col_%04d' % i for i in range(1000)) + '\nfrom x')
    if tier != 'quick':
        yield ('', 'WITH', 'upper', ('cte', ' x AS (select 1), y AS (select 2)\n', 'DELETE',
                                     ' from t where a in (' + ', '.join(str(i) for i in range(4000)) + ')'))


def classify_C18(case, failure):
    return None


def smoke_C18():
    return [
        ('', 'SELECT', 'lower', ' 1'),
        ('/* c */ ', 'INSERT', 'mixed', ' into t values (1)'),
        ('-- c\n', 'CREATE OR REPLACE', 'lower', ' view v as select 1'),
        ('\n', 'DROP', 'upper', ';'),
        (' ', 'WITH', 'lower', ('cte', ' x AS (select 1), y AS (select 2) ', 'DELETE', ' from t')),
        ('', 'EXPLAIN', 'upper', ' x'),
        ('', 'WITH', 'upper', ('cte', ' x AS (select 1) ', 'foo', ' bar')),
    ]


# ======================================================================================================== C19

RULE_C19 = (
    'Long scripts (9 000 / 70 000 / 140 000 characters, thorough up to 1.1 M, every line end inside a multi-line token) must '
    'give identical tokens, split() results and parsestream()/parse() statements as str, StringIO, UTF-8 bytes and TextIOWrapper.  '
    "Library half, case (text, 'lib'): the results of parse (tree as plain data), split and format(reindent=True) "
    '(for stream forms also parsestream and format()) for the str are compared with the results for: bytes + encoding for every encoding of '
    '{utf-8, latin-1, gbk, cp1251, utf-16} that can represent the text, UTF-8 bytes without encoding, '
    'io.StringIO, a TextIOWrapper over the UTF-8 bytes; and for every encoding of {latin-1, gbk, cp1251} whose '
    'bytes are not valid UTF-8: bytes without encoding must give the result of the Latin-1 reading of those '
    'bytes.  Texts: fixed list (empty, blanks, lone delimiters, unclosed quotes / comments, NUL, CR / CRLF, '
    'backslashes next to non-ASCII, Latin-1 / Cyrillic / CJK literals, names and comments), grammar scripts with '
    'non-ASCII names joined by varying separators, token soups with non-ASCII fragments.  '
    "CLI half, case (text, ('cli', flags, input channel, output channel, encoding)): the text is written to a file "
    'in a fresh temp dir (or piped to stdin with "-"), `python -m sqlparse` runs in a child with the flags, the bytes '
    'on stdout (PYTHONIOENCODING = the encoding) or in the -o file must equal format(text, **options(flags)) '
    'encoded (the universal-newline reading of the text is accepted too); exit status 0.  22 flag combinations '
    '(-r, -a, -s, -k, -i, -l, --strip-comments, --indent_width, --wrap_after, --comma_first, --indent_columns, '
    '--indent_after_first, --compact and pairs / triples) x 5 (text, channels, encoding) assignments each in the '
    'quick tier (110 cases, spread between the library cases), all combinations in the thorough tier.')

# (the last three are not ASCII-compatible and need no byte order mark: pure-ASCII SQL has an all-ASCII byte image there)
_C19_ENCODINGS = ('utf-8', 'latin-1', 'gbk', 'cp1251', 'utf-16', 'utf-16-le', 'utf-32-be', 'utf-7')
_C19_FIXED = [
    '', ' ', '\n', '\r\n', ';', ';;', 'select 1', 'select 1;', "select 'é'", 'select "naïve" from 業者',
    "select 'Привет' from т where ю = 1", "select '你好' as 問候", 'select 1;\r\nselect 2;\r\n', "select '\\n\xe9'",
    "select 'a\\' , 'é'", 'select \x00 from t', '-- комментарий\nselect 1', '/* é */ select 1',
    "select 'it''s' ; insert into t values ('ü')", 'select "unclosed é', "select 'unclosed é", '/* unclosed é',
    'select\t1\r2', "sélect * from t where a = 'ß'", 'select \xa0 1', "select 'C:\\temp\\é'", "select '\\u00e9 é'",
    "select '\\x4' , 'ÿ'", 'select a -- ü\n from t', "select 'Ã©'", 'create table "Ünï" (ä int, ö text)',
    'select * from t where a like \'%é%\' order by ü desc', "insert into т values ('я', 1); select 2", '\ufeffselect 1',
    'select \ud800', "select '𝒳'", 'select 1 /* 業 */ from t; -- 者\nselect 2',
]
_C19_SOUP = ['select', 'from', 'where', 'é', "'ü'", '"ß"', '業者', 'т', "'я'", ';', ',', '(', ')', '1', 'a', '\\', "'\\n'",
             '-- é\n', '/* ü */', '=', '\r\n', 'order by', 'ÿ', '\xa0', "'", '"', '`ö`', 'join', 'as', '$é$', '0x1F']
_C19_FLAGS = (
    (), ('-r',), ('-a',), ('-s',), ('-k', 'upper'), ('-i', 'lower'), ('-l', 'python'), ('--strip-comments',),
    ('-r', '--indent_width', '4'), ('-r', '--wrap_after', '20'), ('-r', '--comma_first', 'True'), ('-r', '--indent_columns'),
    ('-r', '--indent_after_first'), ('-r', '--compact', 'True'), ('-r', '-k', 'upper'), ('-a', '-k', 'lower'),
    ('-s', '--strip-comments'), ('-r', '-s', '-i', 'upper'), ('-k', 'capitalize', '-i', 'capitalize'),
    ('-r', '--strip-comments', '-k', 'upper'), ('-l', 'php', '-r'), ('-a', '-s', '--strip-comments'),
)
_C19_CLI_TEXTS = (
    'select a, b from t where x = 1 and y = 2; insert into t values (1, 2);\n',
    'select a+b as c, /* note */ d from t -- tail\nwhere a=1 order by c',
    "select 'é', \"naïve\" from tàble where ü = 'ß' -- café\n",
    "select 'Привет', ю from т where я = 1; /* комментарий */ update т set ю = 2\n",
    "select '你好' as 問候, 業者 from 表 where 名 = '者'\n",
    'select case when a = 1 then b else c end, f(x, y) from t1 join t2 on t1.id = t2.id group by a having count(*) > 1',
    '', 'select 1',
)


def _c19_results(mk, encoding, names=('parse', 'split', 'format_reindent')):
    """results of the calls for one input form; mk() makes a fresh argument (streams are consumed)"""
    import sqlparse
    out = []
    for name in names:
        try:
            arg = mk()
            if name == 'parse':
                r = [_plain_tree(s) for s in sqlparse.parse(arg, encoding)]
            elif name == 'parsestream':
                r = [_plain_tree(s) for s in sqlparse.parsestream(arg, encoding)]
            elif name == 'split':
                r = list(sqlparse.split(arg, encoding))
            elif name == 'format':
                r = sqlparse.format(arg, encoding=encoding)
            else:
                r = sqlparse.format(arg, encoding=encoding, reindent=True)
        except Exception as e:
            r = ('raised', type(e).__name__)
        out.append((name, r))
    return out


_C19_ALL = ('parse', 'parsestream', 'split', 'format', 'format_reindent')


def _c19_opts(flags):
    opts = {}
    i = 0
    flags = list(flags)
    simple = {'-r': 'reindent', '-a': 'reindent_aligned', '-s': 'use_space_around_operators',
              '--strip-comments': 'strip_comments', '--indent_columns': 'indent_columns',
              '--indent_after_first': 'indent_after_first'}
    valued = {'-k': ('keyword_case', str), '-i': ('identifier_case', str), '-l': ('output_format', str),
              '--indent_width': ('indent_width', int), '--wrap_after': ('wrap_after', int),
              '--comma_first': ('comma_first', bool), '--compact': ('compact', bool)}
    while i < len(flags):
        f = flags[i]
        if f in simple:
            opts[simple[f]] = True
            i += 1
        elif f in valued:
            name, conv = valued[f]
            opts[name] = conv(flags[i + 1])
            i += 2
        else:
            raise ValueError(f)
    return opts


def _c19_cli(text, kind):
    import shutil
    import tempfile
    import sqlparse
    _, flags, inch, outch, enc = kind
    try:
        data = text.encode(enc)
        if data.decode(enc) != text:
            return None
        opts = _c19_opts(flags)
    except Exception:
        return None
    translated = text.replace('\r\n', '\n').replace('\r', '\n')
    try:
        accepted = []
        for t in (text, translated):
            e = sqlparse.format(t, **opts).encode(enc)
            if e not in accepted:
                accepted.append(e)
    except Exception:
        return None   # format itself fails on this text/options: nothing to compare the front end with (C07)
    tmp = tempfile.mkdtemp(prefix='pyvc_c19_')
    try:
        argv = [_python(), '-m', 'sqlparse'] + list(flags)
        stdin = None
        if inch == 'file':
            fn = os.path.join(tmp, 'input.sql')
            with open(fn, 'wb') as f:
                f.write(data)
            argv.append(fn)
        else:
            argv.append('-')
            stdin = data
        argv += ['--encoding', enc]
        outfn = os.path.join(tmp, 'out.sql')
        if outch == 'outfile':
            argv += ['-o', outfn]
        env = dict(os.environ)
        env['PYTHONPATH'] = core.REPO
        env['PYTHONIOENCODING'] = enc
        env.pop('PYTHONSTARTUP', None)
        try:
            p = subprocess.run(argv, input=stdin if stdin is not None else b'', capture_output=True, timeout=120,
                               env=env, cwd=tmp)
        except subprocess.TimeoutExpired:
            return {'what': 'cli-timeout', 'input': (text, kind), 'observed': 'no result', 'expected': 'output'}
        shown = (text, kind)
        if p.returncode != 0:
            return {'what': 'cli-exit:%d' % p.returncode, 'input': shown,
                    'observed': _clip(p.stderr.decode('utf-8', 'replace')[-300:]), 'expected': 'exit status 0'}
        if outch == 'outfile':
            try:
                with open(outfn, 'rb') as f:
                    got = f.read()
            except OSError as e:
                return {'what': 'cli-no-outfile', 'input': shown, 'observed': str(e), 'expected': 'output file'}
            if p.stdout:
                return {'what': 'cli-stdout-with-outfile', 'input': shown, 'observed': _clip(p.stdout), 'expected': b''}
        else:
            got = p.stdout
        if got not in accepted:
            return {'what': 'cli-output', 'input': shown, 'observed': _clip(got, 200), 'expected': _clip(accepted[0], 200)}
        return None
    finally:
        shutil.rmtree(tmp, ignore_errors=True)


def oracle_C19(case):
    import io
    try:
        text, kind = case
        if not isinstance(text, str):
            return None
    except Exception:
        return None
    if isinstance(kind, tuple) and kind and kind[0] == 'big':
        # long script: str, text stream and UTF-8 bytes must give the same tokens and the same statements
        from pyvc import domain
        from sqlparse import lexer
        import sqlparse
        big, units = domain.big_script(kind[1], salt=kind[1] % 5)
        big = text + big
        try:
            ref = list(lexer.tokenize(big))
            for nm, mk in (('StringIO', lambda: io.StringIO(big)), ('utf-8 bytes', lambda: big.encode('utf-8')),
                           ('TextIOWrapper', lambda: io.TextIOWrapper(io.BytesIO(big.encode('utf-8')), encoding='utf-8', newline=''))):
                got = list(lexer.tokenize(mk()))
                if got != ref:
                    i = next((j for j, (a, b) in enumerate(zip(got, ref)) if a != b), min(len(got), len(ref)))
                    return {'what': 'long-script-tokens-differ:' + nm, 'input': ('big', kind[1]),
                            'observed': _clip(repr(got[i:i + 2]), 200), 'expected': _clip(repr(ref[i:i + 2]), 200)}
            want = sqlparse.split(big)
            for nm, mk in (('StringIO', lambda: io.StringIO(big)), ('utf-8 bytes', lambda: big.encode('utf-8'))):
                got = sqlparse.split(mk())
                if got != want:
                    return {'what': 'long-script-split-differs:' + nm, 'input': ('big', kind[1]),
                            'observed': '%d statements' % len(got), 'expected': '%d statements' % len(want)}
            ps = [str(s_) for s_ in sqlparse.parsestream(io.StringIO(big))]
            pp = [str(s_) for s_ in sqlparse.parse(big)]
            if ps != pp:
                return {'what': 'long-script-parsestream-vs-parse', 'input': ('big', kind[1]),
                        'observed': '%d statements' % len(ps), 'expected': '%d statements' % len(pp)}
        except Exception as e:
            return {'what': 'long-script-' + _exc(e), 'input': ('big', kind[1]), 'observed': _clip(str(e)), 'expected': 'a result'}
        return None
    if isinstance(kind, tuple) and kind and kind[0] == 'cli':
        try:
            return _c19_cli(text, kind)
        except Exception as e:
            return {'what': 'cli-' + _exc(e), 'input': (text, kind), 'observed': _clip(str(e)), 'expected': 'cli run'}
    if kind != 'lib':
        return None
    try:
        base_all = _c19_results(lambda: text, None, _C19_ALL)
        d = dict(base_all)
        if d['parsestream'] != d['parse']:
            return {'what': 'parsestream-vs-parse', 'input': text, 'observed': _clip(d['parsestream'], 200),
                    'expected': _clip(d['parse'], 200)}
        base = [(n, r) for n, r in base_all if n in ('parse', 'split', 'format_reindent')]
        forms = []
        for enc in _C19_ENCODINGS:
            try:
                b = text.encode(enc)
                if b.decode(enc) != text:
                    continue
            except (UnicodeError, LookupError):
                continue
            forms.append(('bytes+' + enc, (lambda b=b: b), enc, base, None))
            if enc == 'utf-8':
                forms.append(('utf8-bytes-no-encoding', (lambda b=b: b), None, base, None))
                forms.append(('TextIOWrapper', (lambda b=b: io.TextIOWrapper(io.BytesIO(b), encoding='utf-8', newline='')),
                              None, base_all, _C19_ALL))
            elif enc != 'utf-16':
                try:
                    b.decode('utf-8')
                except UnicodeDecodeError:
                    as_latin1 = b.decode('latin-1')
                    want = base if as_latin1 == text else _c19_results(lambda: as_latin1, None)
                    forms.append(('non-utf8-bytes-no-encoding(%s)' % enc, (lambda b=b: b), None, want, None))
        forms.append(('StringIO', (lambda: io.StringIO(text)), None, base_all, _C19_ALL))
        for label, mk, enc, want, names in forms:
            got = _c19_results(mk, enc, names) if names else _c19_results(mk, enc)
            for (name, g), (_, w) in zip(got, want):
                if g != w:
                    return {'what': '%s:%s' % (label, name), 'input': text, 'observed': _clip(g, 200),
                            'expected': _clip(w, 200)}
    except Exception as e:
        return {'what': 'oracle-' + _exc(e), 'input': text, 'observed': _clip(str(e)), 'expected': 'comparison'}
    return None


def _c19_cli_cases(tier):
    texts = _C19_CLI_TEXTS
    chans = [('file', 'stdout'), ('file', 'outfile'), ('stdin', 'stdout'), ('stdin', 'outfile')]
    encs = ('utf-8', 'latin-1', 'gbk', 'cp1251')
    combos = []
    for t in texts:
        for e in encs:
            try:
                t.encode(e)
            except UnicodeError:
                continue
            for c in chans:
                combos.append((t, c, e))
    if tier != 'quick':
        for fl in _C19_FLAGS:
            for t, c, e in combos:
                yield (t, ('cli', fl, c[0], c[1], e))
        return
    k = 0
    for fl in _C19_FLAGS:
        for _ in range(5):
            t, c, e = combos[(k * 37) % len(combos)]
            k += 1
            yield (t, ('cli', fl, c[0], c[1], e))


def cases_C19(tier, seed):
    from pyvc.domain import SEPARATORS, render
    rnd = random.Random(seed * 977 + 19)
    cli = list(_c19_cli_cases(tier))
    n_lib = 3000 if tier == 'quick' else 40000
    every = max(1, n_lib // (len(cli) + 1))
    count = 0

    def lib():
        for t in _C19_FIXED:
            yield t
        for t in _C19_CLI_TEXTS:
            yield t
        seps = [s for s in SEPARATORS if s] + [' -- é\n', ' /* 業 */ ']
        for _ in range(n_lib * 4 // 10):
            g = Grammar(seed=rnd.randrange(1 << 30), max_depth=1, kw_case=rnd.choice(('upper', 'lower')))
            parts = []
            for j in range(rnd.choice((1, 1, 2))):
                lex = g.plain_stmt()
                if rnd.random() < 0.5:
                    lex = [("'%s'" % rnd.choice(('é', 'ü ß', 'Привет', '你好', 'a\\b', 'ÿ'))) if x in ("'s'", "''") else x
                           for x in lex]
                parts.append(render(lex, rnd, seps=seps if rnd.random() < 0.3 else (' ',), glue=rnd.random() < 0.5))
            yield rnd.choice((';', '; ', ';\n', ';\r\n')).join(parts) + rnd.choice(('', ';', '\n', ';\r\n'))
        for _ in range(n_lib * 6 // 10):
            k = rnd.randint(1, 7)
            sp = rnd.choice((' ', ' ', '', '\n'))
            yield sp.join(rnd.choice(_C19_SOUP) for _ in range(k))

    for n in ((9000, 70000, 140000) if tier == 'quick' else (5000, 9000, 17000, 33000, 70000, 140000, 300000, 1100000)):
        yield ('', ('big', n))
        yield ('select 1 /* \u00e9 */;\n', ('big', n))
    ci = 0
    for t in lib():
        yield (t, 'lib')
        count += 1
        if count % every == 0 and ci < len(cli):
            yield cli[ci]
            ci += 1
    while ci < len(cli):
        yield cli[ci]
        ci += 1


def classify_C19(case, failure):
    return None


def smoke_C19():
    return [
        ('select 1', 'lib'),
        ("select 'é' from \"naïve\"; select 2", 'lib'),
        ("select 'Привет' from т", 'lib'),
        ("select '你好' as 問候\r\nfrom t", 'lib'),
        ('', 'lib'),
        ('select a, b from t where x = 1', ('cli', ('-r',), 'file', 'stdout', 'utf-8')),
        ("select 'é' from t", ('cli', ('-k', 'upper'), 'stdin', 'outfile', 'latin-1')),
        ("select 'Привет', ю from т", ('cli', ('-r', '-k', 'upper'), 'file', 'outfile', 'cp1251')),
    ]


# ======================================================================================================== C20

RULE_C20 = (
    'case = (history kind, params); params carry the probe calls (api, text, options) explicitly.  Sequential kinds: '
    'the probes are evaluated, the history runs, the probes are evaluated again and must give the same plain data '
    '(tree / list of strings / string).  Histories: raise_options (calls with invalid options), raise_recursion '
    '(deeply nested input under a recursion limit set just above the current depth), abandon (parsestream / '
    'tokenize / FilterStack.run generators advanced k times and dropped or kept alive), interleave (several '
    'parsestream or tokenize generators advanced by a seeded schedule; each must yield what it yields alone), '
    'reconfig (add_keywords, set_SQL_REGEX with reduced / reordered rules, clear(), calls in between, then '
    'default_initialization()), options_seq (10-30 calls with other texts and option sets, e.g. reindent and '
    "output_format='python' repeatedly), vs_fresh (results after a history compared with the same probes evaluated "
    'in a fresh child interpreter).  threads: 2-8 threads released by a barrier with switch interval 1e-6, each '
    'running its own calls several times, must each get the sequential results.  first_call_race: a fresh child '
    'imports the package, starts 8-16 threads whose first action is sqlparse.parse / format, all results must '
    'equal the results computed in this process.  Probes and histories are drawn by seed from 16 probe '
    'templates, grammar scripts and 12 option sets; every history ends with default_initialization() and '
    'restores the recursion limit / switch interval in a finally block.  quick: about 1 700 cases of which 40 '
    'start a child; thorough: 10x.')

_C20_OPTSETS = (
    (), (('reindent', True),), (('reindent_aligned', True),), (('keyword_case', 'upper'),),
    (('identifier_case', 'upper'), ('use_space_around_operators', True)), (('strip_comments', True), ('keyword_case', 'lower')),
    (('output_format', 'python'),), (('output_format', 'python'), ('reindent', True)), (('output_format', 'php'),),
    (('strip_whitespace', True),), (('reindent', True), ('comma_first', True), ('wrap_after', 10), ('indent_width', 3)),
    (('truncate_strings', 5),), (('reindent', True), ('indent_tabs', True)),
)
_C20_TEXTS = (
    'select a, b from t where x = 1',
    'select 1; select 2;\ncreate function f() begin x := 1; end; select 3',
    'select a, b from t where x = 1 and y in (select 1 from u where z > 2) order by a',
    "select a, 'long string literal' from t; select c from u; insert into v values (1, 'x')",
    'select * from foo -- c\nwhere a=1 /* d */ and b+c>2',
    'select a,b as c from t join u on t.id=u.id group by a having count(*)>1',
    'create or replace function fn1 (p1 int) returns int as begin if a = 1 then x := 1; end if; return 2; end',
    'select 1\nGO\nselect 2',
    'update "T" set "x" = case when y = 1 then \'a\' else \'b\' end where z is not null',
    "select 'é', 業者 from t /* ü */",
    'with w as (select 1) select * from w limit 1',
    'select f(a, g(b), 1+2) from t where d > date \'2020-01-01\'',
    '', ';', 'select (((1)))', 'insert into t (a, b) values (1, 2), (3, 4)',
)
_C20_BAD_OPTS = (
    (('reindent', 2),), (('keyword_case', 'foo'),), (('indent_width', -1), ('reindent', True)), (('output_format', 5),),
    (('truncate_strings', 'x'),), (('identifier_case', 1),), (('wrap_after', -3), ('reindent', True)),
    (('strip_comments', 'yes'),), (('reindent', True), ('reindent_aligned', 'no')), (('right_margin', 'wide'),),
    (('indent_tabs', 3),), (('comma_first', 'x'), ('reindent', True)), (('use_space_around_operators', 7),),
)
_C20_TYPES = {'Name': 'Name', 'Keyword': 'Keyword', 'Keyword.DML': 'Keyword.DML', 'Keyword.DDL': 'Keyword.DDL',
              'Name.Builtin': 'Name.Builtin', 'Error': 'Error'}


def _c20_call(api, text, opts):
    import sqlparse
    try:
        if api == 'parse':
            return [_plain_tree(s) for s in sqlparse.parse(text)]
        if api == 'split':
            return list(sqlparse.split(text, **dict(opts)))
        if api == 'format':
            return sqlparse.format(text, **dict(opts))
        if api == 'tokens':
            return [(str(t), v) for t, v in sqlparse.lexer.tokenize(text)]
    except Exception as e:
        return ('raised', type(e).__name__)
    return None


def _c20_ttype(name):
    from sqlparse import tokens as T
    t = T
    for part in name.split('.'):
        t = getattr(t, part)
    return t


def _c20_depth():
    f = sys._getframe()
    n = 0
    while f is not None:
        n += 1
        f = f.f_back
    return n


def _c20_regex(which):
    from sqlparse import keywords as K, tokens as T
    if which == 'words_only':
        return [(r'\s+', T.Whitespace), (r'\w+', T.Name), (r'.', T.Punctuation)]
    if which == 'default_reversed':
        return list(reversed(K.SQL_REGEX))
    if which == 'no_keyword_rule':
        return [(rx, tt) for rx, tt in K.SQL_REGEX if tt is not K.PROCESS_AS_KEYWORD]
    if which == 'empty':
        return []
    return list(K.SQL_REGEX)


def _c20_history(kind, h):
    """run one disturbing history; everything it raises is swallowed (the property is about the later calls)"""
    import sqlparse
    from sqlparse.lexer import Lexer
    keep = []
    if kind == 'raise_options':
        for text, opts in h:
            try:
                sqlparse.format(text, **dict(opts))
            except Exception:
                pass
    elif kind == 'raise_recursion':
        nest, depth, margin, api = h
        text = {'paren': 'select ' + '(' * depth + '1' + ')' * depth,
                'case': 'select ' + 'case when a then ' * depth + '1' + ' end' * depth,
                'func': 'select ' + 'f(' * depth + '1' + ')' * depth}.get(nest, '(' * depth)
        old = sys.getrecursionlimit()
        try:
            sys.setrecursionlimit(_c20_depth() + margin)
            try:
                if api == 'parse':
                    sqlparse.parse(text)
                elif api == 'split':
                    sqlparse.split(text)
                else:
                    sqlparse.format(text, reindent=True)
            except BaseException:
                pass
        finally:
            sys.setrecursionlimit(old)
    elif kind == 'abandon':
        for what, text, k, how in h:
            try:
                if what == 'parsestream':
                    g = sqlparse.parsestream(text)
                elif what == 'tokenize':
                    g = sqlparse.lexer.tokenize(text)
                else:
                    st = sqlparse.engine.FilterStack()
                    st.enable_grouping()
                    g = st.run(text)
                for _ in range(k):
                    next(g, None)
                if how == 'keep':
                    keep.append(g)
                elif how == 'close':
                    g.close()
                else:
                    del g
            except Exception:
                pass
    elif kind == 'reconfig':
        lex = Lexer.get_default_instance()
        for step in h:
            try:
                if step[0] == 'add_keywords':
                    lex.add_keywords({w: _c20_ttype(t) for w, t in step[1]})
                elif step[0] == 'set_regex':
                    lex.set_SQL_REGEX(_c20_regex(step[1]))
                elif step[0] == 'clear':
                    lex.clear()
                elif step[0] == 'replace_keywords':
                    lex.clear()
                    lex.set_SQL_REGEX(_c20_regex('default'))
                    lex.add_keywords({w: _c20_ttype(t) for w, t in step[1]})
                elif step[0] == 'call':
                    _c20_call(step[1], step[2], step[3])
            except Exception:
                pass
        lex.default_initialization()
    elif kind in ('options_seq', 'vs_fresh'):
        for api, text, opts in h:
            _c20_call(api, text, opts)
    return keep


_C20_FRESH_CHILD = r'''
import sys, json
sys.path.insert(0, sys.argv[1]); sys.path.insert(0, sys.argv[2])
from pyvc import oracles_c
probes = json.loads(sys.argv[3])
out = [oracles_c._c20_call(a, t, tuple(tuple(o) for o in opts)) for a, t, opts in probes]
sys.stdout.write('\n@@RESULT@@' + json.dumps(out) + '\n')
'''

_C20_RACE_CHILD = r'''
import sys, json, threading
sys.path.insert(0, sys.argv[1]); sys.path.insert(0, sys.argv[2])
n, calls, switch = json.loads(sys.argv[3])
import sqlparse                      # import only; no call has been made yet
from pyvc import oracles_c
sys.setswitchinterval(switch)
barrier = threading.Barrier(n)
results = [None] * n


def work(i):
    a, t, opts = calls[i % len(calls)]
    opts = tuple(tuple(o) for o in opts)
    try:
        barrier.wait(30)
    except Exception:
        pass
    try:
        results[i] = oracles_c._c20_call(a, t, opts)
    except BaseException as e:
        results[i] = ['raised-outside', type(e).__name__]


ths = [threading.Thread(target=work, args=(i,)) for i in range(n)]
for t in ths:
    t.start()
for t in ths:
    t.join(60)
sys.stdout.write('\n@@RESULT@@' + json.dumps(results) + '\n')
'''


def _c20_child(script, payload):
    env = dict(os.environ)
    env['PYTHONPATH'] = core.REPO
    env.pop('PYTHONSTARTUP', None)
    p = subprocess.run([_python(), '-c', script, core.REPO, core.VERIF, json.dumps(payload)], capture_output=True,
                       timeout=120, env=env)
    outp = p.stdout.decode('utf-8', 'replace')
    if p.returncode != 0 or '@@RESULT@@' not in outp:
        return None, 'exit %s: %s' % (p.returncode, p.stderr.decode('utf-8', 'replace')[-300:])
    return json.loads(outp.rsplit('@@RESULT@@', 1)[1].strip()), None


def _jsonable(x):
    return json.loads(json.dumps(x))


def oracle_C20(case):
    import threading
    try:
        kind, params = case
    except Exception:
        return None
    try:
        from sqlparse.lexer import Lexer
    except Exception as e:
        return {'what': _exc(e), 'input': case, 'observed': str(e), 'expected': 'import'}
    old_limit = sys.getrecursionlimit()
    old_switch = sys.getswitchinterval()
    try:
        if kind in ('raise_options', 'raise_recursion', 'abandon', 'reconfig', 'options_seq'):
            probes, h = params
            before = [_c20_call(*p) for p in probes]
            keep = _c20_history(kind, h)
            after = [_c20_call(*p) for p in probes]
            del keep
            for p, b, a in zip(probes, before, after):
                if a != b:
                    return {'what': 'history:' + kind, 'input': _clip(case, 400), 'observed': _clip((p, a), 250),
                            'expected': _clip(b, 250)}
            return None
        if kind == 'vs_fresh':
            probes, h = params
            _c20_history(kind, h)
            here = _jsonable([_c20_call(*p) for p in probes])
            fresh, err = _c20_child(_C20_FRESH_CHILD, [list(p) for p in probes])
            if fresh is None:
                return {'what': 'fresh-child-failed', 'input': _clip(case, 400), 'observed': err, 'expected': 'results'}
            for p, f, a in zip(probes, fresh, here):
                if a != f:
                    return {'what': 'history:vs_fresh', 'input': _clip(case, 400), 'observed': _clip((p, a), 250),
                            'expected': _clip(f, 250)}
            return None
        if kind == 'interleave':
            what, texts, schedule = params
            import sqlparse
            if what == 'parsestream':
                alone = [[_plain_tree(s) for s in sqlparse.parse(t)] for t in texts]
                gens = [sqlparse.parsestream(t) for t in texts]
                conv = _plain_tree
            else:
                alone = [[(str(a), b) for a, b in sqlparse.lexer.tokenize(t)] for t in texts]
                gens = [sqlparse.lexer.tokenize(t) for t in texts]
                conv = lambda tv: (str(tv[0]), tv[1])   # noqa: E731
            got = [[] for _ in texts]
            live = set(range(len(texts)))
            si = 0
            guard = 0
            while live and guard < 200000:
                guard += 1
                i = schedule[si % len(schedule)] % len(texts)
                si += 1
                if i not in live:
                    i = min(live)
                try:
                    got[i].append(conv(next(gens[i])))
                except StopIteration:
                    live.discard(i)
                except Exception as e:
                    got[i].append(('raised', type(e).__name__))
                    live.discard(i)
            for t, g, a in zip(texts, got, alone):
                if g != a:
                    return {'what': 'interleave:' + what, 'input': _clip(case, 400), 'observed': _clip((t, g), 250),
                            'expected': _clip(a, 250)}
            return None
        if kind == 'threads':
            jobs, repeats = params
            expected = [[_c20_call(*c) for c in job] for job in jobs]
            n = len(jobs)
            barrier = threading.Barrier(n)
            results = [None] * n

            def work(i):
                out = []
                try:
                    barrier.wait(30)
                except Exception:
                    pass
                for _ in range(repeats):
                    out.append([_c20_call(*c) for c in jobs[i]])
                results[i] = out
            sys.setswitchinterval(1e-6)
            ths = [threading.Thread(target=work, args=(i,)) for i in range(n)]
            for t in ths:
                t.start()
            for t in ths:
                t.join(120)
            sys.setswitchinterval(old_switch)
            for i in range(n):
                if results[i] is None:
                    return {'what': 'threads:no-result', 'input': _clip(case, 400), 'observed': None, 'expected': 'results'}
                for rep in results[i]:
                    for c, g, e in zip(jobs[i], rep, expected[i]):
                        if g != e:
                            return {'what': 'threads:result-differs', 'input': _clip(case, 400),
                                    'observed': _clip((c, g), 250), 'expected': _clip(e, 250)}
            return None
        if kind == 'first_call_race':
            n, calls, switch = params
            expected = _jsonable([_c20_call(*calls[i % len(calls)]) for i in range(n)])
            got, err = _c20_child(_C20_RACE_CHILD, [n, [list(c) for c in calls], switch])
            if got is None:
                return {'what': 'race-child-failed', 'input': _clip(case, 400), 'observed': err, 'expected': 'results'}
            for i, (g, e) in enumerate(zip(got, expected)):
                if g != e:
                    return {'what': 'first-call-race', 'input': _clip(case, 400), 'observed': _clip((i, g), 250),
                            'expected': _clip(e, 250)}
            return None
        return None
    except BaseException as e:
        if isinstance(e, (KeyboardInterrupt, SystemExit)):
            raise
        return {'what': 'oracle-' + _exc(e), 'input': _clip(case, 400), 'observed': _clip(str(e)), 'expected': 'comparison'}
    finally:
        try:
            sys.setrecursionlimit(old_limit)
            sys.setswitchinterval(old_switch)
            Lexer.get_default_instance().default_initialization()
        except BaseException:
            pass


def _c20_probe(rnd, texts):
    api = rnd.choice(('parse', 'split', 'format', 'format', 'format', 'tokens'))
    text = rnd.choice(texts)
    opts = ()
    if api == 'format':
        opts = rnd.choice(_C20_OPTSETS)
    elif api == 'split' and rnd.random() < 0.3:
        opts = (('strip_semicolon', True),)
    return (api, text, opts)


def cases_C20(tier, seed):
    from pyvc.domain import render
    rnd = random.Random(seed * 7331 + 20)
    mult = 1 if tier == 'quick' else 10
    texts = list(_C20_TEXTS)
    for _ in range(30 * mult):
        g = Grammar(seed=rnd.randrange(1 << 30), max_depth=1, kw_case=rnd.choice(('upper', 'lower')))
        lex = g.plain_stmt() if rnd.random() < 0.8 else g.proc(d=1)
        texts.append(render(lex, rnd, seps=(' ', '\n'), glue=True))
    texts = [t for t in texts if len(t) < 400]

    def probes(k=5):
        return tuple(_c20_probe(rnd, texts) for _ in range(k))

    children = []
    for _ in range(24 * mult):
        n = rnd.choice((8, 8, 12, 16))
        calls = tuple(('parse', rnd.choice(texts[:12]), ()) if rnd.random() < 0.7 else
                      ('format', rnd.choice(texts[:12]), rnd.choice(_C20_OPTSETS[:4])) for _ in range(rnd.choice((1, 2, 4))))
        children.append(('first_call_race', (n, calls, rnd.choice((1e-6, 1e-5, 0.005)))))
    for _ in range(16 * mult):
        hist = tuple(_c20_probe(rnd, texts) for _ in range(rnd.randint(5, 15)))
        children.append(('vs_fresh', (probes(6), hist)))
    seq = []
    for _ in range(220 * mult):
        h = tuple((rnd.choice(texts), rnd.choice(_C20_BAD_OPTS)) for _ in range(rnd.randint(1, 4)))
        seq.append(('raise_options', (probes(), h)))
    for _ in range(120 * mult):
        seq.append(('raise_recursion', (probes(4), (rnd.choice(('paren', 'case', 'func', 'unclosed')),
                                                    rnd.choice((200, 1000, 3000)), rnd.choice((60, 100, 150)),
                                                    rnd.choice(('parse', 'split', 'format'))))))
    multi = [t for t in texts if ';' in t] + ['select 1; select 2; select 3; select 4']
    for _ in range(220 * mult):
        h = tuple((rnd.choice(('parsestream', 'tokenize', 'stack')), rnd.choice(multi), rnd.randint(0, 4),
                   rnd.choice(('drop', 'keep', 'close'))) for _ in range(rnd.randint(1, 3)))
        seq.append(('abandon', (probes(), h)))
    for _ in range(220 * mult):
        k = rnd.randint(2, 4)
        ts = tuple(rnd.choice(multi if rnd.random() < 0.6 else texts) for _ in range(k))
        sched = tuple(rnd.randrange(k) for _ in range(rnd.randint(3, 12)))
        seq.append(('interleave', (rnd.choice(('parsestream', 'tokenize')), ts, sched)))
    kwsets = ((('FOO', 'Keyword.DML'), ('BAR', 'Keyword')), (('SELECT', 'Name'), ('FROM', 'Name')),
              (('T', 'Keyword.DDL'), ('A', 'Keyword'), ('X', 'Name.Builtin')), (('ZZZ', 'Error'),))
    for _ in range(300 * mult):
        steps = []
        for _s in range(rnd.randint(1, 5)):
            r = rnd.random()
            if r < 0.25:
                steps.append(('add_keywords', rnd.choice(kwsets)))
            elif r < 0.45:
                steps.append(('set_regex', rnd.choice(('words_only', 'default_reversed', 'no_keyword_rule', 'empty'))))
            elif r < 0.55:
                steps.append(('clear',))
            elif r < 0.7:
                steps.append(('replace_keywords', rnd.choice(kwsets)))
            else:
                steps.append(('call',) + _c20_probe(rnd, texts))
        seq.append(('reconfig', (probes(), tuple(steps))))
    for _ in range(350 * mult):
        h = tuple(_c20_probe(rnd, texts) for _ in range(rnd.randint(10, 30)))
        seq.append(('options_seq', (probes(), h)))
    # repeated identical option sets (filter state): format(a, o) then format(b, o)
    for o in _C20_OPTSETS:
        for _ in range(6 * mult):
            a, b = rnd.choice(texts), rnd.choice(texts)
            seq.append(('options_seq', ((('format', b, o), ('format', a, o)), (('format', a, o), ('format', a, o),
                                                                              ('format', b, o)))))
    for _ in range(160 * mult):
        n = rnd.choice((2, 4, 6, 8))
        jobs = tuple(tuple(_c20_probe(rnd, texts) for _ in range(rnd.randint(2, 5))) for _ in range(n))
        seq.append(('threads', (jobs, rnd.choice((2, 4, 6)))))
    rnd.shuffle(seq)
    every = max(1, len(seq) // (len(children) + 1))
    ci = 0
    for i, c in enumerate(seq):
        yield c
        if (i + 1) % every == 0 and ci < len(children):
            yield children[ci]
            ci += 1
    while ci < len(children):
        yield children[ci]
        ci += 1


def classify_C20(case, failure):
    return None


def smoke_C20():
    p = (('parse', 'select a, b from t where x = 1', ()), ('format', 'select a, b from t; select 2', (('output_format', 'python'),)),
         ('split', 'select 1; select 2', ()), ('format', 'select a from t where b = 1', (('reindent', True),)))
    return [
        ('raise_options', (p, (('select 1', (('reindent', 2),)), ('select 1', (('keyword_case', 'foo'),))))),
        ('raise_recursion', (p, ('paren', 1000, 100, 'parse'))),
        ('abandon', (p, (('parsestream', 'select 1; select 2; select 3', 1, 'drop'),))),
        ('interleave', ('parsestream', ('select 1; select 2', 'insert into t values (1); select 3'), (0, 1, 1, 0))),
        ('reconfig', (p, (('add_keywords', (('FOO', 'Keyword.DML'),)), ('clear',), ('call', 'parse', 'select 1', ())))),
        ('options_seq', (p, (('format', 'select a, b from t', (('output_format', 'python'),)),) * 3)),
        ('threads', (((p[0], p[1]), (p[2], p[3]), (p[3], p[0])), 3)),
        ('first_call_race', (8, (('parse', 'select a, b from t where x = 1', ()),), 1e-6)),
        ('vs_fresh', (p, (('format', 'select 1', (('reindent', True),)),))),
    ]
