"""pyvc symbolic executor: forward symbolic execution of the *real* AST of functions in /repo/sqlparse.

- every branch the path condition does not decide forks the path (infeasible paths pruned with z3);
- loops are cut at their invariants (sidecar contract, keyed by loop ordinal);
- a call of a function under contract is replaced by `assert pre; havoc; assume post` (never its body),
  except for functions the sidecar marks `inline` (loop-free helpers whose strongest postcondition is taken);
- partial operations (subscript, attribute of None, int(), next(), unpack ...) end the path with an exception;
  exceptions escaping the function are checked against the contract's `raises`;
- proof goals become Goal records (path condition, formula); the caller discharges them with pyvc.smt.

What of Python is assumed: see DESIGN.md §3.2 (mathematical ints, str = finite code-point sequence, left-to-right
evaluation, identity equality and truthiness of Token objects, no monkey patching).
"""
import ast
import itertools

import z3

from . import smt

# ----------------------------------------------------------------------------------- world (sorts from real data)


class World:
    """z3 sorts built from the imported real package: token-type enum, class enum."""
    _inst = None

    def __init__(self, sqlparse):
        from sqlparse import tokens as T, sql
        self.T, self.sql = T, sql
        seen = {}

        def walk(t):
            seen[repr(t)] = t
            for v in list(vars(t).values()):
                if isinstance(v, T._TokenType) and repr(v) not in seen:
                    walk(v)
        walk(T.Token)
        self.tt_names = sorted(seen)
        self.tt_objs = [seen[n] for n in self.tt_names]
        self.TT, consts = z3.EnumSort('TT', [n.replace('.', '_') for n in self.tt_names] + ['TT_None'])
        self.tt_const = {id(o): c for o, c in zip(self.tt_objs, consts)}
        self.tt_by_name = dict(zip(self.tt_names, consts))
        self.tt_none = consts[-1]
        self.tt_back = {str(c): o for o, c in zip(self.tt_objs, consts)}
        self.tt_back['TT_None'] = None
        import inspect
        self.classes = [c for c in vars(sql).values() if inspect.isclass(c) and issubclass(c, sql.Token)]
        self.CLS, cc = z3.EnumSort('CLS', ['K_' + c.__name__ for c in self.classes])
        self.cls_const = {c: k for c, k in zip(self.classes, cc)}
        self.upper = z3.Function('upper', z3.StringSort(), z3.StringSort())
        self.lower = z3.Function('lower', z3.StringSort(), z3.StringSort())
        self.capitalize = z3.Function('capitalize', z3.StringSort(), z3.StringSort())
        self.nwords = z3.Function('nwords', z3.StringSort(), z3.IntSort())       # len(s.split())
        self.word = z3.Function('word', z3.StringSort(), z3.IntSort(), z3.StringSort())   # s.split()[i]

    @classmethod
    def get(cls):
        if cls._inst is None:
            from .core import import_repo
            cls._inst = World(import_repo())
        return cls._inst

    def subtypes(self, t):
        """token types x with `x in t` (prefix relation of _TokenType.__contains__)"""
        return [o for o in self.tt_objs if o in t]

    def tt(self, o):
        if o is None:
            return self.tt_none
        return self.tt_const[id(o)]

    def is_tt(self, o):
        return isinstance(o, self.T._TokenType)


# ----------------------------------------------------------------------------------- values

class Sym:
    pass


class SInt(Sym):
    def __init__(self, z):
        self.z = z

    def __repr__(self):
        return 'SInt(%s)' % self.z


class SBool(Sym):
    def __init__(self, z):
        self.z = z

    def __repr__(self):
        return 'SBool(%s)' % self.z


class SStr(Sym):
    def __init__(self, z):
        self.z = z

    def __repr__(self):
        return 'SStr(%s)' % self.z


class STy(Sym):
    """token type (possibly None), z3 term of sort TT"""

    def __init__(self, z):
        self.z = z

    def __repr__(self):
        return 'STy(%s)' % self.z


class Rec(Sym):
    """reference to an executor-side record object (config objects, iterators, match objects, fresh tokens)"""

    def __init__(self, oid, kind):
        self.oid, self.kind = oid, kind

    def __repr__(self):
        return 'Rec(%s#%d)' % (self.kind, self.oid)


class LRef(Sym):
    """reference to an executor-side list"""

    def __init__(self, lid):
        self.lid = lid

    def __repr__(self):
        return 'LRef(%d)' % self.lid


class Opaque(Sym):
    """opaque callable / value with a contract name"""

    def __init__(self, name, data=None):
        self.name, self.data = name, data

    def __repr__(self):
        return 'Opaque(%s)' % self.name


class Func(Sym):
    """a function of the repo (AST + qualname + closure env), a bound method, or a builtin model"""

    def __init__(self, qualname, node=None, closure=None, self_val=None, model=None):
        self.qualname, self.node, self.closure, self.self_val = qualname, node, closure, self_val
        self.model = model   # python callable model(ex, args, kw, st) -> [(st, value)] (trusted library model)

    def __repr__(self):
        return 'Func(%s)' % self.qualname


class Forked:
    """result of an attribute access whose evaluation (a property getter) forks: [(state, value), ...]"""

    def __init__(self, results):
        self.results = list(results)


class PropertyCall:
    """marker: attribute access that must run a property getter"""

    def __init__(self, q, o):
        self.q, self.o = q, o


SPEC_NAMES = {'TXT', 'ALL', 'SAME_ITEMS', 'ENDS_WITH', 'STACKID', 'REACHED_LOOP', 'MATCH', 'NOMATCH', 'UB', 'SORTED', 'SUFFIX', 'FRESH', 'ALLWS', 'NEXTBY_PRED'}


class ClosureEnv:
    """variables visible to a nested function / lambda at the point of its definition (snapshot)"""

    def __init__(self, env):
        self.env = dict(env)


class Unbound:
    def __repr__(self):
        return '<unbound>'


UNBOUND = Unbound()


class PyExc(Exception):
    """a Python exception raised by the code under analysis on the current path"""

    def __init__(self, cls_name, msg=''):
        self.cls_name, self.msg = cls_name, msg


class _NoMerge(Exception):
    pass


class OutsideSubset(Exception):
    """the code uses something the executor does not model: the function cannot be claimed as proved"""


EXC_PARENTS = {
    'IndexError': 'LookupError', 'KeyError': 'LookupError', 'LookupError': 'Exception',
    'ValueError': 'Exception', 'UnicodeDecodeError': 'ValueError', 'TypeError': 'Exception',
    'AttributeError': 'Exception', 'StopIteration': 'Exception', 'OverflowError': 'ArithmeticError',
    'ArithmeticError': 'Exception', 'ZeroDivisionError': 'ArithmeticError', 'RecursionError': 'RuntimeError',
    'RuntimeError': 'Exception', 'NotImplementedError': 'RuntimeError', 'SQLParseError': 'Exception',
    'AssertionError': 'Exception', 'OSError': 'Exception', 'Exception': 'BaseException', 'BaseException': None,
    'UnboundLocalError': 'NameError', 'NameError': 'Exception',
}


def exc_isinstance(name, handler_names):
    while name is not None:
        if name in handler_names:
            return True
        name = EXC_PARENTS.get(name, 'Exception' if name != 'BaseException' else None)
    return False


# ----------------------------------------------------------------------------------- state

class State:
    __slots__ = ('env', 'pc', 'objs', 'lists', 'ghost', 'trace', 'counter', 'farr', 'notes', 'segs_')

    def __init__(self):
        self.env = {}
        self.pc = []
        self.objs = {}     # oid -> dict(field -> value)
        self.lists = {}    # lid -> tuple(items)
        self.ghost = {}    # ghost variables
        self.trace = []
        self.counter = None
        self.farr = {}     # heap field arrays (Int -> sort), for anonymous token objects
        self.notes = []
        self.segs_ = {}    # opaque list segments (pyvc.heap)

    def fork(self):
        s = State()
        s.env = dict(self.env)
        s.pc = list(self.pc)
        s.objs = {k: dict(v) for k, v in self.objs.items()}
        s.lists = dict(self.lists)
        s.ghost = dict(self.ghost)
        s.trace = list(self.trace)
        s.counter = self.counter
        s.farr = dict(self.farr)
        s.notes = list(self.notes)
        s.segs_ = {k: dict(v, uni=dict(v['uni'])) for k, v in self.segs_.items()}
        return s

    def assume(self, z):
        if z is True or (z3.is_bool(z) and z3.is_true(z)):
            return
        if z is False:
            z = z3.BoolVal(False)
        zid = z.get_id()
        for q in self.pc[-40:]:
            if q.get_id() == zid:
                return        # already assumed (the same law instance is often produced repeatedly)
        self.pc.append(z)


class Goal:
    """pc |- formula, named"""
    __slots__ = ('name', 'pc', 'formula', 'trace', 'info')

    def __init__(self, name, pc, formula, trace, info=None):
        self.name, self.pc, self.formula, self.trace, self.info = name, list(pc), formula, list(trace), info or {}


_fresh = itertools.count(1)


def fresh(prefix, sort):
    return z3.Const('%s!%d' % (prefix, next(_fresh)), sort)


def fresh_int(p='i'):
    return SInt(fresh(p, z3.IntSort()))


def fresh_str(p='s'):
    return SStr(fresh(p, z3.StringSort()))


def fresh_bool(p='b'):
    return SBool(fresh(p, z3.BoolSort()))


# ----------------------------------------------------------------------------------- executor

class Outcome:
    NEXT, BREAK, CONT, RET, RAISE = 'next', 'break', 'continue', 'return', 'raise'


class Exec:
    """Symbolic executor for one function under one contract case."""

    def __init__(self, registry, module_env, fn_qualname, contract=None, max_paths=4000):
        self.W = World.get()
        self.reg = registry            # contracts registry (qualname -> contract object)
        self.genv = module_env         # module globals (real objects of the imported module)
        self.fn = fn_qualname
        self.contract = contract
        self.goals = []
        self.max_paths = max_paths
        self.npaths = 0
        self.loop_ords = {}
        self.finished = []             # (state, outcome, value) at function exit
        self.yield_sites = {}
        self.feasible_paths = 0
        self.inline_depth = 0

    # ---------------------------------------------------------------- helpers
    def goal(self, name, st, formula, info=None):
        if isinstance(formula, bool):
            formula = z3.BoolVal(formula)
        self.goals.append(Goal(name, st.pc, formula, st.trace, info))

    def new_obj(self, st, kind, fields):
        oid = next(_fresh)
        st.objs[oid] = dict(fields)
        return Rec(oid, kind)

    def new_list(self, st, items):
        lid = next(_fresh)
        st.lists[lid] = tuple(items)
        return LRef(lid)

    # ---- conversions
    def z_int(self, v):
        if isinstance(v, bool):
            return z3.IntVal(1 if v else 0)
        if isinstance(v, int):
            return z3.IntVal(v)
        if isinstance(v, SInt):
            return v.z
        if isinstance(v, SBool):
            return z3.If(v.z, z3.IntVal(1), z3.IntVal(0))
        raise OutsideSubset('not an int: %r' % (v,))

    def z_str(self, v):
        if isinstance(v, str):
            return z3.StringVal(v)
        if isinstance(v, SStr):
            return v.z
        raise OutsideSubset('not a str: %r' % (v,))

    def z_tt(self, v):
        if v is None or self.W.is_tt(v):
            return self.W.tt(v)
        if isinstance(v, STy):
            return v.z
        raise OutsideSubset('not a token type: %r' % (v,))

    def is_intlike(self, v):
        return isinstance(v, (int, SInt, SBool)) and not isinstance(v, str)

    def is_strlike(self, v):
        return isinstance(v, (str, SStr))

    def is_ttlike(self, v):
        return isinstance(v, STy) or self.W.is_tt(v)

    def truth(self, v, st):
        """python truthiness as concrete bool or z3 Bool"""
        if isinstance(v, SBool):
            return v.z
        if isinstance(v, SInt):
            return v.z != 0
        if isinstance(v, SStr):
            return z3.Length(v.z) > 0
        if isinstance(v, STy):
            # a _TokenType is a tuple: the root Token () is falsy, None is falsy
            return z3.And(v.z != self.W.tt_none, v.z != self.W.tt(self.W.T.Token))
        if isinstance(v, LRef):
            return self.list_len(st, v).z > 0 if isinstance(self.list_len(st, v), SInt) else self.list_len(st, v) > 0
        if isinstance(v, Rec) and v.kind == 'istack':
            return st.objs[v.oid]['len'] > 0
        if isinstance(v, (Rec, Func, Opaque)):
            if isinstance(v, Rec) and v.kind == 'match?':
                raise OutsideSubset('match?')
            return True
        if isinstance(v, Sym):
            h = getattr(self, 'truth_' + type(v).__name__, None)
            if h:
                return h(v, st)
            raise OutsideSubset('truthiness of %r' % (v,))
        return bool(v)

    def simplify_bool(self, z):
        if isinstance(z, bool):
            return z
        z = z3.simplify(z)
        if z3.is_true(z):
            return True
        if z3.is_false(z):
            return False
        return z

    def decide(self, st, z):
        """split on a condition: returns list of (state, bool) for feasible outcomes"""
        z = self.simplify_bool(z)
        if isinstance(z, bool):
            return [(st, z)]
        out = []
        cx = smt.Ctx(st.pc)
        t_ok = cx.feasible_with(z)
        f_ok = cx.feasible_with(z3.Not(z))
        if t_ok and f_ok:
            s2 = st.fork()
            st.assume(z)
            s2.assume(z3.Not(z))
            out = [(st, True), (s2, False)]
        elif t_ok:
            st.assume(z)
            out = [(st, True)]
        elif f_ok:
            st.assume(z3.Not(z))
            out = [(st, False)]
        return out

    # ---------------------------------------------------------------- equality / comparison
    def eq(self, a, b, st):
        """python == as bool or z3 Bool"""
        if a is None or b is None:
            o = b if a is None else a
            if o is None:
                return True
            if isinstance(o, STy):
                return o.z == self.W.tt_none
            h = getattr(self, 'is_none', None)
            r = self.none_test(o, st)
            return r
        if self.is_ttlike(a) and self.is_ttlike(b):
            return self.z_tt(a) == self.z_tt(b)
        if self.is_ttlike(a) or self.is_ttlike(b):
            o = b if self.is_ttlike(a) else a
            if isinstance(o, tuple) and not self.W.is_tt(o):
                return False if len(o) != len(a if self.W.is_tt(a) else ()) else OutsideSubset
            return False
        if self.is_strlike(a) and self.is_strlike(b):
            if isinstance(a, str) and isinstance(b, str):
                return a == b
            return self.z_str(a) == self.z_str(b)
        if self.is_intlike(a) and self.is_intlike(b):
            if not isinstance(a, Sym) and not isinstance(b, Sym):
                return a == b
            return self.z_int(a) == self.z_int(b)
        if isinstance(a, tuple) and isinstance(b, tuple):
            if len(a) != len(b):
                return False
            parts = [self.eq(x, y, st) for x, y in zip(a, b)]
            return self.conj(parts)
        if isinstance(a, Rec) and isinstance(b, Rec):
            return a.oid == b.oid
        if isinstance(a, LRef) and isinstance(b, LRef):
            if a.lid == b.lid:
                return True
            raise OutsideSubset('list ==')
        if isinstance(a, Sym) or isinstance(b, Sym):
            h = getattr(self, 'eq_ext', None)
            if h:
                r = h(a, b, st)
                if r is not NotImplemented:
                    return r
            if type(a) is not type(b) and not (isinstance(a, Sym) and isinstance(b, Sym)):
                # different kinds (str vs int, obj vs str ...)
                return False
            raise OutsideSubset('== of %r and %r' % (a, b))
        try:
            return a == b
        except Exception:
            raise OutsideSubset('== concrete')

    def none_test(self, o, st):
        if isinstance(o, (SInt, SStr, SBool, Rec, LRef, Func, Opaque)):
            return False
        if isinstance(o, Sym):
            h = getattr(self, 'none_' + type(o).__name__, None)
            if h:
                return h(o, st)
            raise OutsideSubset('is None of %r' % (o,))
        return o is None

    def conj(self, parts):
        zs = []
        for p in parts:
            if p is False:
                return False
            if p is True:
                continue
            zs.append(p)
        if not zs:
            return True
        return z3.And(*zs) if len(zs) > 1 else zs[0]

    def disj(self, parts):
        zs = []
        for p in parts:
            if p is True:
                return True
            if p is False:
                continue
            zs.append(p)
        if not zs:
            return False
        return z3.Or(*zs) if len(zs) > 1 else zs[0]

    def neg(self, p):
        if isinstance(p, bool):
            return not p
        return z3.Not(p)

    def wrapb(self, p):
        return p if isinstance(p, bool) else SBool(p)

    def contains(self, item, container, st):
        """`item in container` as bool / z3 Bool"""
        W = self.W
        if W.is_tt(container):
            # _TokenType.__contains__
            if item is None:
                return False
            if W.is_tt(item):
                return item in container
            if isinstance(item, STy):
                return self.disj([item.z == W.tt(o) for o in W.subtypes(container)])
            raise OutsideSubset('in tokentype: %r' % (item,))
        if isinstance(container, Rec) and container.kind == 'sdict':
            return self._sdict_has(container, st, item)
        if isinstance(container, (set, frozenset)):
            # membership in a set hashes the item: an unhashable object (list, dict, set, ...) raises TypeError.  The
            # Dyn kind `Other` stands for arbitrary objects, some of which are unhashable.
            h = getattr(self, 'maybe_unhashable', None)
            if h is not None:
                c = h(item, st)
                if c is not None and smt.feasible(list(st.pc) + [c]):
                    s_exc = st.fork()
                    s_exc.assume(c)
                    self.raise_on(s_exc, 'TypeError', 'unhashable type')
                    st.assume(z3.Not(c))
            return self.disj([self.eq(item, c, st) for c in sorted(container, key=repr)])
        if isinstance(container, (tuple, list)):
            return self.disj([self.eq(item, c, st) for c in container])
        if isinstance(container, LRef):
            items = st.lists[container.lid]
            if all(it[0] == 'el' for it in items):
                return self.disj([self.eq(item, it[1], st) for it in items])
            raise OutsideSubset('in opaque list')
        if self.is_strlike(container) and self.is_strlike(item):
            if isinstance(container, str) and isinstance(item, str):
                return item in container
            return z3.Contains(self.z_str(container), self.z_str(item))
        if isinstance(container, dict):
            if isinstance(item, Sym):
                if isinstance(item, SStr):
                    return self.disj([item.z == z3.StringVal(k) for k in container if isinstance(k, str)])
                raise OutsideSubset('in dict')
            return item in container
        if isinstance(container, Opaque) and isinstance(container.data, dict) and 'contains' in container.data:
            return container.data['contains'](self, container, item, st)
        h = getattr(self, 'contains_ext', None)
        if h:
            r = h(item, container, st)
            if r is not NotImplemented:
                return r
        raise OutsideSubset('in: %r in %r' % (item, container))

    # ---------------------------------------------------------------- lists (segment normal form)
    # items: ('el', value) | ('seg', segid, lo, hi)  with lo,hi z3 Int terms; length hi-lo >= 0 is in the pc
    def list_len(self, st, lref):
        items = st.lists[lref.lid]
        n, sym = 0, None
        for it in items:
            if it[0] == 'el':
                n += 1
            else:
                d = it[3] - it[2]
                sym = d if sym is None else sym + d
        if sym is None:
            return n
        return SInt(z3.simplify(sym + n))

    # ---------------------------------------------------------------- expression evaluation
    def eval(self, node, st):
        """returns list of (state, value); raises PyExc on the (single) current path via exc-list protocol"""
        m = getattr(self, 'e_' + type(node).__name__, None)
        if m is None:
            raise OutsideSubset('expression %s' % type(node).__name__)
        return m(node, st)

    def eval1(self, node, st):
        """evaluate an expression that must not fork"""
        r = self.eval(node, st)
        if len(r) != 1:
            raise OutsideSubset('unexpected fork in %s' % ast.unparse(node))
        return r[0][1]

    def e_Constant(self, node, st):
        return [(st, node.value)]

    def e_Name(self, node, st):
        n = node.id
        if n in st.env:
            v = st.env[n]
            if v is UNBOUND:
                raise PyExc('UnboundLocalError', n)
            return [(st, v)]
        if n in st.ghost:
            return [(st, st.ghost[n])]
        if getattr(self, '_in_spec', False) and n in SPEC_NAMES:
            return [(st, Func('spec.' + n))]
        if n in self.genv:
            return [(st, self.lift_global(self.genv[n], n))]
        import builtins
        if hasattr(builtins, n):
            return [(st, getattr(builtins, n))]
        raise OutsideSubset('unknown name %s' % n)

    def lift_global(self, v, name):
        return v

    def e_Tuple(self, node, st):
        res = [(st, [])]
        for el in node.elts:
            nxt = []
            for s, acc in res:
                for s2, v in self.eval(el, s):
                    nxt.append((s2, acc + [v]))
            res = nxt
        return [(s, tuple(a)) for s, a in res]

    def e_Dict(self, node, st):
        # an (initially empty) local dictionary with string keys: a record with its known entries; after a loop havoc
        # its contents are unknown (any keys, values of the shape last stored)
        if node.keys:
            raise OutsideSubset('non-empty dict display')
        return [(st, self.new_obj(st, 'sdict', {'ENT': (), 'UNK': False, 'SHAPE': None, 'VER': 0}))]

    def _sdict_has(self, o, st, key):
        f = st.objs[o.oid]
        if not self.is_strlike(key):
            raise OutsideSubset('dict key that is not a string')
        zk = self.z_str(key)
        parts = [self.z_str(k) == zk for k, _v in f['ENT']]
        if f['UNK']:
            has = z3.Function('sdict_has_%d_%d' % (o.oid, f['VER']), z3.StringSort(), z3.BoolSort())
            parts.append(has(zk))
        return z3.Or(*parts) if parts else z3.BoolVal(False)

    def e_Set(self, node, st):
        # a set display of constants: {None, 'upper', ...}.  Kept as a frozenset; `x in <set>` hashes x first.
        vals = []
        for e in node.elts:
            if not isinstance(e, ast.Constant):
                raise OutsideSubset('set display with non-constant elements')
            vals.append(e.value)
        return [(st, frozenset(vals))]

    def e_List(self, node, st):
        out = []
        for s, t in self.e_Tuple(node, st):
            out.append((s, self.new_list(s, [('el', v) for v in t])))
        return out

    def e_JoinedStr(self, node, st):
        # f-strings: only used for messages / dispatch names; evaluate when all parts concrete else opaque string
        parts = []
        cur = [(st, [])]
        for v in node.values:
            nxt = []
            for s, acc in cur:
                if isinstance(v, ast.Constant):
                    nxt.append((s, acc + [v.value]))
                else:
                    for s2, x in self.eval(v.value, s):
                        nxt.append((s2, acc + [x]))
            cur = nxt
        out = []
        for s, acc in cur:
            if all(isinstance(x, str) for x in acc):
                out.append((s, ''.join(acc)))
            else:
                out.append((s, fresh_str('fstr')))
        return out

    def e_BoolOp(self, node, st):
        is_and = isinstance(node.op, ast.And)
        results = []
        pending = [(st, None)]
        for i, sub in enumerate(node.values):
            last = i == len(node.values) - 1
            nxt = []
            for s, _ in pending:
                for s2, v in self.eval(sub, s):
                    if last:
                        results.append((s2, v))
                        continue
                    t = self.truth(v, s2)
                    for s3, b in self.decide(s2, t):
                        if b == is_and:
                            nxt.append((s3, None))       # continue evaluating
                        else:
                            # short circuit: value is v; normalise symbolic bool to the decided constant
                            results.append((s3, (not is_and) if isinstance(v, SBool) else v))
            pending = nxt
        return results

    def e_UnaryOp(self, node, st):
        out = []
        for s, v in self.eval(node.operand, st):
            if isinstance(node.op, ast.Not):
                t = self.truth(v, s)
                out.append((s, (not t) if isinstance(t, bool) else SBool(z3.Not(t))))
            elif isinstance(node.op, ast.USub):
                if isinstance(v, Sym):
                    out.append((s, SInt(-self.z_int(v))))
                else:
                    out.append((s, -v))
            else:
                raise OutsideSubset('unary op')
        return out

    def e_IfExp(self, node, st):
        out = []
        for s, c in self.eval(node.test, st):
            for s2, b in self.decide(s, self.truth(c, s)):
                out.extend(self.eval(node.body if b else node.orelse, s2))
        return out

    def e_Compare(self, node, st):
        # chained comparisons: evaluate left to right, conjunction (no short-circuit side effects expected)
        res = []
        for s, left in self.eval(node.left, st):
            cur = [(s, left, True)]
            for op, rnode in zip(node.ops, node.comparators):
                nxt = []
                for s1, lv, acc in cur:
                    if acc is False:
                        nxt.append((s1, lv, False))
                        continue
                    for s2, rv in self.eval(rnode, s1):
                        c = self.compare(op, lv, rv, s2)
                        nxt.append((s2, rv, self.conj([acc, c])))
                cur = nxt
            for s1, _lv, acc in cur:
                res.append((s1, self.wrapb(acc)))
        return res

    def compare(self, op, a, b, st):
        if isinstance(op, (ast.Eq, ast.NotEq)):
            r = self.eq(a, b, st)
            return r if isinstance(op, ast.Eq) else self.neg(r)
        if isinstance(op, (ast.Is, ast.IsNot)):
            r = self.identical(a, b, st)
            return r if isinstance(op, ast.Is) else self.neg(r)
        if isinstance(op, (ast.In, ast.NotIn)):
            r = self.contains(a, b, st)
            return r if isinstance(op, ast.In) else self.neg(r)
        if self.is_intlike(a) and self.is_intlike(b):
            if not isinstance(a, Sym) and not isinstance(b, Sym):
                return {ast.Lt: a < b, ast.LtE: a <= b, ast.Gt: a > b, ast.GtE: a >= b}[type(op)]
            x, y = self.z_int(a), self.z_int(b)
            return {ast.Lt: x < y, ast.LtE: x <= y, ast.Gt: x > y, ast.GtE: x >= y}[type(op)]
        h = getattr(self, 'compare_ext', None)
        if h:
            r = h(op, a, b, st)
            if r is not NotImplemented:
                return r
        if a is None or b is None:
            raise PyExc('TypeError', 'ordering with None')
        raise OutsideSubset('compare %r %r' % (a, b))

    def identical(self, a, b, st):
        if a is None or b is None:
            return self.eq(a, b, st)
        if self.is_ttlike(a) or self.is_ttlike(b):
            return self.eq(a, b, st)
        if isinstance(a, (Rec, LRef)) or isinstance(b, (Rec, LRef)):
            if type(a) is type(b):
                return self.eq(a, b, st)
            return False
        if isinstance(a, bool) or isinstance(b, bool) or isinstance(a, SBool) or isinstance(b, SBool):
            if isinstance(a, (bool, SBool)) and isinstance(b, (bool, SBool)):
                if isinstance(a, bool) and isinstance(b, bool):
                    return a is b
                za = z3.BoolVal(a) if isinstance(a, bool) else a.z
                zb = z3.BoolVal(b) if isinstance(b, bool) else b.z
                return za == zb
            return False
        if isinstance(a, Sym) or isinstance(b, Sym):
            h = getattr(self, 'identical_ext', None)
            if h:
                r = h(a, b, st)
                if r is not NotImplemented:
                    return r
            raise OutsideSubset('is on %r %r' % (a, b))
        return a is b

    def e_BinOp(self, node, st):
        out = []
        for s, a in self.eval(node.left, st):
            for s2, b in self.eval(node.right, s):
                out.append((s2, self.binop(node.op, a, b, s2)))
        return out

    def binop(self, op, a, b, st):
        if self.is_intlike(a) and self.is_intlike(b):
            if not isinstance(a, Sym) and not isinstance(b, Sym):
                return {ast.Add: lambda: a + b, ast.Sub: lambda: a - b, ast.Mult: lambda: a * b,
                        ast.BitOr: lambda: a | b}[type(op)]()
            x, y = self.z_int(a), self.z_int(b)
            if isinstance(op, ast.Add):
                return SInt(x + y)
            if isinstance(op, ast.Sub):
                return SInt(x - y)
            if isinstance(op, ast.Mult):
                return SInt(x * y)
            raise OutsideSubset('int binop')
        if self.is_strlike(a) and self.is_strlike(b) and isinstance(op, ast.Add):
            if isinstance(a, str) and isinstance(b, str):
                return a + b
            return SStr(z3.Concat(self.z_str(a), self.z_str(b)))
        if isinstance(op, ast.Mult) and self.is_strlike(a) and self.is_intlike(b) or \
                isinstance(op, ast.Mult) and self.is_strlike(b) and self.is_intlike(a):
            if not isinstance(a, Sym) and not isinstance(b, Sym):
                return a * b
            return fresh_str('rep')
        if isinstance(a, tuple) and isinstance(b, tuple) and isinstance(op, ast.Add):
            return a + b
        if isinstance(op, ast.BitOr) and not isinstance(a, Sym) and not isinstance(b, Sym):
            return a | b
        h = getattr(self, 'binop_ext', None)
        if h:
            r = h(op, a, b, st)
            if r is not NotImplemented:
                return r
        if a is None or b is None:
            raise PyExc('TypeError', 'binop with None')
        raise OutsideSubset('binop %s %r %r' % (type(op).__name__, a, b))

    def e_Attribute(self, node, st):
        out = []
        for s, o in self.eval(node.value, st):
            v = self.getattr(o, node.attr, s)
            if isinstance(v, Forked):
                out.extend(v.results)
            else:
                out.append((s, v))
        return out

    _ASSIGNED = {}

    def _assigned_somewhere(self, cls, name):
        if not isinstance(cls, type):
            return False
        key = (cls.__module__, cls.__qualname__)
        if key not in Exec._ASSIGNED:
            names = set()
            from .core import source
            for k in cls.__mro__:
                node = source().get('%s.%s' % (k.__module__, k.__qualname__))
                if node is None:
                    continue
                for n in ast.walk(node):
                    if isinstance(n, (ast.Assign, ast.AugAssign, ast.AnnAssign)):
                        for t in (n.targets if isinstance(n, ast.Assign) else [n.target]):
                            for a in ast.walk(t):
                                if isinstance(a, ast.Attribute) and isinstance(a.value, ast.Name) and a.value.id == 'self':
                                    names.add(a.attr)
            Exec._ASSIGNED[key] = names
        return name in Exec._ASSIGNED[key]

    def getattr(self, o, name, st):
        if o is None:
            raise PyExc('AttributeError', 'None.' + name)
        if isinstance(o, Rec):
            f = st.objs[o.oid]
            if name in f:
                return f[name]
            meths = f.get('__methods__')
            if meths and name in meths:
                return Func('%s.%s' % (o.kind, name), self_val=o, model=meths[name])
            # method of the object's class
            m = self.method_of(o, name, st)
            if isinstance(m, PropertyCall):
                from . import models
                r = models.call_repo(self, m.q, o, [], {}, st)
                if len(r) != 1:
                    raise OutsideSubset('forking property')
                return r[0][1]
            if m is not None:
                return m
            if self._assigned_somewhere(f.get('__class__'), name):
                # the real object has this attribute (some method of its class assigns self.<name>), the hand-written
                # model of the object does not: outside the modelled subset, not an AttributeError of the program
                raise OutsideSubset('attribute %s of %s is not part of the object model' % (name, o.kind))
            raise PyExc('AttributeError', '%s.%s' % (o.kind, name))
        if isinstance(o, Opaque) and isinstance(o.data, dict) and name in (o.data.get('methods') or {}):
            return Func('%s.%s' % (o.name, name), self_val=o, model=o.data['methods'][name])
        if isinstance(o, Opaque) and o.name == 'super':
            mro = list(o.data['cls'].__mro__)
            for k in mro[mro.index(o.data['cls']) + 1:]:
                if name in vars(k):
                    return Func('%s.%s.%s' % (k.__module__, k.__qualname__, name), self_val=o.data['self'])
            raise PyExc('AttributeError', 'super().' + name)
        if isinstance(o, (SStr, str)):
            return Func('str.' + name, self_val=o)
        if isinstance(o, LRef):
            return Func('list.' + name, self_val=o)
        if isinstance(o, Sym):
            h = getattr(self, 'getattr_' + type(o).__name__, None)
            if h:
                return h(o, name, st)
            raise OutsideSubset('attribute %s of %r' % (name, o))
        if isinstance(o, dict):
            return Func('dict.' + name, self_val=o)
        if isinstance(o, (tuple,)) and not self.W.is_tt(o):
            raise OutsideSubset('tuple attribute')
        try:
            v = getattr(o, name)
        except AttributeError:
            raise PyExc('AttributeError', name)
        return self.lift_global(v, name)

    def method_of(self, o, name, st):
        cls = st.objs[o.oid].get('__class__')
        if cls is None:
            return None
        import types
        for k in cls.__mro__:
            if name in vars(k):
                fn = vars(k)[name]
                q = '%s.%s.%s' % (k.__module__, k.__qualname__, name)
                if isinstance(fn, staticmethod):
                    return Func(q, self_val=None)
                if isinstance(fn, classmethod):
                    return Func(q, self_val=cls)
                if isinstance(fn, types.FunctionType):
                    return Func(q, self_val=o)
                if isinstance(fn, property):
                    return PropertyCall(q, o)
                return self.lift_global(fn, name)     # plain class attribute (data)
        return None

    def e_Subscript(self, node, st):
        out = []
        for s, o in self.eval(node.value, st):
            if isinstance(node.slice, ast.Slice):
                parts = [(s, [])]
                for sub in (node.slice.lower, node.slice.upper, node.slice.step):
                    nxt = []
                    for s1, acc in parts:
                        if sub is None:
                            nxt.append((s1, acc + [None]))
                        else:
                            for s2, v in self.eval(sub, s1):
                                nxt.append((s2, acc + [v]))
                    parts = nxt
                for s1, (lo, hi, step) in parts:
                    if step is not None:
                        raise OutsideSubset('slice step')
                    out.extend(self.slice(o, lo, hi, s1))
            else:
                for s1, i in self.eval(node.slice, s):
                    out.extend(self.index(o, i, s1))
        return out

    def index(self, o, i, st):
        """o[i] with Python semantics; returns list of (state, value); IndexError paths raise via exc list"""
        if isinstance(o, Rec) and o.kind == 'istack':
            if not (isinstance(i, int) and i == -1):
                raise OutsideSubset('index into an abstract integer stack other than [-1]')
            out = []
            for s, ne in self.decide(st, st.objs[o.oid]['len'] > 0):
                if ne:
                    out.append((s, SInt(s.objs[o.oid]['top'])))
                else:
                    self.raise_on(s, 'IndexError', 'list index out of range')
            return out
        if self.is_strlike(o) and self.is_intlike(i):
            if isinstance(o, str) and isinstance(i, int):
                try:
                    return [(st, o[i])]
                except IndexError:
                    raise PyExc('IndexError', 'str index')
            zs, zi = self.z_str(o), self.z_int(i)
            n = z3.Length(zs)
            res = []
            for s, b in self.decide(st, z3.And(zi >= -n, zi < n)):
                if not b:
                    self.raise_on(s, 'IndexError', 'string index out of range')
                    continue
                for s2, neg in self.decide(s, zi < 0):
                    idx = zi + n if neg else zi
                    res.append((s2, SStr(z3.SubString(zs, idx, 1))))
            return res
        if isinstance(o, tuple) and isinstance(i, int):
            try:
                return [(st, o[i])]
            except IndexError:
                raise PyExc('IndexError', 'tuple index')
        if isinstance(o, Rec) and o.kind == 'sdict':
            f = st.objs[o.oid]
            if not self.is_strlike(i):
                raise OutsideSubset('dict key that is not a string')
            zk = self.z_str(i)
            res, cur = [], st
            for k, v in reversed(f['ENT']):          # the latest store of a key wins
                hit = cur.fork()
                hit.assume(self.z_str(k) == zk)
                if smt.feasible(hit.pc):
                    res.append((hit, v))
                cur.assume(self.z_str(k) != zk)
            if smt.feasible(cur.pc):
                if f['UNK']:
                    has = z3.Function('sdict_has_%d_%d' % (o.oid, f['VER']), z3.StringSort(), z3.BoolSort())
                    miss = cur.fork()
                    miss.assume(z3.Not(has(zk)))
                    if smt.feasible(miss.pc):
                        self.raise_on(miss, 'KeyError', 'dict key')
                    cur.assume(has(zk))
                    if smt.feasible(cur.pc):
                        from .loops import fresh_like
                        shape = f['SHAPE'] if f['SHAPE'] is not None else self.__dict__.get('_sdict_shapes', {}).get(o.oid)
                        v = fresh_like(self, shape, 'dictval') if shape is not None else None
                        res.append((cur, v if v is not None else Opaque('dict-value')))
                else:
                    self.raise_on(cur, 'KeyError', 'dict key')
            return res
        if isinstance(o, dict):
            if isinstance(i, Sym):
                h = getattr(self, 'dict_index_ext', None)
                if h:
                    return h(o, i, st)
                raise OutsideSubset('dict[sym]')
            if i in o:
                return [(st, o[i])]
            raise PyExc('KeyError', repr(i))
        if isinstance(o, Opaque) and isinstance(o.data, dict) and 'index' in o.data:
            return o.data['index'](self, o, i, st)
        if isinstance(o, LRef) and isinstance(i, int) and not isinstance(i, bool):
            items = st.lists[o.lid]
            if all(it[0] == 'el' for it in items):
                try:
                    return [(st, items[i][1])]
                except IndexError:
                    raise PyExc('IndexError', 'list index out of range')
            if i >= 0 and all(it[0] == 'el' for it in items[:i + 1]) and len(items) > i:
                return [(st, items[i][1])]
            if i < 0 and len(items) >= -i and all(it[0] == 'el' for it in items[i:]):
                return [(st, items[i][1])]
        h = getattr(self, 'index_ext', None)
        if h:
            r = h(o, i, st)
            if r is not NotImplemented:
                return r
        if o is None:
            raise PyExc('TypeError', 'None[...]')
        raise OutsideSubset('index %r[%r]' % (o, i))

    def slice(self, o, lo, hi, st):
        if self.is_strlike(o):
            if isinstance(o, str) and not isinstance(lo, Sym) and not isinstance(hi, Sym):
                return [(st, o[lo:hi])]
            zs = self.z_str(o)
            n = z3.Length(zs)

            def clamp(v, default):
                if v is None:
                    return default
                z = self.z_int(v)
                z = z3.If(z < 0, z3.If(z + n < 0, z3.IntVal(0), z + n), z3.If(z > n, n, z))
                return z
            a, b = clamp(lo, z3.IntVal(0)), clamp(hi, n)
            ln = z3.If(b > a, b - a, z3.IntVal(0))
            return [(st, SStr(z3.SubString(zs, a, ln)))]
        if isinstance(o, tuple) and not isinstance(lo, Sym) and not isinstance(hi, Sym):
            return [(st, o[lo:hi])]
        h = getattr(self, 'slice_ext', None)
        if h:
            r = h(o, lo, hi, st)
            if r is not NotImplemented:
                return r
        if o is None:
            raise PyExc('TypeError', 'None[:]')
        raise OutsideSubset('slice %r' % (o,))

    # ---- exceptions inside expression evaluation that fork: we record them as finished raise-paths
    def raise_on(self, st, cls_name, msg=''):
        self._pending_raises.append((st, cls_name, msg))

    def e_Call(self, node, st):
        if getattr(self, '_in_spec', False) and isinstance(node.func, ast.Name) and node.func.id in ('old', 'entry', 'iter_start'):
            base = {'old': getattr(self, '_old_state', None), 'entry': getattr(self, '_entry_state', None),
                    'iter_start': getattr(self, '_iter_state', None)}[node.func.id]
            if base is None:
                raise OutsideSubset('%s() used where no such state exists' % node.func.id)
            tmp = base.fork()
            n0 = len(tmp.pc)
            r = self.eval(node.args[0], tmp)
            if len(r) != 1:
                raise OutsideSubset('forking old()')
            # facts established while evaluating in the old state (instances of ghost-function laws, conditions
            # entailed by the old path condition) remain true: keep them as hypotheses
            for c in r[0][0].pc[n0:]:
                self.add_fact(st, c)
            return [(st, r[0][1])]
        out = []
        for s, f in self.eval(node.func, st):
            argsets = [(s, [], {})]
            for a in node.args:
                nxt = []
                for s1, pos, kw in argsets:
                    if isinstance(a, ast.Starred):
                        for s2, v in self.eval(a.value, s1):
                            if isinstance(v, tuple):
                                nxt.append((s2, pos + list(v), kw))
                            else:
                                raise OutsideSubset('*args of non tuple')
                    else:
                        for s2, v in self.eval(a, s1):
                            nxt.append((s2, pos + [v], kw))
                argsets = nxt
            for k in node.keywords:
                nxt = []
                for s1, pos, kw in argsets:
                    for s2, v in self.eval(k.value, s1):
                        if k.arg is None:
                            if isinstance(v, dict):
                                d = dict(kw)
                                d.update(v)
                                nxt.append((s2, pos, d))
                            else:
                                raise OutsideSubset('**kwargs')
                        else:
                            d = dict(kw)
                            d[k.arg] = v
                            nxt.append((s2, pos, d))
                argsets = nxt
            for s1, pos, kw in argsets:
                out.extend(self.call(f, pos, kw, s1, node))
        return out

    def e_Lambda(self, node, st):
        return [(st, Func(self.fn + '.<locals>.<lambda>', node=node, closure=ClosureEnv(st.env)))]

    def e_GeneratorExp(self, node, st):
        # a generator over a concrete tuple with a non-forking element expression is evaluated eagerly to a tuple
        # (only its elements are ever observed: membership tests, join, tuple())
        if len(node.generators) == 1 and not node.generators[0].ifs and isinstance(node.generators[0].target, ast.Name):
            g = node.generators[0]
            # (the outermost iterable of a generator expression is evaluated immediately, so an exception raised by
            # that expression propagates from here: PyExc is not caught around this evaluation)
            try:
                r = self.eval(g.iter, st.fork())
            except OutsideSubset:
                r = []
            try:
                if len(r) == 1 and isinstance(r[0][1], tuple) and not self.W.is_tt(r[0][1]):
                    s1, seq = r[0]
                    name = g.target.id
                    saved = s1.env.get(name, UNBOUND)
                    vals = []
                    for x in seq:
                        s1.env[name] = x
                        rr = self.eval(node.elt, s1)
                        if len(rr) != 1:
                            raise OutsideSubset('forking generator element')
                        s1 = rr[0][0]       # (an inlined helper returns in a state of its own)
                        vals.append(rr[0][1])
                    if saved is UNBOUND:
                        s1.env.pop(name, None)
                    else:
                        s1.env[name] = saved
                    return [(s1, tuple(vals))]
            except (OutsideSubset, PyExc):
                pass
        ga = getattr(getattr(self, 'contract', None), 'genexp_asserts', None)
        if ga and len(node.generators) == 1 and not node.generators[0].ifs and isinstance(node.generators[0].target, ast.Name):
            # element obligations of a generator over an abstract sequence: the element expression is evaluated for
            # an ARBITRARY element of the sequence, and the contract's assertions are proved about its value
            g = node.generators[0]
            ordn = str(getattr(self, '_genexp_count', 0))
            self._genexp_count = getattr(self, '_genexp_count', 0) + 1
            specs = ga.get(ordn)
            if specs:
                for s1, seq in self.eval(g.iter, st):
                    if not (isinstance(seq, Rec) and seq.kind == 'aseq'):
                        raise OutsideSubset('generator over %r' % (seq,))
                    o = s1.objs[seq.oid]
                    k = fresh_int('gen_k')
                    s2 = s1.fork()
                    s2.assume(z3.And(k.z >= 0, k.z < self.z_int(o['N'])))
                    for s3, e in o['AT'](self, s2, k):
                        s3.env[g.target.id] = e
                        for s4, v in self.eval(node.elt, s3):
                            for j, sp in enumerate(specs):
                                self.goal('%s/genexp#%s.assert#%d' % (self.fn, ordn, j), s4,
                                          self.spec(sp, s4, {'elem': v}), {'assert': sp})
                return [(st, Opaque('genexp', (node, st)))]
        return [(st, Opaque('genexp', (node, st)))]

    def e_ListComp(self, node, st):
        h = getattr(self, 'listcomp_ext', None)
        if h:
            return h(node, st)
        raise OutsideSubset('list comprehension')

    # ---------------------------------------------------------------- calls
    def allany_ext(self, is_all, gen, st):
        """all(...) / any(...) over a generator expression that is not evaluated element-wise: an unknown boolean
        (over-approximation: both outcomes are explored; the element expressions are tests without effect)"""
        if isinstance(gen, Opaque) and gen.name == 'genexp':
            r = self._allany_concrete(is_all, gen.data[0], st)
            if r is not None:
                return r
            return [(st, SBool(fresh('UNEVALUATED_all' if is_all else 'UNEVALUATED_any', z3.BoolSort())))]
        if isinstance(gen, tuple):
            parts = [self.truth(x, st) for x in gen]
            return [(st, self.wrapb(self.conj(parts) if is_all else self.disj(parts)))]
        return NotImplemented

    def _allany_concrete(self, is_all, node, st):
        """all/any over a generator expression whose single iterable is a CONCRETE sequence (a tuple, or a list with known
        elements): the element expression is evaluated for every element (tests without effect) and the results are
        combined; None if the generator is not of that kind or an element evaluation forks"""
        if len(node.generators) != 1 or node.generators[0].ifs or not isinstance(node.generators[0].target, ast.Name):
            return None
        g = node.generators[0]
        marks = len(self.goals)
        try:
            probe = st.fork()
            rr = self.eval(g.iter, probe)
            if len(rr) != 1:
                return None
            seq = rr[0][1]
            if isinstance(seq, LRef):
                items = probe.lists[seq.lid]
                if not all(it[0] == 'el' for it in items):
                    return None
                seq = tuple(it[1] for it in items)
            if not isinstance(seq, tuple) or self.W.is_tt(seq):
                return None
            parts = []
            n0 = len(st.pc)
            for x in seq:
                s1 = st.fork()
                s1.env = dict(st.env)
                s1.env[g.target.id] = x
                r1 = self.eval(node.elt, s1)
                if len(r1) == 1 and len(r1[0][0].pc) == n0:
                    parts.append(self.truth(r1[0][1], r1[0][0]))
                    continue
                # the element test branches (a pure test): its value is the disjunction over its exhaustive paths of
                # path-condition & result
                alts = []
                for s_i, v_i in r1:
                    b = self.truth(v_i, s_i)
                    zb = z3.BoolVal(b) if isinstance(b, bool) else b
                    extra = list(s_i.pc[n0:])
                    alts.append(z3.And(*(extra + [zb])) if extra else zb)
                if not alts:
                    return None
                parts.append(z3.Or(*alts) if len(alts) > 1 else alts[0])
            res = self.conj(parts) if is_all else self.disj(parts)
            return [(st, self.wrapb(res))]
        except (OutsideSubset, PyExc):
            return None
        finally:
            del self.goals[marks:]

    def spec_fn(self, name, args, kw, st):
        if name == 'STACKID':
            # identity of the abstract value of an integer stack (equal ids <=> same sequence of entries)
            v = args[0]
            if isinstance(v, Rec) and v.kind == 'istack':
                return [(st, SInt(z3.IntVal(st.objs[v.oid]['vid'])))]
            raise OutsideSubset('STACKID of %r' % (v,))
        if name == 'REACHED_LOOP':
            # the state went through the head of loop <ordinal> of the verified function (it did not leave before)
            top = getattr(self, 'top_fn', None) or self.fn
            return [(st, (top, str(args[0])) in st.ghost.get('__loops_reached__', frozenset()))]
        raise OutsideSubset('spec function %s' % name)

    def call(self, f, args, kw, st, node=None):
        """returns list of (state, value)"""
        from . import models
        return models.call(self, f, args, kw, st, node)

    # ---------------------------------------------------------------- statements
    def exec_block(self, stmts, st):
        """returns list of (state, outcome, value)"""
        cur = [st]
        done = []
        for stmt in stmts:
            nxt = []
            for s in cur:
                for s2, oc, val in self.exec_stmt(stmt, s):
                    if oc == Outcome.NEXT:
                        nxt.append(s2)
                    else:
                        done.append((s2, oc, val))
            cur = nxt
            if not cur:
                break
        return done + [(s, Outcome.NEXT, None) for s in cur]

    def exec_stmt(self, stmt, st):
        outer_pending = getattr(self, '_pending_raises', [])
        self._pending_raises = []
        self.npaths += 1
        if self.npaths > self.max_paths * 50:
            raise OutsideSubset('path explosion')
        m = getattr(self, 's_' + type(stmt).__name__, None)
        if m is None:
            raise OutsideSubset('statement %s' % type(stmt).__name__)
        try:
            res = m(stmt, st)
        except PyExc as e:
            res = [(st, Outcome.RAISE, e)]
        pend, self._pending_raises = self._pending_raises, outer_pending
        for s, c, msg in pend:
            res.append((s, Outcome.RAISE, PyExc(c, msg)))
        return res

    def _guard(self, fn, *a):
        """run an evaluation; convert PyExc to raise outcome list"""
        try:
            return fn(*a), None
        except PyExc as e:
            return None, e

    def s_Expr(self, stmt, st):
        if isinstance(stmt.value, ast.Constant):
            return [(st, Outcome.NEXT, None)]      # docstring
        if isinstance(stmt.value, (ast.Yield, ast.YieldFrom)):
            return self.do_yield(stmt.value, st)
        return [(s, Outcome.NEXT, None) for s, _ in self.eval(stmt.value, st)]

    def s_Pass(self, stmt, st):
        return [(st, Outcome.NEXT, None)]

    def s_Assign(self, stmt, st):
        if isinstance(stmt.value, (ast.Yield, ast.YieldFrom)):
            raise OutsideSubset('yield expression value')
        out = []
        for s, v in self.eval(stmt.value, st):
            ok = [s]
            for tgt in stmt.targets:
                nxt = []
                for s1 in ok:
                    nxt.extend(self.assign(tgt, v, s1))
                ok = nxt
            out.extend((s1, Outcome.NEXT, None) for s1 in ok)
        return out

    def assign(self, tgt, v, st):
        """returns list of states"""
        if isinstance(tgt, ast.Name):
            if tgt.id in st.ghost and tgt.id not in st.env:
                st.ghost[tgt.id] = v
            else:
                st.env[tgt.id] = v
            return [st]
        if isinstance(tgt, (ast.Tuple, ast.List)):
            vals = self.unpack(v, len(tgt.elts), st)
            cur = [st]
            for t, x in zip(tgt.elts, vals):
                nxt = []
                for s in cur:
                    nxt.extend(self.assign(t, x, s))
                cur = nxt
            return cur
        if isinstance(tgt, ast.Attribute):
            res = []
            for s, o in self.eval(tgt.value, st):
                self.setattr(o, tgt.attr, v, s)
                res.append(s)
            return res
        if isinstance(tgt, ast.Subscript):
            res = []
            for s, o in self.eval(tgt.value, st):
                if isinstance(tgt.slice, ast.Slice):
                    h = getattr(self, 'store_slice_ext', None)
                    if not h:
                        raise OutsideSubset('slice store')
                    res.extend(h(o, tgt.slice, v, s))
                else:
                    for s1, i in self.eval(tgt.slice, s):
                        res.extend(self.store_index(o, i, v, s1))
            return res
        raise OutsideSubset('assignment target')

    def store_index(self, o, i, v, st):
        if isinstance(o, Rec) and o.kind == 'sdict':
            if not self.is_strlike(i):
                raise OutsideSubset('dict key that is not a string')
            f = st.objs[o.oid]
            f['ENT'] = f['ENT'] + ((i, v),)
            f['SHAPE'] = v
            # (remembered per executor: a later havoc round of an enclosing loop needs the shape of the stored values)
            self.__dict__.setdefault('_sdict_shapes', {})[o.oid] = v
            return [st]
        if isinstance(o, dict) and not isinstance(i, Sym):
            if any(o is g for g in self.genv.values()):
                # (a module-level dict is state shared by every call and every path: not modelled)
                raise OutsideSubset('store into a module-level dict (global state)')
            # dicts are executor-side mutable values: copy-on-write is handled by keeping them in objs
            o[i] = v
            return [st]
        h = getattr(self, 'store_index_ext', None)
        if h:
            r = h(o, i, v, st)
            if r is not NotImplemented:
                return r
        raise OutsideSubset('index store on %r' % (o,))

    def unpack(self, v, n, st):
        if isinstance(v, tuple):
            if len(v) != n:
                raise PyExc('ValueError', 'unpack')
            return list(v)
        if v is None:
            raise PyExc('TypeError', 'cannot unpack None')
        h = getattr(self, 'unpack_ext', None)
        if h:
            r = h(v, n, st)
            if r is not NotImplemented:
                return r
        raise OutsideSubset('unpack %r' % (v,))

    def setattr(self, o, name, v, st):
        if o is None:
            raise PyExc('AttributeError', 'None.%s = ' % name)
        if isinstance(o, Rec):
            st.objs[o.oid][name] = v
            return
        h = getattr(self, 'setattr_ext', None)
        if h:
            r = h(o, name, v, st)
            if r is not NotImplemented:
                return
        raise OutsideSubset('attribute store on %r' % (o,))

    def s_AugAssign(self, stmt, st):
        load = ast.copy_location(_as_load(stmt.target), stmt)
        out = []
        for s, cur in self.eval(load, st):
            for s1, v in self.eval(stmt.value, s):
                nv = self.binop(stmt.op, cur, v, s1)
                for s2 in self.assign(stmt.target, nv, s1):
                    out.append((s2, Outcome.NEXT, None))
        return out

    def s_Return(self, stmt, st):
        if stmt.value is None:
            return [(st, Outcome.RET, None)]
        return [(s, Outcome.RET, v) for s, v in self.eval(stmt.value, st)]

    def s_If(self, stmt, st):
        out = []
        for s, c in self.eval(stmt.test, st):
            base_len = len(s.pc)
            branches = []
            for s1, b in self.decide(s, self.truth(c, s)):
                s1.trace.append('L%d:%s' % (stmt.lineno, 'T' if b else 'F'))
                branches.append(self.exec_block(stmt.body if b else stmt.orelse, s1))
            # join: two branches that both simply fall through are merged into one state (values become ite terms)
            if len(branches) == 2 and all(len(r) == 1 and r[0][1] == Outcome.NEXT for r in branches):
                m = self.merge_states(branches[0][0][0], branches[1][0][0], base_len)
                if m is not None:
                    out.append((m, Outcome.NEXT, None))
                    continue
            for r in branches:
                out.extend(r)
        return out

    # ---------------------------------------------------------------- state merging at joins
    def merge_val(self, a, b, c):
        """value that is a if c else b, or raise _NoMerge"""
        if a is b:
            return a
        if not isinstance(a, Sym) and not isinstance(b, Sym) and type(a) is type(b) and not isinstance(a, tuple):
            try:
                if a == b:
                    return a
            except Exception:
                pass
        if isinstance(a, tuple) and isinstance(b, tuple) and len(a) == len(b) and not self.W.is_tt(a) \
                and not self.W.is_tt(b):
            return tuple(self.merge_val(x, y, c) for x, y in zip(a, b))
        if isinstance(a, (bool, SBool)) and isinstance(b, (bool, SBool)):
            za = z3.BoolVal(a) if isinstance(a, bool) else a.z
            zb = z3.BoolVal(b) if isinstance(b, bool) else b.z
            return SBool(z3.If(c, za, zb))
        if self.is_intlike(a) and self.is_intlike(b) and not isinstance(a, (bool, SBool)) \
                and not isinstance(b, (bool, SBool)):
            return SInt(z3.If(c, self.z_int(a), self.z_int(b)))
        if self.is_strlike(a) and self.is_strlike(b):
            return SStr(z3.If(c, self.z_str(a), self.z_str(b)))
        if self.is_ttlike(a) and self.is_ttlike(b):
            return STy(z3.If(c, self.z_tt(a), self.z_tt(b)))
        if (a is None or self.is_ttlike(a)) and (b is None or self.is_ttlike(b)):
            return STy(z3.If(c, self.z_tt(a), self.z_tt(b)))
        h = getattr(self, 'merge_ext', None)
        if h:
            r = h(a, b, c)
            if r is not NotImplemented:
                return r
        raise _NoMerge()

    def merge_states(self, s1, s2, base_len):
        if s1.pc[:base_len] != s2.pc[:base_len] and any(x is not y for x, y in zip(s1.pc[:base_len], s2.pc[:base_len])):
            return None
        e1, e2 = s1.pc[base_len:], s2.pc[base_len:]
        c1 = z3.And(*e1) if len(e1) > 1 else (e1[0] if e1 else z3.BoolVal(True))
        c2 = z3.And(*e2) if len(e2) > 1 else (e2[0] if e2 else z3.BoolVal(True))
        try:
            if s1.lists.keys() != s2.lists.keys() or any(s1.lists[k] is not s2.lists[k] for k in s1.lists):
                return None
            if s1.farr.keys() != s2.farr.keys() or any(s1.farr[k] is not s2.farr[k] for k in s1.farr):
                return None
            if s1.segs_.keys() != s2.segs_.keys() or any(
                    s1.segs_[k]['uni'].keys() != s2.segs_[k]['uni'].keys()
                    or any(s1.segs_[k]['uni'][f] is not s2.segs_[k]['uni'][f] for f in s1.segs_[k]['uni'])
                    for k in s1.segs_):
                return None
            m = s1.fork()
            m.pc = s1.pc[:base_len] + [z3.Or(c1, c2)]
            for name in set(s1.env) | set(s2.env):
                if name in s1.env and name in s2.env:
                    m.env[name] = self.merge_val(s1.env[name], s2.env[name], c1)
                else:
                    # bound on one side only: keep it unbound after the join (use would be an UnboundLocalError)
                    m.env.pop(name, None)
            if set(s1.ghost) != set(s2.ghost):
                # ghost state (incl. field taint, recorded calls) that exists on one side only cannot be merged
                return None
            for name in set(s1.ghost) | set(s2.ghost):
                if name in s1.ghost and name in s2.ghost:
                    m.ghost[name] = self.merge_val(s1.ghost[name], s2.ghost[name], c1)
            for oid in set(s1.objs) | set(s2.objs):
                if oid in s1.objs and oid in s2.objs:
                    f1, f2 = s1.objs[oid], s2.objs[oid]
                    if f1.keys() != f2.keys():
                        return None
                    m.objs[oid] = {k: self.merge_val(f1[k], f2[k], c1) for k in f1}
                else:
                    m.objs[oid] = dict(s1.objs.get(oid) or s2.objs.get(oid))
            m.trace = s1.trace[:-1] + ['join']
            m.notes = list(s1.notes) if s1.notes == s2.notes else None
            if m.notes is None:
                return None
            return m
        except _NoMerge:
            return None

    def s_Break(self, stmt, st):
        return [(st, Outcome.BREAK, None)]

    def s_Continue(self, stmt, st):
        return [(st, Outcome.CONT, None)]

    def s_Raise(self, stmt, st):
        if stmt.exc is None:
            raise OutsideSubset('bare raise')
        e = stmt.exc
        name = None
        if isinstance(e, ast.Call):
            e = e.func
        if isinstance(e, ast.Name):
            name = e.id
        elif isinstance(e, ast.Attribute):
            name = e.attr
        if name is None:
            raise OutsideSubset('raise of computed exception')
        return [(st, Outcome.RAISE, PyExc(name, 'explicit raise'))]

    def s_Assert(self, stmt, st):
        out = []
        for s, c in self.eval(stmt.test, st):
            for s1, b in self.decide(s, self.truth(c, s)):
                if b:
                    out.append((s1, Outcome.NEXT, None))
                else:
                    out.append((s1, Outcome.RAISE, PyExc('AssertionError')))
        return out

    def s_Try(self, stmt, st):
        if stmt.finalbody:
            raise OutsideSubset('try/finally')
        out = []
        for s, oc, val in self.exec_block(stmt.body, st):
            if oc == Outcome.RAISE:
                handled = False
                for h in stmt.handlers:
                    names = self._handler_names(h)
                    if names is None or exc_isinstance(val.cls_name, names):
                        if h.name:
                            s.env[h.name] = Opaque('exc:' + val.cls_name)
                        s.trace.append('L%d:except %s' % (h.lineno, val.cls_name))
                        out.extend(self.exec_block(h.body, s))
                        handled = True
                        break
                if not handled:
                    out.append((s, oc, val))
            elif oc == Outcome.NEXT and stmt.orelse:
                out.extend(self.exec_block(stmt.orelse, s))
            else:
                out.append((s, oc, val))
        return out

    def _handler_names(self, h):
        if h.type is None:
            return None
        ts = h.type.elts if isinstance(h.type, ast.Tuple) else [h.type]
        names = []
        for t in ts:
            names.append(t.id if isinstance(t, ast.Name) else t.attr)
        return names

    def s_FunctionDef(self, stmt, st):
        f = Func(self.fn + '.<locals>.' + stmt.name, node=stmt, closure=ClosureEnv(st.env))
        f.closure.env[stmt.name] = f      # (a nested function sees its own name: recursion)
        st.env[stmt.name] = f
        return [(st, Outcome.NEXT, None)]

    def s_With(self, stmt, st):
        h = getattr(self, 'with_ext', None)
        if h:
            return h(stmt, st)
        raise OutsideSubset('with')

    def s_Delete(self, stmt, st):
        h = getattr(self, 'delete_ext', None)
        if h:
            return h(stmt, st)
        raise OutsideSubset('del')

    def s_For(self, stmt, st):
        from . import loops
        return loops.exec_for(self, stmt, st)

    def s_While(self, stmt, st):
        from . import loops
        return loops.exec_while(self, stmt, st)

    def do_yield(self, node, st):
        from . import loops
        return loops.do_yield(self, node, st)

    # ---------------------------------------------------------------- spec expressions (sidecar strings)
    def add_fact(self, st, z):
        """a valid fact (instance of a ghost-function law, or a condition entailed by an earlier state of the same
        path): inside a spec evaluation it is handed to the enclosing state as a FACT, not kept as a hypothesis"""
        if getattr(self, '_in_spec', False) and getattr(self, '_facts', None) is not None:
            self._facts.append(z)
        else:
            st.assume(z)

    def spec_value(self, text, st, extra=None):
        """value of a (non-forking) sidecar expression in state st, e.g. the new value of a ghost variable"""
        node = ast.parse(text.strip(), mode='eval').body
        s = st.fork()
        if extra:
            s.env.update(extra)
        old_spec, self._in_spec = getattr(self, '_in_spec', False), True
        try:
            r = self.eval(node, s)
        finally:
            self._in_spec = old_spec
        if len(r) != 1:
            raise OutsideSubset('ghost expression %r forks' % text[:60])
        return r[0][1]

    def spec(self, text, st, extra=None):
        """evaluate a sidecar spec expression in state st (+ extra bindings) to bool / z3 Bool"""
        node = ast.parse(text.strip(), mode='eval').body
        s = st.fork()          # spec evaluation must not disturb the program state
        if extra:
            s.env.update(extra)
        old_spec = getattr(self, '_in_spec', False)
        old_facts = getattr(self, '_facts', None)
        self._in_spec = True
        self._facts = []
        try:
            r = self.eval(node, s)
        finally:
            self._in_spec = old_spec
            facts, self._facts = self._facts, old_facts
        for f in facts:
            st.assume(f)
        aw = st.ghost.get('__allws__', ())
        for x in r:
            for e in x[0].ghost.get('__allws__', ()):
                if not any(e is e2 for e2 in aw):
                    aw = aw + (e,)
        if aw:
            st.ghost['__allws__'] = aw
        regs = [x[0].ghost['__mfacts__'] for x in r if '__mfacts__' in x[0].ghost]
        if regs:
            # registry of ghost-law terms seen so far (union over the forks of the spec evaluation)
            m = {'M': [], 'N': []}
            for g in regs:
                for k in ('M', 'N'):
                    for e in g[k]:
                        if not any(e is e2 or (len(e) == len(e2) and all(a is b or (not hasattr(a, 'eq') and a == b)
                                                                          for a, b in zip(e, e2))) for e2 in m[k]):
                            m[k].append(e)
            st.ghost['__mfacts__'] = m
        if not r:
            if smt.feasible(st.pc):
                raise OutsideSubset('spec expression %r has no value in a feasible state' % text[:60])
            return True       # dead state
        if len(r) != 1:
            # a spec that forks: combine as (pc_i => v_i) for all i
            parts = []
            base = len(st.pc) - len(facts)
            for s_i, v in r:
                t = self.truth(v, s_i)
                cond = self.conj(s_i.pc[base:])
                parts.append(z3.Implies(cond if not isinstance(cond, bool) else z3.BoolVal(cond),
                                        t if not isinstance(t, bool) else z3.BoolVal(t)))
            return z3.And(*parts)
        s1, v = r[0]
        t = self.truth(v, s1)
        extra_pc = s1.pc[len(st.pc) - len(facts):]
        if extra_pc:
            t = z3.Implies(z3.And(*extra_pc), t if not isinstance(t, bool) else z3.BoolVal(t))
        return t


def _as_load(node):
    n = ast.parse(ast.unparse(node), mode='eval').body
    return n



# ----------------------------------------------------------------------------------- abstract integer stacks
# A list of ints that the code uses as a stack (append / pop / [-1] / truthiness / len) and whose entries are strictly
# increasing (stated by the contract that creates it).  Modelled by (len, top) and a persistent "version": push creates a
# version whose parent is the old one, pop returns to the parent if it is known, otherwise to an unknown stack with a
# smaller top.  Two stacks are the same abstract value iff their versions are equal.

_ISTACK_POP_CACHE = {}
_ISTACK_PUSH_CACHE = {}
_istack_ids = __import__('itertools').count(1)


def new_istack(ex, st, name, length=None, top=None):
    """an abstract integer stack in an arbitrary state (length >= 0; top is meaningful if length > 0)"""
    ln = length if length is not None else fresh(name + '_len', z3.IntSort())
    tp = top if top is not None else fresh(name + '_top', z3.IntSort())
    st.assume(ln >= 0)

    def append(ex_, self_val, args, kw, s):
        o = s.objs[self_val.oid]
        x = ex_.z_int(args[0])
        parent = (o['vid'], o['len'], o['top'], o['parent'])
        # (pushing the same value term onto the same abstract stack gives the same abstract stack)
        key = (o['vid'], z3.simplify(x).sexpr())
        if key not in _ISTACK_PUSH_CACHE:
            _ISTACK_PUSH_CACHE[key] = next(_istack_ids)
        o.update({'vid': _ISTACK_PUSH_CACHE[key], 'len': z3.simplify(o['len'] + 1), 'top': x, 'parent': parent})
        return [(s, None)]

    def pop(ex_, self_val, args, kw, s):
        if args:
            raise OutsideSubset('istack.pop(i)')
        out = []
        for s1, ne in ex_.decide(s, s.objs[self_val.oid]['len'] > 0):
            if not ne:
                ex_.raise_on(s1, 'IndexError', 'pop from empty list')
                continue
            o = s1.objs[self_val.oid]
            res = SInt(o['top'])
            if o['parent'] is not None:
                vid, ln_, tp_, par = o['parent']
            else:
                # the rest of an unknown stack: unknown, but the same every time this version is popped, shorter by one,
                # and (entries strictly increasing) with a smaller top
                key = o['vid']
                if key not in _ISTACK_POP_CACHE:
                    _ISTACK_POP_CACHE[key] = (next(_istack_ids), fresh('rest_top', z3.IntSort()))
                vid, tp_ = _ISTACK_POP_CACHE[key]
                ln_ = z3.simplify(o['len'] - 1)
                par = None
                s1.assume(z3.Implies(ln_ > 0, tp_ < o['top']))
            o.update({'vid': vid, 'len': ln_, 'top': tp_, 'parent': par})
            out.append((s1, res))
        return out
    return ex.new_obj(st, 'istack', {'vid': next(_istack_ids), 'len': ln, 'top': tp, 'parent': None,
                                     '__methods__': {'append': append, 'pop': pop}})
