"""SMT back ends: z3 (Python API) first, cvc5 (CLI over SMT-LIB2 text) takes z3's unknowns.

A query is `assumptions |- goal`; it is discharged iff assumptions ∧ ¬goal is unsat.
Verdicts: 'unsat' (discharged), 'sat' (failed, with model), 'unknown'.
"""
import os
import subprocess
import tempfile
import time

import z3

Z3_TIMEOUT_MS = int(os.environ.get('PYVC_Z3_TIMEOUT_MS', '10000'))
CVC5_TIMEOUT_S = int(os.environ.get('PYVC_CVC5_TIMEOUT_S', '15'))
CVC5 = '/usr/bin/cvc5'

CROSSCHECK = os.environ.get('PYVC_CROSSCHECK') == '1'
CROSS_TIMEOUT_S = int(os.environ.get('PYVC_CROSS_TIMEOUT_S', '10'))

STATS = {'z3': {'n': 0, 's': 0.0}, 'cvc5': {'n': 0, 's': 0.0}, 'feas': {'n': 0, 's': 0.0},
         'cross': {'n': 0, 's': 0.0, 'unsat': 0, 'sat': 0, 'unknown': 0}}


def check(assumptions, goal, want_model=True, timeout_ms=None, use_cvc5=True):
    """Returns (verdict, backend, seconds, model_or_reason)."""
    s = z3.Solver()
    s.set('timeout', timeout_ms or Z3_TIMEOUT_MS)
    for a in assumptions:
        s.add(a)
    s.add(z3.Not(goal))
    t0 = time.time()
    r = s.check()
    dt = time.time() - t0
    STATS['z3']['n'] += 1
    STATS['z3']['s'] += dt
    if r == z3.unsat:
        if CROSSCHECK and os.path.exists(CVC5):
            # thorough tier: every goal z3 discharges is put to cvc5 as well (independent solver, SMT-LIB text)
            t1 = time.time()
            v, out = cvc5_check(s.to_smt2(), tlimit_s=CROSS_TIMEOUT_S)
            STATS['cross']['n'] += 1
            STATS['cross']['s'] += time.time() - t1
            STATS['cross'][v] = STATS['cross'].get(v, 0) + 1
            if v == 'sat':
                return 'unknown', 'z3+cvc5', dt, 'solver disagreement: z3 unsat, cvc5 sat'
        return 'unsat', 'z3', dt, None
    if r == z3.sat:
        m = s.model() if want_model else None
        return 'sat', 'z3', dt, m
    reason = s.reason_unknown()
    if use_cvc5 and os.path.exists(CVC5):
        t1 = time.time()
        v, out = cvc5_check(s.to_smt2())
        dt2 = time.time() - t1
        STATS['cvc5']['n'] += 1
        STATS['cvc5']['s'] += dt2
        if v in ('unsat', 'sat'):
            return v, 'cvc5', dt + dt2, out
        reason += ' | cvc5: ' + out[:200]
    return 'unknown', 'z3+cvc5', time.time() - t0, reason


def cvc5_check(smt2_text, produce_model=False, tlimit_s=None):
    tl = tlimit_s or CVC5_TIMEOUT_S
    txt = '(set-logic ALL)\n' + smt2_text
    if produce_model:
        txt = '(set-option :produce-models true)\n' + txt.replace('(check-sat)', '(check-sat)\n(get-model)')
    with tempfile.NamedTemporaryFile('w', suffix='.smt2', delete=False, dir=os.environ.get('TMPDIR', '/tmp')) as f:
        f.write(txt)
        path = f.name
    try:
        p = subprocess.run([CVC5, '--strings-exp', '--tlimit=%d' % (tl * 1000), path],
                           capture_output=True, text=True, timeout=tl + 5)
        out = (p.stdout + p.stderr).strip()
        first = out.split('\n', 1)[0].strip() if out else ''
        if first in ('unsat', 'sat'):
            return first, out
        return 'unknown', out
    except subprocess.TimeoutExpired:
        return 'unknown', 'timeout'
    finally:
        try:
            os.unlink(path)
        except OSError:
            pass


def _assert_all(solver, exprs):
    """solver.add(*exprs) without the per-expression coercion overhead of the high-level API (the path conditions are
    lists of z3 Bool terms already; this is the hot spot of VC generation)"""
    ctx_ref = solver.ctx.ref()
    sol = solver.solver
    for a in exprs:
        if isinstance(a, bool):
            a = z3.BoolVal(a)
        z3.Z3_solver_assert(ctx_ref, sol, a.as_ast())


_CACHE = {}


def _key(pc, goal=None):
    return (tuple(sorted({p.get_id() for p in pc if not isinstance(p, bool)})), goal.get_id() if goal is not None else None)


def feasible(pc, timeout_ms=2000):
    """Is the path condition satisfiable?  'unknown' counts as feasible (sound: never prunes a real path)."""
    pc = [z3.BoolVal(p) if isinstance(p, bool) else p for p in pc]
    k = ('f',) + _key(pc)
    if k in _CACHE:
        return _CACHE[k][0]
    r = _feasible(pc, timeout_ms)
    _CACHE[k] = (r, list(pc))       # keep the terms alive: z3 recycles AST ids of collected terms
    return r


def _feasible(pc, timeout_ms=2000):
    s = z3.Solver()
    s.set('timeout', timeout_ms)
    _assert_all(s, pc)
    t0 = time.time()
    r = s.check()
    STATS['feas']['n'] += 1
    STATS['feas']['s'] += time.time() - t0
    return r != z3.unsat


def entails(pc, goal, timeout_ms=2000):
    """Does pc entail goal? (unknown -> False)"""
    if isinstance(goal, bool):
        return goal or not feasible(pc)
    pc = [z3.BoolVal(p) if isinstance(p, bool) else p for p in pc]
    k = ('e',) + _key(pc, goal)
    if k in _CACHE:
        return _CACHE[k][0]
    r = _entails(pc, goal, timeout_ms)
    _CACHE[k] = (r, list(pc), goal)
    return r


def _entails(pc, goal, timeout_ms=2000):
    s = z3.Solver()
    s.set('timeout', timeout_ms)
    _assert_all(s, pc)
    s.add(z3.Not(goal))
    t0 = time.time()
    r = s.check()
    STATS['feas']['n'] += 1
    STATS['feas']['s'] += time.time() - t0
    return r == z3.unsat


def model_to_dict(m, limit=40):
    if m is None or isinstance(m, str):
        return m
    out = {}
    try:
        for d in m.decls()[:limit]:
            v = m[d]
            if z3.is_string_value(v):
                out[d.name()] = {'str': z3_unescape(v.as_string())}
            elif z3.is_int_value(v):
                out[d.name()] = {'int': v.as_long()}
            else:
                out[d.name()] = str(v)[:200]
    except Exception as e:  # pragma: no cover
        out['_error'] = repr(e)
    return out


def z3_unescape(s):
    import re as _re
    def rep(m):
        try:
            return chr(int(m.group(1), 16))
        except ValueError:
            return m.group(0)
    s = _re.sub(r'\\u\{([0-9a-fA-F]+)\}', rep, s)
    s = _re.sub(r'\\x([0-9a-fA-F]{2})', rep, s)
    return s


class Ctx:
    """several queries against the same path condition: the pc is asserted once, each query is a push/pop"""

    def __init__(self, pc, timeout_ms=2000):
        self.s = z3.Solver()
        self.s.set('timeout', timeout_ms)
        _assert_all(self.s, pc)
        self.n = len(pc)

    def feasible_with(self, *extra):
        t0 = time.time()
        self.s.push()
        self.s.add(*extra)
        r = self.s.check()
        self.s.pop()
        STATS['feas']['n'] += 1
        STATS['feas']['s'] += time.time() - t0
        return r != z3.unsat

    def entails(self, goal):
        if isinstance(goal, bool):
            return goal or not self.feasible_with()
        t0 = time.time()
        self.s.push()
        self.s.add(z3.Not(goal))
        r = self.s.check()
        self.s.pop()
        STATS['feas']['n'] += 1
        STATS['feas']['s'] += time.time() - t0
        return r == z3.unsat
