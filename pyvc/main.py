"""./check entry point."""
import argparse
import importlib
import json
import os
import sys

from . import core


def main():
    ap = argparse.ArgumentParser()
    ap.add_argument('prop')
    ap.add_argument('--tier', default=os.environ.get('VERIF_TIER', 'quick'), choices=['quick', 'thorough'])
    ap.add_argument('--replay', default=None)
    a = ap.parse_args()
    seed = int(os.environ.get('VERIF_SEED', '0') or 0)
    if a.tier == 'thorough' and 'PYVC_CROSSCHECK' not in os.environ and not a.replay:
        os.environ['PYVC_CROSSCHECK'] = '1'     # thorough: every goal z3 discharges is re-checked by cvc5
    sys.path.insert(0, core.VERIF)

    def body():
        core.import_repo()
        mod = importlib.import_module('props.' + a.prop)
        if a.replay:
            return mod.replay(a.replay)
        rep = core.Report(a.prop, a.tier, seed)
        return mod.run(rep)
    code = core.guarded(body)
    sys.stdout.flush()
    os._exit(code if isinstance(code, int) else 3)


if __name__ == '__main__':
    main()
