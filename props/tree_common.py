"""Structural / data obligations shared by the token-tree properties (C02, C03, C09, C11, C13)."""
import ast
import inspect

from pyvc import core, effects
from pyvc.core import source
from props import common

GT = 'sqlparse.sql.TokenList.group_tokens'
TREE_FUNCS = [(GT, 'new group'), (GT, 'extend flag'), ('sqlparse.sql.TokenList.__init__', 'body'),
              ('sqlparse.sql.Token.__init__', 'body')]
GM = 'sqlparse.engine.grouping._group_matching'
MATCHER_FUNCS = [(GM, c) for c in ('Parenthesis', 'SquareBrackets', 'Case', 'If', 'For', 'Begin')]
PASS_FUNCS = [('sqlparse.engine.grouping.' + n, 'call sites') for n in (
    'group_identifier', 'group_over', 'group_aliased', 'group_order', 'align_comments', 'group_comments', 'group_values',
    'group_functions', 'group_where')]
JOINER_FUNCS = [('sqlparse.engine.grouping._group', 'generic closures')] + [
    ('sqlparse.engine.grouping.' + n, 'closures') for n in (
        'group_typecasts', 'group_tzcasts', 'group_typed_literal', 'group_period', 'group_as', 'group_assignment',
        'group_comparison', 'group_arrays', 'group_operator', 'group_identifier_list')]
NAV_FUNCS = [('sqlparse.sql.TokenList._token_matching', 'forward, end=None'),
             ('sqlparse.sql.TokenList._token_matching', 'reverse'),
             ('sqlparse.sql.TokenList.token_next', 'forward'), ('sqlparse.sql.TokenList.token_next', 'reverse (token_prev)'),
             ('sqlparse.sql.TokenList.token_index', None)]
OFFSET_FUNCS = [('sqlparse.sql.TokenList.get_token_at_offset', 'body')]


def code_text(node):
    """source text of a function without its docstring"""
    import copy
    n = copy.deepcopy(node)
    if n.body and isinstance(n.body[0], ast.Expr) and isinstance(n.body[0].value, ast.Constant) \
            and isinstance(n.body[0].value.value, str):
        n.body = n.body[1:] or [ast.Pass()]
    return ast.unparse(n)


def identity_side_conditions(rep):
    """assumption 4 of the encoding (objects compare by identity and are truthy) and the constructor assumption.  These
    are assumptions of the PROOF: when one stops holding, the affected obligations are undecided (the bounded stand-in
    decides), it is not by itself a violation of the property."""
    from sqlparse import sql
    bad = []
    for name, k in vars(sql).items():
        if inspect.isclass(k) and k.__module__ == 'sqlparse.sql':
            for m in ('__eq__', '__hash__', '__bool__', '__len__', '__ne__'):
                if m in vars(k):
                    bad.append('%s.%s' % (name, m))
    common.structural(rep, '%s/sqlparse.sql/no class defines __eq__/__hash__/__bool__/__len__ (identity and truthiness of nodes)' % rep.prop,
                      'sqlparse.sql', not bad, {'found': bad}, undecided_if_false=True)
    inits = [name for name, k in vars(sql).items() if inspect.isclass(k) and issubclass(k, sql.TokenList)
             and k is not sql.TokenList and '__init__' in vars(k)]
    common.structural(rep, '%s/sqlparse.sql/no subclass of TokenList overrides __init__ (grp_cls(...) is TokenList.__init__)' % rep.prop,
                      'sqlparse.sql', not inits, {'found': inits}, undecided_if_false=True)
    ov = [name for name, k in vars(sql).items() if inspect.isclass(k) and issubclass(k, sql.Token)
          and k not in (sql.Token, sql.TokenList) and any(m in vars(k) for m in ('flatten', '__str__', '__iter__', '__getitem__', 'group_tokens'))]
    common.structural(rep, '%s/sqlparse.sql/no subclass overrides flatten/__str__/__iter__/__getitem__/group_tokens' % rep.prop,
                      'sqlparse.sql', not ov, {'found': ov}, undecided_if_false=True)


def grouping_frame(rep):
    """every function of engine/grouping.py writes the tree only through TokenList.group_tokens and the single
    `tlist[tidx].ttype = T.Operator`; local lists (opens) aside"""
    fns = effects.all_functions()
    for q, node in sorted(fns.items()):
        if not q.startswith('sqlparse.engine.grouping.'):
            continue
        ws = effects.writes_of(q, node)
        bad = []
        for w in ws:
            if w.kind == 'attr-store' and w.attr == 'ttype' and 'T.Operator' in w.text:
                continue
            if w.kind == 'mutator-call' and w.base == 'opens':
                continue
            bad.append(w.as_dict())
        common.structural(rep, '%s/%s/writes the tree only through group_tokens (and the Operator re-typing)' % (rep.prop, q),
                          q, not bad, {'writes': bad}, undecided_if_false=True)
    # C03 "same values and types; only a `*`/operator token may be re-typed to Operator": a store to the type or the value
    # of a token anywhere in the grouping engine, other than `.ttype = T.Operator`, is that clause broken in so many words
    for q, node in sorted(fns.items()):
        if not q.startswith('sqlparse.engine.grouping.') or '<locals>' in q.split('sqlparse.engine.grouping.', 1)[1].split('.', 1)[0]:
            continue
        bad = []
        for n in ast.walk(node):
            tgts = n.targets if isinstance(n, ast.Assign) else [n.target] if isinstance(n, (ast.AugAssign, ast.AnnAssign)) else []
            for t in tgts:
                for t1 in ([t] if not isinstance(t, (ast.Tuple, ast.List)) else t.elts):
                    if isinstance(t1, ast.Attribute) and t1.attr in ('ttype', 'value'):
                        val = getattr(n, 'value', None)
                        if not (t1.attr == 'ttype' and isinstance(n, ast.Assign) and val is not None
                                and ast.unparse(val) == 'T.Operator'):
                            bad.append({'line': n.lineno, 'store': ast.unparse(n)[:120]})
            if isinstance(n, ast.Call) and isinstance(n.func, ast.Name) and n.func.id == 'setattr' and len(n.args) >= 2 \
                    and isinstance(n.args[1], ast.Constant) and n.args[1].value in ('ttype', 'value'):
                bad.append({'line': n.lineno, 'store': ast.unparse(n)[:120]})
        if '.<locals>.' in q:
            continue        # (closures are walked with their enclosing pass)
        common.structural(rep, '%s/%s/re-types a token only to Operator and rewrites no token value' % (rep.prop, q), q,
                          not bad, {'stores': bad})
    # the re-typing store targets the matched token and only sets Operator
    q = 'sqlparse.engine.grouping.group_operator.<locals>.post'
    node = fns.get(q)
    if node is not None:
        stores = [n for n in ast.walk(node) if isinstance(n, ast.Assign)]
        ok = len(stores) == 1 and ast.unparse(stores[0]) == 'tlist[tidx].ttype = T.Operator'
        common.structural(rep, '%s/%s/the only type rewrite is tlist[tidx].ttype = T.Operator' % (rep.prop, q), q, ok,
                          {'stores': [ast.unparse(s_) for s_ in stores]}, undecided_if_false=True)
    qm = 'sqlparse.engine.grouping.group_operator.<locals>.match'
    node = fns.get(qm)
    if node is not None:
        ok = 'imt(token, t=(T.Operator, T.Wildcard))' in ast.unparse(node)
        common.structural(rep, '%s/%s/only Operator and Wildcard tokens are re-typed' % (rep.prop, qm), qm, ok, {},
                          undecided_if_false=True)


def flatten_and_str(rep):
    """TokenList.__str__ is the join of the flattened leaves' values; flatten yields leaves in order, delegating to
    each sub-group (shape obligations over the AST; the text algebra itself is in the ghost-text contracts)"""
    src = source()
    n = src.get('sqlparse.sql.TokenList.__str__')
    ok = n is not None and "''.join((token.value for token in self.flatten()))" in ast.unparse(n).replace('"', "'")
    common.structural(rep, '%s/sqlparse.sql.TokenList.__str__/is the join of the values of flatten()' % rep.prop,
                      'sqlparse.sql.TokenList.__str__', ok, {'text': ast.unparse(n)[:200] if n else None}, undecided_if_false=True)
    n = src.get('sqlparse.sql.TokenList.flatten')
    txt = code_text(n) if n else ''
    ok = n is not None and 'for token in self.tokens:' in txt and 'yield from token.flatten()' in txt \
        and 'yield token' in txt and txt.count('yield') == 2 and 'if token.is_group' in txt
    common.structural(rep, '%s/sqlparse.sql.TokenList.flatten/yields every child once, in order: a leaf itself, a group via its own flatten()' % rep.prop,
                      'sqlparse.sql.TokenList.flatten', ok, {'text': txt[:300]}, undecided_if_false=True)
    n = src.get('sqlparse.sql.Token.flatten')
    ok = n is not None and ast.unparse(n).strip().endswith('yield self')
    common.structural(rep, '%s/sqlparse.sql.Token.flatten/a leaf yields itself' % rep.prop, 'sqlparse.sql.Token.flatten', ok, {},
                      undecided_if_false=True)


def pass_order(rep):
    """the six matching passes run in the documented order, before every joining pass"""
    node = source().get('sqlparse.engine.grouping.group')
    names = []
    if node is not None:
        for n in ast.walk(node):
            if isinstance(n, ast.List) and all(isinstance(e, ast.Name) for e in n.elts) and len(n.elts) > 5:
                names = [e.id for e in n.elts]
    want = ['group_brackets', 'group_parenthesis', 'group_case', 'group_if', 'group_for', 'group_begin']
    idx = [names.index(w) if w in names else -1 for w in want]
    ok = all(i >= 0 for i in idx) and idx == sorted(idx) and idx == list(range(idx[0], idx[0] + 6))
    later = names[idx[-1] + 1:] if ok else []
    common.structural(rep, '%s/sqlparse.engine.grouping.group/bracket and block passes run in the order brackets, parenthesis, case, if, for, begin and before all joining passes' % rep.prop,
                      'sqlparse.engine.grouping.group', ok and names[:idx[0]] in ([], ['group_comments']),
                      {'passes': names})
    from sqlparse import sql, tokens as T
    table = {'Parenthesis': ((T.Punctuation, '('), (T.Punctuation, ')')),
             'SquareBrackets': ((T.Punctuation, '['), (T.Punctuation, ']')),
             'Case': ((T.Keyword, 'CASE'), (T.Keyword, 'END')), 'If': ((T.Keyword, 'IF'), (T.Keyword, 'END IF')),
             'For': ((T.Keyword, ('FOR', 'FOREACH')), (T.Keyword, 'END LOOP')),
             'Begin': ((T.Keyword, 'BEGIN'), (T.Keyword, 'END'))}
    for cn, (mo, mc) in table.items():
        k = getattr(sql, cn, None)
        ok = k is not None and tuple(k.M_OPEN) == mo and tuple(k.M_CLOSE) == mc
        common.structural(rep, '%s/sqlparse.sql.%s/M_OPEN / M_CLOSE are the documented delimiters' % (rep.prop, cn),
                          'sqlparse.sql.' + cn, ok, {'M_OPEN': repr(getattr(k, 'M_OPEN', None)), 'M_CLOSE': repr(getattr(k, 'M_CLOSE', None))})
    for fn, cn in (('group_brackets', 'SquareBrackets'), ('group_parenthesis', 'Parenthesis'), ('group_case', 'Case'),
                   ('group_if', 'If'), ('group_for', 'For'), ('group_begin', 'Begin')):
        n = source().get('sqlparse.engine.grouping.' + fn)
        ok = n is not None and ('_group_matching(tlist, sql.%s)' % cn) in ast.unparse(n)
        common.structural(rep, '%s/sqlparse.engine.grouping.%s/matches class %s' % (rep.prop, fn, cn),
                          'sqlparse.engine.grouping.' + fn, ok, {}, undecided_if_false=True)
