"""C10 — requested layout normal forms are actually achieved."""
import ast

from pyvc.core import source
from props import common, generic
from props.C06 import stack_mapping, site_inventory, SITE_FUNCS


def nl_obligations(rep):
    src = source()
    n = src.get('sqlparse.filters.reindent.ReindentFilter.nl')
    txt = ast.unparse(n) if n else ''
    common.structural(rep, 'C10/ReindentFilter.nl/returns a Whitespace token that starts with the line break self.n',
                      'sqlparse.filters.reindent.ReindentFilter.nl',
                      'sql.Token(T.Whitespace, self.n + self.char * max(0, self.leading_ws + offset))' in txt, {},
                      undecided_if_false=True)
    n = src.get('sqlparse.filters.reindent.ReindentFilter._next_token')
    txt = ast.unparse(n) if n else ''
    words = ['FROM', 'JOIN$', 'AND', 'OR', 'GROUP BY', 'ORDER BY', 'UNION', 'SET', 'EXCEPT', 'HAVING', 'LIMIT']
    common.structural(rep, 'C10/ReindentFilter._next_token/split words contain every clause keyword of the property',
                      'sqlparse.filters.reindent.ReindentFilter._next_token', all(("'%s'" % w) in txt for w in words),
                      {'missing': [w for w in words if ("'%s'" % w) not in txt]})
    common.structural(rep, 'C10/ReindentFilter._next_token/AND directly after BETWEEN is skipped',
                      'sqlparse.filters.reindent.ReindentFilter._next_token',
                      "token.normalized == 'BETWEEN'" in txt and "token.normalized == 'AND'" in txt, {}, undecided_if_false=True)
    n = src.get('sqlparse.filters.others.StripWhitespaceFilter.process')
    txt = ast.unparse(n) if n else ''
    common.structural(rep, 'C10/StripWhitespaceFilter.process/at depth 0 a trailing whitespace token is removed',
                      'sqlparse.filters.others.StripWhitespaceFilter.process',
                      'if depth == 0 and stmt.tokens and stmt.tokens[-1].is_whitespace' in txt and 'stmt.tokens.pop(-1)' in txt,
                      {}, undecided_if_false=True)


def run(rep):
    return generic.run_generic(
        rep, [('sqlparse.formatter.validate_options', None)] + SITE_FUNCS[:4], structural=[nl_obligations, stack_mapping],
        assumptions=['per-function normal forms (_stripws_default, _stripws_parenthesis, _stripws_identifierlist, '
                     'SpacesAroundOperatorsFilter._process, _split_kwds) are not yet under SMT contracts: shape obligations '
                     'over the AST plus the bounded stand-in (normal-form oracles on grammar scripts, fixed points)',
                     'statements about the whole output string need re-lexing: bounded only'],
        trusted=['CPython re engine', 'str.rstrip'], budget_quick=35.0)


def replay(path):
    return generic.replay_generic('C10', path)
