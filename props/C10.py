"""C10 — requested layout normal forms are actually achieved."""
import ast
import re

from pyvc.core import source
from props import common, generic
from props.C06 import stack_mapping, site_inventory, SITE_FUNCS


def nl_obligations(rep):
    src = source()
    n = src.get('sqlparse.filters.reindent.ReindentFilter.nl')
    txt = ast.unparse(n) if n else ''
    common.structural(rep, 'C10/ReindentFilter.nl/returns a Whitespace token that starts with the line break self.n',
                      'sqlparse.filters.reindent.ReindentFilter.nl',
                      'sql.Token(T.Whitespace, self.n + self.char * max(0, self.leading_ws + offset))' in txt, {},
                      undecided_if_false=True)
    # the clause keywords of the property are split words of the real ReindentFilter._next_token: decided by running it
    # (exhaustive over the finite list of keywords, each alone in a token list and after a BETWEEN)
    from pyvc.core import import_repo
    import_repo()
    from sqlparse import sql, tokens as T, lexer
    from sqlparse.filters.reindent import ReindentFilter
    words = ['FROM', 'JOIN', 'LEFT JOIN', 'LEFT OUTER JOIN', 'INNER JOIN', 'CROSS JOIN', 'STRAIGHT_JOIN', 'AND', 'OR',
             'GROUP BY', 'ORDER BY', 'UNION', 'UNION ALL', 'SET', 'EXCEPT', 'HAVING', 'LIMIT']
    missing, between = [], None
    try:
        f = ReindentFilter()
        for w in words:
            toks = [sql.Token(tt, v) for tt, v in lexer.tokenize('x ' + w + ' y')]
            tl = sql.TokenList(toks)
            idx, tok = f._next_token(tl)
            if tok is None or tok.normalized != w:
                missing.append(w)
        toks = [sql.Token(tt, v) for tt, v in lexer.tokenize('a BETWEEN 1 AND 2 AND b')]
        tl = sql.TokenList(toks)
        idx, tok = f._next_token(tl)
        ands = [i for i, t in enumerate(toks) if t.normalized == 'AND']
        between = (tok is not None and idx == ands[1])
    except Exception as e:      # noqa
        missing, between = ['%s: %s' % (type(e).__name__, e)], None
    common.structural(rep, 'C10/ReindentFilter._next_token/split words contain every clause keyword of the property',
                      'sqlparse.filters.reindent.ReindentFilter._next_token', not missing, {'not found as a split word': missing})
    common.structural(rep, 'C10/ReindentFilter._next_token/AND directly after BETWEEN is skipped',
                      'sqlparse.filters.reindent.ReindentFilter._next_token', between is True, {'second AND found': between},
                      undecided_if_false=between is None)
    n = src.get('sqlparse.filters.others.StripWhitespaceFilter.process')
    txt = ast.unparse(n) if n else ''
    common.structural(rep, 'C10/StripWhitespaceFilter.process/at depth 0 a trailing whitespace token is removed',
                      'sqlparse.filters.others.StripWhitespaceFilter.process',
                      'if depth == 0 and stmt.tokens and stmt.tokens[-1].is_whitespace' in txt and 'stmt.tokens.pop(-1)' in txt,
                      {}, undecided_if_false=True)


def replay_serializer(rep):
    """counter-models of the serializer's element obligation replayed on the real SerializerUnicode.process"""
    from pyvc.core import import_repo, FAILED
    import_repo()
    from sqlparse.filters.others import SerializerUnicode
    for ob in rep.obls:
        if ob.status != FAILED or not ob.fn.endswith('SerializerUnicode.process'):
            continue
        m = (ob.detail or {}).get('model') or {}
        cands = [''.join(x) for x in re.findall(r'"((?:[^"\\]|\\.)*)"', str(m.get('LINE', '')))]
        cands = [c.encode().decode('unicode_escape') if '\\' in c else c for c in cands] + ['a\t', 'a \x0b']
        for line in cands:
            try:
                out = SerializerUnicode.process(line)
            except Exception:       # noqa
                continue
            bad = [l for l in out.split('\n') if l and l[-1].isspace()]
            if bad:
                ob.witness = {'input': ('serializer', line), 'failure': 'SerializerUnicode.process(%r) == %r: a line ends '
                              'in whitespace' % (line, out), 'reproduced': True}
                break


def run(rep):
    common.load_contracts()
    from contracts.filters import STRIPWS_SHAPE_CASES, MORE_LAYOUT_CASES, SPACING_SHAPE_CASES, CASE_LAYOUT_CASES
    descent = [c for c in MORE_LAYOUT_CASES if c[0].endswith('ReindentFilter._process_identifierlist')]
    descent += [c for c in CASE_LAYOUT_CASES if c[0].endswith('ReindentFilter._process_case')]
    return _run(rep, list(STRIPWS_SHAPE_CASES) + list(SPACING_SHAPE_CASES) + descent)


def _run(rep, shape_cases):
    return generic.run_generic(
        rep, [('sqlparse.formatter.validate_options', None)] + SITE_FUNCS[:4] + SITE_FUNCS[-1:] + [('sqlparse.filters.others.SerializerUnicode.process', None),
              ('sqlparse.filters.others.StripWhitespaceFilter._stripws_default', 'normal form'),
              # the split words of the reindent filters are matched with Token.match(..., regex=True)
              ('sqlparse.sql.Token.match', 'regex form'), ('sqlparse.sql.Token.__init__', 'body')] + list(shape_cases),
        structural=[replay_serializer, nl_obligations, stack_mapping],
        assumptions=['proved: the serializer joins lines that are right-stripped of every whitespace character (element '
                     'obligation of the real generator expression; str.rstrip() axiomatised as s == r ++ ws*, r not ending in '
                     'a str.isspace character); StripWhitespaceFilter.process is total also on an empty statement; _stripws_default '
                     'blanks a whitespace child that is first or follows a whitespace child and turns every other one into exactly '
                     'one blank (loop invariant over the list order); Token.match(..., regex=True), by which the reindent filters '
                     'recognise their split words, searches the NORMALIZED text (Token.__init__: upper-cased, inner whitespace '
                     'collapsed), so a clause keyword is found however it is spelled',
                     'per-function normal forms (_stripws_default, _stripws_parenthesis, _stripws_identifierlist, '
                     'SpacesAroundOperatorsFilter._process, _split_kwds) are not yet under SMT contracts: shape obligations '
                     'over the AST plus the bounded stand-in (normal-form oracles on grammar scripts, fixed points)',
                     'statements about the whole output string need re-lexing: bounded only'],
        trusted=['CPython re engine', 'str.rstrip'], budget_quick=35.0)


def replay(path):
    import json
    d = json.load(open(path))
    inp = (d.get('witness') or {}).get('input')
    if isinstance(inp, list) and inp and inp[0] == 'serializer':
        from pyvc.core import import_repo
        import_repo()
        from sqlparse.filters.others import SerializerUnicode
        out = SerializerUnicode.process(inp[1])
        print('SerializerUnicode.process(%r) -> %r' % (inp[1], out))
        return 1 if any(l and l[-1].isspace() for l in out.split('\n')) else 0
    return generic.replay_generic('C10', path)
