"""Thorough tier: self-validation of the proof obligations (DESIGN 9).

For the property under check, every seeded change kept under /verif/seeded (independently written breaking changes) and
every textual mutant of /verif/selftest/mutants.json is applied to a SCRATCH copy of the tree under check (a temporary
directory that is removed again), and the quick check of the property is run against that copy in a subprocess, proof
obligations only.  Reported: which are refuted by a proof obligation, which only by the bounded stand-in, which not at
all.  A miss is recorded as an UNDECIDED self-test obligation (never as a violation of the property: the tree under
check is unchanged).
"""
import json
import os
import re
import shutil
import subprocess
import sys
import tempfile
import time

from pyvc import core
from pyvc.core import Obl, DISCHARGED, UNDECIDED


def _scratch():
    d = tempfile.mkdtemp(prefix='pyvc_selftest_')
    shutil.copytree(os.path.join(core.REPO, 'sqlparse'), os.path.join(d, 'sqlparse'))
    return d


def _run(prop, d, proof_only=True, timeout=1500):
    env = dict(os.environ)
    env.update({'VERIF_REPO': d, 'VERIF_EVIDENCE_DIR': os.path.join(d, 'evidence'), 'VERIF_REPLAY_DIR': os.path.join(d, 'replays'),
                'VERIF_TIER': 'quick', 'VERIF_NO_SELFTEST': '1', 'PYVC_CROSSCHECK': '0'})
    if proof_only:
        env['VERIF_PROOF_ONLY'] = '1'
    else:
        env.pop('VERIF_PROOF_ONLY', None)
    try:
        p = subprocess.run([sys.executable, '-m', 'pyvc.main', prop, '--tier', 'quick'], cwd=core.VERIF, env=env,
                           capture_output=True, text=True, timeout=timeout)
    except subprocess.TimeoutExpired:
        return 124, [], []
    lines = p.stdout.splitlines()
    obl = [l.strip()[len('obligation: '):] for l in lines if l.strip().startswith('obligation: ')]
    proof = [o for o in obl if not o.startswith('bounded:')]
    bnd = [o for o in obl if o.startswith('bounded:')]
    return p.returncode, proof, bnd


def selftest(rep):
    t0 = time.time()
    items = []
    sd = os.path.join(core.VERIF, 'seeded')
    for name in sorted(os.listdir(sd)) if os.path.isdir(sd) else []:
        meta = os.path.join(sd, name, 'meta.json')
        if os.path.exists(meta) and json.load(open(meta)).get('property') == rep.prop:
            items.append(('seeded:' + name, 'patch', os.path.join(sd, name, 'patch.diff'), None))
    mj = os.path.join(core.VERIF, 'selftest', 'mutants.json')
    if os.path.exists(mj):
        for m in json.load(open(mj))['mutants']:
            if m['property'] == rep.prop:
                items.append(('mutant:' + m['id'], 'regex', m, m.get('expect')))
    res = {'mutants': 0, 'refuted_by_proof_obligation': [], 'refuted_by_bounded_stand_in_only': [], 'not_refuted': [],
           'not_applicable': []}
    for name, kind, what, expect in items:
        d = _scratch()
        try:
            if kind == 'patch':
                if shutil.which('patch'):
                    r = subprocess.run(['patch', '-p1', '-s', '--no-backup-if-mismatch', '-d', d, '-i', what],
                                       capture_output=True, text=True)
                else:
                    subprocess.run(['git', 'init', '-q', '.'], cwd=d, capture_output=True)
                    r = subprocess.run(['git', 'apply', what], cwd=d, capture_output=True, text=True)
                if r.returncode != 0:
                    res['not_applicable'].append(name + ' (patch does not apply to this tree)')
                    continue
            else:
                f = os.path.join(d, 'sqlparse', what['file'])
                src = open(f).read()
                if not re.search(what['pattern'], src, flags=re.M):
                    res['not_applicable'].append(name + ' (pattern not found in this tree)')
                    continue
                open(f, 'w').write(re.sub(what['pattern'], lambda _m: what['replacement'], src, count=1, flags=re.M))
            res['mutants'] += 1
            code, proof, _b = _run(rep.prop, d, proof_only=True)
            hit = [o for o in proof if (expect is None or expect in o)]
            if code == 1 and hit:
                res['refuted_by_proof_obligation'].append('%s -> %s' % (name, hit[0][:140]))
                continue
            code2, proof2, bnd2 = _run(rep.prop, d, proof_only=False)
            if code2 == 1:
                res['refuted_by_bounded_stand_in_only'].append('%s (%d failing cases)' % (name, len(bnd2)))
            else:
                res['not_refuted'].append('%s (exit %s)' % (name, code2))
        finally:
            shutil.rmtree(d, ignore_errors=True)
    res['seconds'] = round(time.time() - t0, 1)
    missed = res['not_refuted']
    # a textual mutant of the table is expected to be refuted by a PROOF obligation; a seeded change by anything
    weak = [x for x in res['refuted_by_bounded_stand_in_only'] if x.startswith('mutant:')]
    rep.add(Obl('%s/selftest/every broken variant is refuted (%d variants)' % (rep.prop, res['mutants']), 'selftest',
                kind='structural', backend='structural', status=DISCHARGED if not missed and not weak else UNDECIDED,
                detail=res))
    rep.notes.append('self-test: %d broken variants, %d refuted by a proof obligation, %d only by the bounded stand-in, '
                     '%d not refuted' % (res['mutants'], len(res['refuted_by_proof_obligation']),
                                         len(res['refuted_by_bounded_stand_in_only']), len(missed)))
    return res
