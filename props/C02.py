"""C02 — parse() is text-preserving."""
from props import common, generic, tree_common as tc
from props.C01 import table_obligations, GET_TOKENS


def splitter_obligations(rep):
    from pyvc import grammar
    from props import splitter_common as sc
    pc = sc._pc('C02')
    for k in ('trivia', 'other'):
        rep.add(grammar.check_after_terminator(pc, 'C02', k))


def ws_rules(rep, prop='C02'):
    """the dropped tail consists of tokens typed Whitespace; every rule with such an action matches only whitespace"""
    from sqlparse import keywords, tokens as T
    from pyvc import regexfacts
    for i, (rx, a) in enumerate(keywords.SQL_REGEX):
        if a is not keywords.PROCESS_AS_KEYWORD and a in T.Whitespace:
            common.structural(rep, '%s/keywords.SQL_REGEX[%d]/a rule typed Whitespace matches only whitespace characters' % (prop, i),
                              'sqlparse.keywords.SQL_REGEX', regexfacts.matches_only_whitespace(rx), {'rule': rx})


def run(rep):
    from props.C19 import dataflow_obligations
    def df(r):
        n0 = len(r.obls)
        dataflow_obligations(r)
        for o in r.obls[n0:]:
            o.id = 'C02/' + o.id.split('/', 1)[1]
    return generic.run_generic(
        rep, [(GET_TOKENS, 'text is str')] + tc.TREE_FUNCS + tc.MATCHER_FUNCS + tc.PASS_FUNCS + tc.JOINER_FUNCS,
        structural=[splitter_obligations, tc.grouping_frame, tc.flatten_and_str, tc.identity_side_conditions, ws_rules, df],
        assumptions=['ghost text methodology: every node carries TXT with the local invariant TXT(group) = concatenation '
                     'of TXT(children) = cached value; ownership is the token tree itself (each node has one parent, I1/I2), '
                     'so re-establishing the invariant for the written node and preserving its text preserves it for all '
                     'ancestors (paper argument, DESIGN 3.3)',
                     'the 25 grouping passes are covered by their frame (they write the tree only through group_tokens), '
                     'not by functional contracts of each pass',
                     're.Pattern.match contract (DESIGN 4.4)'],
        trusted=['CPython re engine', 'ownership-based local invariants (methodology)'],
        extra_functions=['sqlparse.engine.statement_splitter.StatementSplitter.process', 'sqlparse.engine.grouping.*'])


def replay(path):
    return generic.replay_generic('C02', path)
