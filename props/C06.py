"""C06 — layout formatting never changes the significant tokens of the SQL."""
import ast

from pyvc import effects
from pyvc.core import source
from props import common, generic

LAYOUT_FILES = ('sqlparse/filters/others.py', 'sqlparse/filters/reindent.py', 'sqlparse/filters/aligned_indent.py')
LAYOUT_CLASSES = ('StripWhitespaceFilter', 'SpacesAroundOperatorsFilter', 'ReindentFilter', 'AlignedIndentFilter')


def _is_ws_token_expr(e, fn_node):
    """syntactically a fresh whitespace token: sql.Token(T.Whitespace...) / self.nl(...) / a name bound only to those"""
    t = ast.unparse(e)
    if t.startswith('self.nl(') or t.startswith('sql.Token(T.Whitespace') or t.startswith('sql.Token(T.Text.Whitespace'):
        return True
    if isinstance(e, ast.Name):
        binds = [n.value for n in ast.walk(fn_node) if isinstance(n, ast.Assign)
                 and any(isinstance(x, ast.Name) and x.id == e.id for x in n.targets)]
        return bool(binds) and all(_is_ws_token_expr(b, fn_node) for b in binds)
    return False


def site_inventory_residual(rep):
    return site_inventory(rep, only=set(NOT_YET) | set(SHAPE_ONLY))


def site_inventory(rep, only=None):
    """every tree-mutation site of the layout filters is one of: insertion of a fresh whitespace token; removal of an
    element under an is_whitespace guard; rewrite of .value to '' or ' ' under an is_whitespace guard.  (Syntactic
    inventory over the real AST: a NEW kind of site, or a site that lost its guard, fails here; that the removed
    element really is the guarded one is covered by the bounded stand-in.)"""
    fns = effects.all_functions()
    for q, node in sorted(fns.items()):
        if not any(('.%s.' % c) in q for c in LAYOUT_CLASSES):
            continue
        if only is not None and q not in only:
            continue
        parents = {}
        for p in ast.walk(node):
            for ch in ast.iter_child_nodes(p):
                parents[id(ch)] = p
        sites = []
        for n in ast.walk(node):
            kind, ok, detail = None, True, ''
            if isinstance(n, ast.Call) and isinstance(n.func, ast.Attribute):
                a = n.func.attr
                if a in ('insert_before', 'insert_after') and len(n.args) >= 2:
                    kind, ok = 'insert', _is_ws_token_expr(n.args[1], node)
                elif a == 'insert' and 'tokens' in ast.unparse(n.func.value) and len(n.args) == 2:
                    kind, ok = 'insert', _is_ws_token_expr(n.args[1], node)
                elif a == 'append' and 'tokens' in ast.unparse(n.func.value):
                    kind, ok = 'insert', _is_ws_token_expr(n.args[0], node)
                elif a in ('pop', 'remove') and 'tokens' in ast.unparse(n.func.value):
                    kind, ok = 'remove', _guarded(n, parents, node)
            elif isinstance(n, ast.Delete) and any('tokens' in ast.unparse(t) for t in n.targets):
                kind, ok = 'remove', _guarded(n, parents, node)
            elif isinstance(n, ast.Assign) and any(isinstance(t, ast.Attribute) and t.attr == 'value' for t in n.targets):
                v = ast.unparse(n.value)
                kind, ok = 'rewrite', _guarded(n, parents, node) and ("''" in v and "' '" in v or v in ("''", "' '"))
            elif isinstance(n, ast.Assign) and any(isinstance(t, ast.Attribute) and t.attr in ('ttype', 'tokens', 'normalized')
                                                     for t in n.targets):
                kind, ok = 'other-store', False
            elif isinstance(n, ast.Assign) and any(isinstance(t, ast.Subscript) and 'tokens' in ast.unparse(t.value)
                                                     for t in n.targets):
                kind, ok = 'item-store', False
            if kind:
                sites.append({'line': n.lineno, 'kind': kind, 'ok': ok, 'text': ast.unparse(n)[:70]})
        if sites:
            bad = [s for s in sites if not s['ok']]
            common.structural(rep, 'C06/%s/every tree-mutation site inserts fresh whitespace or removes/blanks a token under an is_whitespace guard' % q,
                              q, not bad, {'sites': len(sites), 'bad': bad}, undecided_if_false=True)
            # (a syntactic inventory: a site it cannot classify is UNDECIDED, not a violation - these routines are not
            # under an SMT contract, the bounded stand-in decides for them)


def _guarded(n, parents, fn_node):
    cur = n
    while id(cur) in parents:
        cur = parents[id(cur)]
        if isinstance(cur, (ast.If, ast.While)) and 'is_whitespace' in ast.unparse(cur.test):
            return True
        if cur is fn_node:
            break
    return False


def stack_mapping(rep):
    """build_filter_stack: each filter is added under its own option, in the documented order"""
    n = source().get('sqlparse.formatter.build_filter_stack')
    txt = ast.unparse(n) if n else ''
    order = ['KeywordCaseFilter', 'IdentifierCaseFilter', 'TruncateStringFilter', 'SpacesAroundOperatorsFilter',
             'StripCommentsFilter', 'StripWhitespaceFilter', 'ReindentFilter', 'AlignedIndentFilter', 'RightMarginFilter']
    idx = [txt.find('filters.' + f + '(') for f in order]
    common.structural(rep, 'C06/sqlparse.formatter.build_filter_stack/filters are appended in the documented order, once each',
                      'sqlparse.formatter.build_filter_stack', all(i >= 0 for i in idx) and idx == sorted(idx)
                      and all(txt.count('filters.' + f + '(') == 1 for f in order), {'positions': idx}, undecided_if_false=True)
    n = source().get('sqlparse.filters.others.SerializerUnicode.process')
    txt = ast.unparse(n) if n else ''
    common.structural(rep, "C06/SerializerUnicode.process/joins the unquoted lines, right-stripped, with a line feed",
                      'sqlparse.filters.others.SerializerUnicode.process',
                      "'\\n'.join((line.rstrip() for line in lines))" in txt and 'split_unquoted_newlines(stmt)' in txt, {},
                      undecided_if_false=True)


O = 'sqlparse.filters.others.'
RF = 'sqlparse.filters.reindent.ReindentFilter.'
AF = 'sqlparse.filters.aligned_indent.AlignedIndentFilter.'
SITE_FUNCS = [(O + 'StripWhitespaceFilter._stripws_default', None), (O + 'StripWhitespaceFilter._stripws_parenthesis', None),
              (O + 'StripWhitespaceFilter._stripws_identifierlist', None), (O + 'SpacesAroundOperatorsFilter._process', None),
              (RF + '_split_kwds', 'sites'), (RF + '_split_statements', 'sites'), (RF + '_process_where', 'sites'),
              (RF + '_process_parenthesis', 'sites'), (RF + '_process_values', 'sites'), (RF + 'process', 'sites'),
              (AF + '_split_kwds', 'sites'), (AF + '_process_parenthesis', 'sites'),
              (O + 'StripWhitespaceFilter.process', 'body')]
NOT_YET = [RF + '_process_function', RF + '_process_default',
           AF + '_process_default', O + 'StripWhitespaceFilter._stripws']
# verified on explicit node shapes only (the syntactic inventory is kept for them as well: it speaks about every path)
SHAPE_ONLY = [RF + '_process_identifierlist', RF + '_process_case', AF + '_process_identifierlist', AF + '_process_case',
              AF + '_process_statement']


def pure_helpers(rep):
    """helpers that the site proofs use through a frame-only call-site model contain no tree write"""
    fns = effects.all_functions()
    for q in (RF + '_next_token', AF + '_next_token', RF + '_get_offset', RF + '_flatten_up_to_token', RF + 'nl', AF + 'nl',
              'sqlparse.sql.TokenList.token_next', 'sqlparse.sql.TokenList.token_prev', 'sqlparse.sql.TokenList.token_next_by',
              'sqlparse.sql.TokenList._token_matching', 'sqlparse.sql.TokenList.token_index', 'sqlparse.sql.Token.match',
              'sqlparse.utils.imt', 'sqlparse.sql.TokenList.get_sublists', 'sqlparse.sql.TokenList.get_identifiers'
              if False else 'sqlparse.sql.IdentifierList.get_identifiers', 'sqlparse.sql.Case.get_cases'):
        node = fns.get(q)
        if node is None:
            common.structural(rep, 'C06/%s/exists' % q, q, False, {}, undecided_if_false=True)
            continue
        # (appending to containers that this activation built - directly or reached through them - is no tree write)
        own = effects.derived_fresh_locals(node)
        ws = [w.as_dict() for w in effects.writes_of(q, node)
              if not (w.kind == 'mutator-call' and w.base in own)]
        common.structural(rep, 'C06/%s/query helper: no store, no mutating call (frame)' % q, q, not ws, {'writes': ws})


def run(rep):
    rep.notes.append('layout routines whose sites are not yet under SMT obligations (syntactic inventory + bounded only): '
                     + ', '.join(NOT_YET))
    common.load_contracts()
    from contracts.filters import CASE_LAYOUT_CASES, MORE_LAYOUT_CASES, STRIPWS_SHAPE_CASES, SPACING_SHAPE_CASES
    return generic.run_generic(
        rep, [('sqlparse.formatter.validate_options', None)] + SITE_FUNCS + list(CASE_LAYOUT_CASES) + list(MORE_LAYOUT_CASES) + list(STRIPWS_SHAPE_CASES) + list(SPACING_SHAPE_CASES),
        structural=[site_inventory_residual, pure_helpers, stack_mapping],
        assumptions=['tree-level clause: per-site SMT obligations (every removal / value store / insertion reached on any path '
                     'of the listed routines concerns a whitespace token) over the heap model; loops are over-approximated '
                     'by an arbitrary element in a havoc-ed state; calls of sibling layout routines are replaced by "may '
                     'restructure the lists of its argument" (each routine is verified under its own contract); site '
                     'obligations are also generated inside helpers executed in place (insert_before / insert_after)',
                     'AlignedIndentFilter._process_case (CASE shapes with 1-2 WHEN and optional ELSE), ReindentFilter._process_case '
                     '(1 WHEN + ELSE), '
                     'AlignedIndentFilter._process_identifierlist and ReindentFilter._process_identifierlist (lists of 2 '
                     'items; 3 items in the thorough tier) are verified on explicit shapes of the node (arbitrary item classes '
                     'and texts, arbitrary filter settings): every insertion is a fresh whitespace token, no exception escapes '
                     '(for _process_case this includes: the closing keyword that the grouping guarantees is found again)',
                     'the strip_whitespace routines are additionally verified on explicit shapes with functional postconditions '
                     '(_stripws_identifierlist on  A ws ws , ws B , ws ws C : exactly the whitespace in front of the commas is '
                     'removed, every other token is the same object in the same order, the remaining whitespace is one blank or '
                     'empty; _stripws_parenthesis on ( ws ws X ws Y ws ws ); _stripws_default on ws A ws ws B ws): these cases '
                     'do not refer to loop ordinals or local names, so they keep deciding after a rewrite of the routine',
                     'the routines listed in the notes are covered by a syntactic site inventory and the bounded stand-in only',
                     're-tokenising the output gives the same significant tokens / same number of statements: regex '
                     'semantics, bounded stand-in only'],
        trusted=['CPython re engine', 'str.rstrip'], budget_quick=35.0)


def replay(path):
    return generic.replay_generic('C06', path)
