"""C20 — results depend only on input and options: no call history, no thread effects."""
import ast

from pyvc import core, effects
from pyvc.core import source
from props import common

ROOTS = ['sqlparse.parse', 'sqlparse.parsestream', 'sqlparse.split', 'sqlparse.format']
LEXER_CONFIG = {'sqlparse.lexer.Lexer.clear', 'sqlparse.lexer.Lexer.set_SQL_REGEX', 'sqlparse.lexer.Lexer.add_keywords',
                'sqlparse.lexer.Lexer.default_initialization', 'sqlparse.lexer.Lexer.__init__'}
READ_PATH = ['sqlparse.lexer.Lexer.get_tokens', 'sqlparse.lexer.Lexer.is_keyword', 'sqlparse.lexer.tokenize']
# class-level objects that exist today and are never written (checked below): the lock and a constant list
CLASS_STATE_OK = {('Lexer', '_lock'), ('TypedLiteral', 'M_OPEN')}


def frame_obligations(rep):
    fns = effects.all_functions()
    g = effects.call_graph()
    reach = effects.reachable(g, ROOTS)
    rep.notes.append('functions reachable from parse/parsestream/split/format (name-based over-approximation): %d of %d'
                     % (len(reach), len(fns)))
    # (i) no reachable function writes through a closure variable, a module global, a class name or `cls`
    for q in sorted(reach):
        node = fns[q]
        bad = effects.shared_state_writes(q, node)
        if q == 'sqlparse.lexer.Lexer.get_default_instance':
            regions = effects.with_lock_regions(node)
            inside = [w for w in bad if any(a <= w.lineno <= b for a, b in regions)]
            outside = [w for w in bad if w not in inside]
            ok = not outside and all(w.attr == '_default_instance' for w in inside)
            common.structural(rep, 'C20/%s/writes only cls._default_instance, and only inside `with cls._lock`' % q, q,
                              ok, {'writes': [w.as_dict() for w in bad], 'lock_regions': regions})
            continue
        common.structural(rep, 'C20/%s/no write to state shared between calls' % q, q, not bad,
                          {'writes': [w.as_dict() for w in bad]})
    # (i') no reachable function memoises its results: a cache (functools.lru_cache / cache / cached_property, or any
    #      decorator whose name says it caches) is state shared between calls - objects handed out once are handed out again
    for q in sorted(reach):
        node = fns[q]
        decos = [ast.unparse(d) for d in getattr(node, 'decorator_list', [])]
        caching = [d for d in decos if any(k in d.lower() for k in ('lru_cache', 'functools.cache', 'cached_property', 'memo'))
                   or d.split('(')[0].split('.')[-1] == 'cache']
        if decos:
            common.structural(rep, 'C20/%s/is not memoised (no caching decorator)' % q, q, not caching, {'decorators': decos})
    # (ii) the read path of the shared lexer never stores to self
    for q in READ_PATH:
        node = fns.get(q)
        if node is None:
            common.structural(rep, 'C20/%s/exists' % q, q, False, {'reason': 'function not found'}, undecided_if_false=True)
            continue
        ws = [w for w in effects.writes_of(q, node) if w.base in ('self', 'cls')]
        common.structural(rep, 'C20/%s/never writes to the (shared) lexer object' % q, q, not ws,
                          {'writes': [w.as_dict() for w in ws]})
    # also every helper the read path calls on self
    for q, node in fns.items():
        if q.startswith('sqlparse.lexer.Lexer.') and q not in LEXER_CONFIG and q not in READ_PATH \
                and q != 'sqlparse.lexer.Lexer.get_default_instance' and '<locals>' not in q:
            ws = [w for w in effects.writes_of(q, node) if w.base in ('self', 'cls')]
            common.structural(rep, 'C20/%s/Lexer method outside the configuration API never writes to the lexer' % q,
                              q, not ws, {'writes': [w.as_dict() for w in ws]})
    # (iii) class-level / module-level mutable state
    st = effects.module_level_state()
    # a class-level object is shared by all calls and threads.  It is a problem when it is MUTABLE STATE: a container that
    # some function writes (store, mutating call, through any base), or an instance of a class of the package itself / a
    # mutable builtin created by a call (a token, a filter, a list(...)), which can be handed out and modified in place.
    # Constant tables (tuples, and list/dict/set literals that no function writes) and immutable helpers (compiled
    # patterns, locks, frozensets) are not state.
    all_writes = [w for q, node in fns.items() for w in effects.writes_of(q, node)]

    def written(name):
        return [w.as_dict() for w in all_writes
                if w.attr == name or w.base == name or ('.' + name) in (w.text or '').split('=')[0]]
    pkg_classes = {q.rsplit('.', 1)[1] for q in source().names() if isinstance(source().get(q), ast.ClassDef)}
    cls_state = []
    for m in st:
        if not m['class'] or (m['class'], m['name']) in CLASS_STATE_OK:
            continue
        if m['kind'] == 'container':
            ws = written(m['name'])
            if ws:
                cls_state.append(dict(m, written_by=ws[:3]))
        else:
            callee = m['kind'].split(':', 1)[1].rsplit('.', 1)[-1]
            if callee in pkg_classes or callee in ('list', 'dict', 'set', 'bytearray', 'deque', 'defaultdict', 'OrderedDict'):
                cls_state.append(m)
    common.structural(rep, 'C20/package/no class-level mutable state (written containers, instances of package classes)',
                      'sqlparse', not cls_state, {'found': cls_state})
    mod_names = {m['name'] for m in st if not m['class'] and m['kind'] == 'container'}
    writers = []
    for q, node in fns.items():
        for w in effects.writes_of(q, node):
            if w.base in mod_names or (w.text and any(('.' + n) in w.text.split('=')[0] for n in mod_names
                                                      if n.isupper())):
                params, local, _d = effects.name_kinds(node)
                if w.base in params or w.base in local:
                    continue
                if effects.benign_memo_cache(q, node) == w.base:
                    continue        # (a memo cache of immutable library objects, filled only here from the key alone)
                writers.append(w.as_dict())
    common.structural(rep, 'C20/package/module-level tables (SQL_REGEX, KEYWORDS*, ...) are never written by a function',
                      'sqlparse', not writers, {'writers': writers})
    md = effects.mutable_defaults()
    common.structural(rep, 'C20/package/no mutable default argument', 'sqlparse', not md, {'found': md})
    # (iv) per-call objects: every filter / stack / splitter instance is created inside the call
    for q in ROOTS + ['sqlparse.formatter.build_filter_stack', 'sqlparse.engine.filter_stack.FilterStack.run',
                      'sqlparse.engine.filter_stack.FilterStack.__init__']:
        node = fns.get(q)
        if node is None:
            continue
        loads = [n for n in ast.walk(node) if isinstance(n, ast.Attribute) and isinstance(n.ctx, ast.Load)
                 and isinstance(n.value, ast.Name) and n.value.id in ('self', 'cls', 'FilterStack')
                 and n.attr in ('splitter', '_splitter', 'lexer', '_lexer')]
        common.structural(rep, 'C20/%s/uses no pre-built splitter or lexer attribute' % q, q, not loads,
                          {'found': [ast.unparse(n) for n in loads]})


def lock_obligations(rep, prop='C20'):
    q = 'sqlparse.lexer.Lexer.get_default_instance'
    node = source().get(q)
    if node is None:
        common.structural(rep, '%s/%s/exists' % (prop, q), q, False, {}, undecided_if_false=True)
        return
    body = [s for s in node.body if not (isinstance(s, ast.Expr) and isinstance(s.value, ast.Constant))]
    regions = effects.with_lock_regions(node)
    # every read of _default_instance lies inside the with-block, except in the final return statement
    reads = [n for n in ast.walk(node) if isinstance(n, ast.Attribute) and n.attr == '_default_instance'
             and isinstance(n.ctx, ast.Load)]
    last = body[-1] if body else None
    outside = [n for n in reads if not any(a <= n.lineno <= b for a, b in regions)
               and not (isinstance(last, ast.Return) and last.lineno <= n.lineno <= last.end_lineno)]
    common.structural(rep, '%s/%s/monitor: the instance is only tested and initialised while holding the lock' % (prop, q), q,
                      len(regions) == 1 and not outside and isinstance(body[0], ast.With),
                      {'lock_regions': regions, 'reads_outside': [n.lineno for n in outside]})
    # the assignment and default_initialization() are both inside the same with block
    calls = [n for n in ast.walk(node) if isinstance(n, ast.Call) and isinstance(n.func, ast.Attribute)
             and n.func.attr == 'default_initialization']
    ok = bool(calls) and all(any(a <= n.lineno <= b for a, b in regions) for n in calls)
    common.structural(rep, '%s/%s/monitor: initialisation completes before the lock is released' % (prop, q), q, ok,
                      {'init_calls': [n.lineno for n in calls]})


def monitor_encapsulation(rep, prop='C20'):
    """the shared lexer is monitor state: get_default_instance() publishes `cls._default_instance = cls()` and only then
    initialises it, which is harmless as long as every reader takes the lock (i.e. goes through get_default_instance()).  A
    read of `_default_instance` anywhere else in the package sees a half-initialised lexer in some schedule - unless the
    instance is published only after default_initialization() has returned"""
    q = 'sqlparse.lexer.Lexer.get_default_instance'
    src = source()
    node = src.get(q)
    if node is None:
        return
    published_first = False
    stmts = [n for n in ast.walk(node) if isinstance(n, (ast.Assign, ast.Expr))]
    assign = [n for n in stmts if isinstance(n, ast.Assign) and any(isinstance(t, ast.Attribute) and t.attr == '_default_instance'
                                                                    for t in n.targets)]
    inits = [n for n in ast.walk(node) if isinstance(n, ast.Call) and isinstance(n.func, ast.Attribute)
             and n.func.attr == 'default_initialization']
    if assign and inits and min(a.lineno for a in assign) < min(i.lineno for i in inits):
        published_first = True
    elsewhere = []
    for rel, tree in src.trees.items():
        for fn in ast.walk(tree):
            if not isinstance(fn, (ast.FunctionDef, ast.AsyncFunctionDef)) or (fn.name == 'get_default_instance'):
                continue
            for n in ast.walk(fn):
                if isinstance(n, ast.Attribute) and n.attr == '_default_instance' and isinstance(n.ctx, ast.Load):
                    elsewhere.append({'file': rel, 'function': fn.name, 'line': n.lineno})
                if isinstance(n, ast.Call) and isinstance(n.func, ast.Name) and n.func.id == 'getattr' and len(n.args) >= 2 \
                        and isinstance(n.args[1], ast.Constant) and n.args[1].value == '_default_instance':
                    elsewhere.append({'file': rel, 'function': fn.name, 'line': n.lineno})
    common.structural(rep, '%s/%s/monitor: no reader of the shared instance bypasses the lock while it is published before its '
                      'initialisation' % (prop, q), q, not (elsewhere and published_first),
                      {'reads_elsewhere': elsewhere, 'published_before_initialisation': published_first})


def tokentype_obligations(rep):
    """every attribute chain rooted at the token-type modules that occurs in a function body exists after import
    (no _TokenType is created lazily at run time by __getattr__)"""
    from sqlparse import tokens as T
    src = source()
    missing = []
    for rel, tree in src.trees.items():
        if rel.endswith('tokens.py'):
            continue
        aliases = set()
        for n in tree.body:
            if isinstance(n, ast.ImportFrom) and n.module == 'sqlparse':
                for a in n.names:
                    if a.name == 'tokens':
                        aliases.add(a.asname or a.name)
        for n in ast.walk(tree):
            if isinstance(n, ast.Attribute):
                chain, cur = [], n
                while isinstance(cur, ast.Attribute):
                    chain.append(cur.attr)
                    cur = cur.value
                if isinstance(cur, ast.Name) and cur.id in aliases:
                    obj = T
                    for a in reversed(chain):
                        if isinstance(obj, T._TokenType):
                            if a not in vars(obj) and not hasattr(tuple, a):
                                missing.append('%s:%d %s' % (rel, n.lineno, ast.unparse(n)))
                                break
                            obj = vars(obj).get(a, None) if a in vars(obj) else getattr(obj, a)
                        else:
                            if not hasattr(obj, a):
                                break
                            obj = getattr(obj, a)
    common.structural(rep, 'C20/sqlparse.tokens/every token-type chain used in the package exists after import',
                      'sqlparse.tokens', not missing, {'missing': sorted(set(missing))[:10]})


def run(rep):
    frame_obligations(rep)
    lock_obligations(rep)
    monitor_encapsulation(rep)
    tokentype_obligations(rep)
    from props.C14 import dictionary_obligations
    n0 = len(rep.obls)
    dictionary_obligations(rep)
    for o in rep.obls[n0:]:
        o.id = 'C20/' + o.id.split('/', 1)[1]
    rep.functions += ROOTS + READ_PATH + ['sqlparse.lexer.Lexer.get_default_instance',
                                           'sqlparse.lexer.Lexer.default_initialization']
    common.run_bounded(rep, 'C20', rep.tier, rep.seed)
    rep.assumptions += ['frame analysis is syntactic (explicit stores, mutating container methods, setattr, global/'
                        'nonlocal) over the name-based call graph; aliasing through parameters is not tracked',
                        'GIL atomicity of attribute loads/stores; thread-safety of compiled re patterns; the scheduler',
                        'objects reachable through parameters of the per-call objects (tokens, statements, filter '
                        'stack, options) are allocated during the call (ownership argument, DESIGN 5 C20)']
    rep.trusted += ['CPython threading.Lock as a mutual-exclusion monitor', 'pyvc.effects (syntactic write-set analysis)']
    return common.finish(rep)


def replay(path):
    import json
    from pyvc import oracles
    d = json.load(open(path))
    case = d.get('case')
    if isinstance(case, list):
        case = tuple(case)
    r = oracles.oracle_C20(case) if case is not None else None
    print('case', repr(case)[:300], '->', r)
    return 1 if r else 0
